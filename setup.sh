#!/bin/sh
# MANIFEST.setup_cmd: build the Lean project from files on disk only (no network).
cd "$(dirname "$0")" || exit 2
export PYTHONPATH="${STACKSCOPE_REPO:-/repo}:$(pwd)"
/venv/bin/python -c "
from pathlib import Path
from harness import translate_consts
print('gen problems:', translate_consts.regenerate(Path('${STACKSCOPE_REPO:-/repo}'), Path('lean/SSModel/Gen')))
"
cd lean && lake build 2>&1 | tail -5
