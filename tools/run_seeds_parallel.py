#!/usr/bin/env python3
"""The same measurement as tools/run_seeds.py, on K workers at once.

Each worker has its own copy of /verif (under /tmp/pv/v<i>, including the built Lean project) and its own scratch worktree of
/repo's HEAD (/tmp/pv/wt<i>); a seeded change is applied to the worktree, the property's quick check is run from the copy with
STACKSCOPE_REPO pointing at the worktree, and the worktree is reverted.  /repo itself is never modified.  Results are merged
into seeded/RESULTS.json.  Scratch directories are removed at the end.

Usage: tools/run_seeds_parallel.py [-j K] [Cxx ...]
"""
import json
import os
import shutil
import subprocess
import sys
import time
from concurrent.futures import ThreadPoolExecutor
from pathlib import Path
from queue import Queue

V = Path(__file__).resolve().parent.parent
R = Path("/repo")
ROOT = Path("/tmp/pv")
args = sys.argv[1:]
K = 8
if "-j" in args:
    i = args.index("-j")
    K = int(args[i + 1])
    del args[i:i + 2]
only = set(args)


def sh(cmd, **kw):
    return subprocess.run(cmd, shell=True, capture_output=True, text=True, **kw)


def setup(i: int):
    v, wt = ROOT / f"v{i}", ROOT / f"wt{i}"
    if wt.exists():
        sh(f"git -C {R} worktree remove --force {wt}")
    shutil.rmtree(v, ignore_errors=True)
    v.parent.mkdir(parents=True, exist_ok=True)
    sh(f"rsync -a --exclude .git --exclude evidence/replays --exclude seeded {V}/ {v}/")
    r = sh(f"git -C {R} worktree add --detach {wt} HEAD")
    assert wt.exists(), r.stderr
    return v, wt


def one(v: Path, wt: Path, d: Path) -> dict:
    if (d / "NEUTRALISED.txt").exists():
        # a later repair of /repo took the change's effect away: its own demo no longer fails with the patch applied
        return {"applied": True, "neutralised": True, "why": (d / "NEUTRALISED.txt").read_text()[:400]}
    pid = d.name.split("-")[0]
    patch = d / "patch.rebased.diff" if (d / "patch.rebased.diff").exists() else d / "patch.diff"
    sh(f"git -C {wt} checkout -q -- .")
    a = sh(f"git -C {wt} apply {patch}")
    if a.returncode != 0:
        return {"applied": False, "err": a.stderr[-300:]}
    t = time.time()
    try:
        env = dict(os.environ, STACKSCOPE_REPO=str(wt))
        p = subprocess.run([str(v / "check"), pid], capture_output=True, text=True, cwd=str(v), timeout=2400, env=env)
        lines = p.stdout.splitlines()
        ev = {}
        try:
            ev = json.loads((v / "evidence" / f"{pid}.json").read_text())
        except Exception:
            pass
        cov = ev.get("coverage", {})
        return {
            "applied": True, "exit": p.returncode, "violation_lines": sum(l.startswith("VIOLATION") for l in lines),
            "no_failing_input": any("no-failing-input-found" in l for l in lines),
            "correspondence_disagreements": cov.get("correspondence_disagreements"),
            "oracle_failures": cov.get("oracle_failures"),
            "obligations": cov.get("obligations"), "discharged": cov.get("discharged", cov.get("obligations_discharged")),
            "first_failure": next((l[:300] for l in lines if l.startswith("failure:")), None),
            "first_broken": next((l[:300] for l in lines if l.startswith("broken:")), None),
            "secs": round(time.time() - t, 1),
        }
    finally:
        sh(f"git -C {wt} checkout -q -- .")


def main():
    seeds = [d for d in sorted((V / "seeded").iterdir()) if d.is_dir() and (not only or d.name.split("-")[0] in only)]
    out = V / "seeded" / "RESULTS.json"
    res = json.loads(out.read_text()) if out.exists() else {}
    workers: Queue = Queue()
    for i in range(K):
        workers.put(setup(i))

    def job(d: Path):
        v, wt = workers.get()
        try:
            r = one(v, wt, d)
        except Exception as e:  # noqa: BLE001
            r = {"applied": True, "exit": 2, "error": f"{type(e).__name__}: {e}"}
        finally:
            workers.put((v, wt))
        print(d.name, json.dumps(r)[:300], flush=True)
        return d.name, r

    # the same property's seeds run in different workers at the same time: fine, every worker has its own copy of everything
    with ThreadPoolExecutor(K) as ex:
        for name, r in ex.map(job, seeds):
            res[name] = r
    out.write_text(json.dumps(res, indent=1, sort_keys=True))
    while not workers.empty():
        v, wt = workers.get()
        sh(f"git -C {R} worktree remove --force {wt}")
        shutil.rmtree(v, ignore_errors=True)
    shutil.rmtree(ROOT, ignore_errors=True)
    missed = [k for k, r in res.items() if (not only or k.split("-")[0] in only) and r.get("exit") != 1 and not r.get("neutralised")]
    print(f"{len(seeds)} seeds run; not caught: {missed}")


if __name__ == "__main__":
    main()
