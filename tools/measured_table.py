#!/usr/bin/env python3
"""Rewrite the 'Measured on the final tree' table and the totals sentence of DESIGN.md from seeded/RESULTS.json."""
import json
import re
from pathlib import Path

V = Path(__file__).resolve().parent.parent
res = json.loads((V / "seeded" / "RESULTS.json").read_text())
names = sorted(d.name for d in (V / "seeded").iterdir() if d.is_dir())
cols = [f"m{i}" for i in range(7, 15)]


def cell(r):
    if r is None:
        return ""
    if r.get("neutralised"):
        return "neutralised"
    if not r.get("applied", True):
        return "does not apply"
    k, o = r.get("correspondence_disagreements"), r.get("oracle_failures")
    s = f"K {k} / O {o}"
    ob, di = r.get("obligations"), r.get("discharged")
    if ob is not None and di is not None and di < ob:
        s += f" / G {di}/{ob}"
    if r.get("no_failing_input"):
        s += " (n)"
    if r.get("exit") != 1:
        s += " **MISSED**"
    return s


rows = ["| property | " + " | ".join(cols) + " |", "|" + "---|" * (len(cols) + 1)]
for i in range(1, 21):
    p = f"C{i:02d}"
    rows.append(f"| {p} | " + " | ".join(cell(res.get(f"{p}-{c}")) for c in cols) + " |")
table = "\n".join(rows)

total = len(names)
neut = [n for n in names if res.get(n, {}).get("neutralised")]
caught = [n for n in names if res.get(n, {}).get("exit") == 1]
nofail = [n for n in caught if res[n].get("no_failing_input")]
missed = [n for n in names if n not in caught and n not in neut]
sentence = (f"Across all nine rounds: {total} seeds, {len(caught)} caught by their property's own quick check on the final tree, "
            f"{len(neut)} neutralised by a later repair of `/repo` ({', '.join(neut) or 'none'}); {len(nofail)} of the {len(caught)} are caught by a broken "
            f"correspondence or proof obligation without a concrete failing input ({', '.join(nofail) or 'none'})"
            + (f"; NOT caught: {', '.join(missed)}" if missed else "") + ".")

p = V / "DESIGN.md"
s = p.read_text()
s = re.sub(r"\| property \| m7 \|.*?\n\n", lambda _m: table + "\n\n", s, count=1, flags=re.S)
s = re.sub(r"<!-- TOTALS-BEGIN -->.*?<!-- TOTALS-END -->", lambda _m: "<!-- TOTALS-BEGIN -->\n" + sentence + "\n<!-- TOTALS-END -->", s, count=1, flags=re.S)
p.write_text(s)
print(sentence)
