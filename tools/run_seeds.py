#!/usr/bin/env python3
"""Apply every seeded change to /repo in turn, run the property's quick check, revert, and record which leg caught it.
Usage: tools/run_seeds.py [Cxx ...]   -> seeded/RESULTS.json (committed; evidence for DESIGN §12)"""
import json, os, subprocess, sys, time
from pathlib import Path

V = Path(__file__).resolve().parent.parent
R = Path("/repo")
only = set(sys.argv[1:])
res = {}
out = V / "seeded" / "RESULTS.json"
if out.exists():
    res = json.loads(out.read_text())
for d in sorted((V / "seeded").iterdir()):
    if not d.is_dir():
        continue
    pid = d.name.split("-")[0]
    if only and pid not in only:
        continue
    if (d / "NEUTRALISED.txt").exists():
        res[d.name] = {"applied": True, "neutralised": True, "why": (d / "NEUTRALISED.txt").read_text()[:400]}
        continue
    patch = d / "patch.rebased.diff" if (d / "patch.rebased.diff").exists() else d / "patch.diff"
    assert subprocess.run(["git", "-C", str(R), "status", "--porcelain"], capture_output=True, text=True).stdout.strip() == "", "/repo not clean"
    a = subprocess.run(["git", "-C", str(R), "apply", str(patch)], capture_output=True, text=True)
    if a.returncode != 0:
        res[d.name] = {"applied": False, "err": a.stderr[-300:]}
        continue
    t = time.time()
    try:
        p = subprocess.run([str(V / "check"), pid], capture_output=True, text=True, cwd=str(V), timeout=2400)
        lines = p.stdout.splitlines()
        ev = {}
        try:
            ev = json.loads((V / "evidence" / f"{pid}.json").read_text())
        except Exception:
            pass
        cov = ev.get("coverage", {})
        res[d.name] = {
            "applied": True, "exit": p.returncode, "violation_lines": sum(l.startswith("VIOLATION") for l in lines),
            "no_failing_input": any("no-failing-input-found" in l for l in lines),
            "correspondence_disagreements": cov.get("correspondence_disagreements"),
            "oracle_failures": cov.get("oracle_failures"),
            "obligations": cov.get("obligations"), "discharged": cov.get("discharged", cov.get("obligations_discharged")),
            "first_failure": next((l[:300] for l in lines if l.startswith("failure:")), None),
            "first_broken": next((l[:300] for l in lines if l.startswith("broken:")), None),
            "secs": round(time.time() - t, 1),
        }
    finally:
        subprocess.run(["git", "-C", str(R), "checkout", "--", "."], check=True)
    print(d.name, json.dumps(res[d.name])[:400], flush=True)
    out.write_text(json.dumps(res, indent=1, sort_keys=True))
