#!/usr/bin/env python3
"""Regenerate MANIFEST.json from harness/props/*.py (each exposes CHECK with .manifest)."""
import importlib, json, sys
from pathlib import Path
sys.path.insert(0, "/verif"); sys.path.insert(0, "/repo")
props = [json.loads(l) for l in Path("/verif/properties.jsonl").read_text().splitlines()]
checks, na = [], []
for p in props:
    pid = p["id"]
    f = Path(f"/verif/harness/props/{pid.lower()}.py")
    if not f.exists():
        na.append({"property_id": pid, "reason": "check under construction in this build (Lean model and harness not committed yet); see DESIGN.md §4 for the plan"})
        continue
    mod = importlib.import_module(f"harness.props.{pid.lower()}")
    m = mod.CHECK.manifest
    checks.append({
        "property_id": pid,
        "quick_cmd": f"./check {pid} --tier quick",
        "thorough_cmd": f"./check {pid} --tier thorough",
        "evidence_file": f"evidence/{pid}.json",
        "replay_cmd_template": f"./check {pid} --replay {{path}}",
        "engine": "lean4-model+correspondence",
        "level_claimed": {"category": "proof", "text": m["text"], "design_ref": m.get("design_ref", f"DESIGN.md §4 {pid}")},
        "level_note": m["note"],
        "technique": m.get("technique", "Lean 4 theorems about a hand model, tied to /repo by a differential correspondence check (model driver vs real code) and generated constants"),
    })
man = {
    "version": 1,
    "setup_cmd": "./setup.sh",
    "hooks": {
        "guard": "STACKSCOPE_VERIF",
        "enable": "environment variable STACKSCOPE_VERIF=1 (set by ./check); stackscope is imported from /repo's working tree via PYTHONPATH, nothing is built",
        "baseline_off_cmd": "cd /repo && env -u STACKSCOPE_VERIF /venv/bin/python -m pytest -ra -q -p no:cacheprovider --timeout=900 --continue-on-collection-errors",
        "source_commits": json.loads(Path("/verif/tools/hook_commits.json").read_text()) if Path("/verif/tools/hook_commits.json").exists() else [],
        "add_only": True,
    },
    "engines": [{
        "name": "lean4-model+correspondence",
        "path": "lean/ (Lake project: SSModel, SSLemmas, SSProps, SSDriver, Driver.lean) + harness/ (Python)",
        "serves_properties": [c["property_id"] for c in checks],
        "kind_free_text": "machine-checked proof in Lean 4 about executable models; models tied to /repo by generated constants (harness/translate_consts.py) and a differential correspondence check on every run; semantic oracles on the real code produce the replays",
    }],
    "checks": checks,
    "not_applicable": na,
    "notes": "See DESIGN.md. ./check <Cxx> --tier quick|thorough; VERIF_SEED selects the random inputs. Exit 0 held / 1 VIOLATION / 2 check could not run.",
}
Path("/verif/MANIFEST.json").write_text(json.dumps(man, indent=1) + "\n")
print(len(checks), "checks;", len(na), "not yet claimed")
