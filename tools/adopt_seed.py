#!/usr/bin/env python3
"""Confirm a sub-agent's seeded mutation in its scratch worktree and adopt it under /verif/seeded/.

usage: tools/adopt_seed.py <Cxx> <m1|m2|...> [--tier quick]
Steps (all in the scratch worktree /tmp/wt/<Cxx>, never in /repo, except the final check run which
applies the patch to /repo and reverts it straight afterwards):
  1. patch applies to clean HEAD; 2. full test suite passes with it; 3. demo fails with it;
  4. demo passes without it; 5. run ./check <Cxx> against /repo + patch; record everything in meta.json.
"""
import json
import shutil
import subprocess
import sys
from pathlib import Path

pid, m = sys.argv[1], sys.argv[2]
tier = sys.argv[sys.argv.index("--tier") + 1] if "--tier" in sys.argv else "quick"
props = sys.argv[sys.argv.index("--props") + 1].split(",") if "--props" in sys.argv else [pid]
wt = Path(f"/tmp/wt/{pid}")
src = wt / "_seeded" / m
patch = src / "patch.diff"
env = {"PYTHONPATH": str(wt), "PATH": "/usr/bin:/bin:/usr/local/bin", "HOME": "/root"}


def run(cmd, cwd=wt, timeout=900, env=env):
    p = subprocess.run(cmd, cwd=cwd, shell=True, stdout=subprocess.PIPE, stderr=subprocess.STDOUT, text=True, timeout=timeout, env=env)
    return p.returncode, p.stdout


res = {}
run("git checkout -- .")
head = subprocess.run("git -C /repo rev-parse HEAD", shell=True, stdout=subprocess.PIPE, text=True).stdout.strip()
run(f"git checkout -q --detach {head}")
res["base"] = head
rc, out = run(f"git apply {patch}")
if rc != 0:
    # the sub-agent worked on an older HEAD (before a fix: commit): re-anchor the same edit with fuzz
    rc, out = run(f"patch -p1 -F3 --no-backup-if-mismatch < {patch}")
    res["rebased_with_fuzz"] = True
    if rc == 0:
        rc2, diff = run("git diff")
        patch = src / "patch.rebased.diff"
        patch.write_text(diff)
res["applies"] = rc == 0
rc, out = run("/venv/bin/python -m pytest -q -p no:cacheprovider -x stackscope 2>&1 | tail -3")
res["tests_with_patch"] = out.strip().splitlines()[-1] if out.strip() else ""
res["tests_pass"] = " passed" in out and "failed" not in out and "error" not in out.lower()
rc, out = run(f"/venv/bin/python {src/'demo.py'}", timeout=300)
res["demo_with_patch_exit"] = rc
res["demo_with_patch_tail"] = out[-400:]
run("git checkout -- .")
rc, out = run(f"/venv/bin/python {src/'demo.py'}", timeout=300)
res["demo_clean_exit"] = rc
confirmed = res["applies"] and res["tests_pass"] and res["demo_with_patch_exit"] != 0 and res["demo_clean_exit"] == 0
res["confirmed"] = confirmed
print(json.dumps(res, indent=1))
if not confirmed:
    sys.exit(1)

# run my checks against /repo + patch
checks = {}
rc, out = run("git status --short", cwd="/repo")
if out.strip():
    print("refusing: /repo is dirty:", out)
    sys.exit(2)
subprocess.run(f"git -C /repo apply {patch}", shell=True, check=True)
try:
    for p in props:
        pr = subprocess.run(f"./check {p} --tier {tier}", cwd="/verif", shell=True, stdout=subprocess.PIPE, stderr=subprocess.STDOUT, text=True, timeout=3000)
        lines = [l for l in pr.stdout.splitlines() if l.startswith(("VIOLATION", "failure:", "broken:", "KNOWN-FINDING"))]
        checks[p] = {"exit": pr.returncode, "lines": [l[:500] for l in lines[:6]]}
finally:
    subprocess.run("git -C /repo checkout -- .", shell=True, check=True)
dest = Path("/verif/seeded") / f"{pid}-{m}"
dest.mkdir(parents=True, exist_ok=True)
shutil.copy(patch, dest / "patch.diff")
shutil.copy(src / "demo.py", dest / "demo.py")
notes = (src / "notes.txt").read_text() if (src / "notes.txt").exists() else ""
meta = {
    "breaks_property": pid,
    "origin": "independent sub-agent given only the property text and a scratch worktree",
    "what_and_needs": notes.strip(),
    "confirmation": res,
    "ran": [f"git apply patch.diff (scratch worktree {wt})", "pytest -q stackscope (52 tests)", "python demo.py with and without the patch",
            f"./check <prop> --tier {tier} with the patch applied to /repo, then git checkout -- ."],
    "checks": checks,
    "caught": any(v["exit"] == 1 for v in checks.values()),
}
(dest / "meta.json").write_text(json.dumps(meta, indent=1))
print(json.dumps(checks, indent=1))
print("caught" if meta["caught"] else "MISSED")
