#!/bin/sh
# usage: tools/try_mutant.sh <patch.diff> <Cxx> [tier]   — applies the patch to /repo, runs the check, reverts.
P="$1"; C="$2"; T="${3:-quick}"
git -C /repo apply "$P" || { echo "patch does not apply"; exit 3; }
cd /verif && ./check "$C" --tier "$T"; rc=$?
git -C /repo checkout -- . 
echo "exit=$rc"
