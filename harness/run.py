"""python -m harness.run Cxx [--tier ..] [--replay ..]"""
import importlib
import sys
import traceback


def main() -> int:
    pid = sys.argv[1]
    try:
        mod = importlib.import_module(f"harness.props.{pid.lower()}")
        from .core import main_check

        return main_check(mod.CHECK, sys.argv[2:])
    except SystemExit:
        raise
    except BaseException:
        traceback.print_exc()
        print(f"check {pid} could not run (harness error): not a verdict")
        return 2


if __name__ == "__main__":
    sys.exit(main())
