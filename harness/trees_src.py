"""Real frames for the formatter tests: suspended generators defined in a real file (so linecache works)."""


def plain_fn():
    with open("/dev/null") as fh:
        yield "plain"


class Klass:
    def meth(self):
        marker = 1
        yield "meth"

    @classmethod
    def cmeth(cls):
        yield "cmeth"


def other_fn(self):
    # first argument is called self but is not an instance of a class with a special name
    yield "other"


def make_frames():
    gens = [plain_fn(), Klass().meth(), Klass.cmeth(), other_fn(3)]
    for g in gens:
        next(g)
    names = ["plain_fn", "Klass.meth", "Klass.cmeth", "int.other_fn"]
    return gens, names
