"""C06 worker (subprocess: an interpreter crash is then an outcome the parent reports).

For each case: run the generated program unobserved, run its twin with extractions at the selected
observation points (suspension points and probes inside the body and the managers' methods), and report

* both event traces (values produced, manager events, exceptions, result);
* whether repeated extractions of the unchanged target compared equal;
* reference counts of the target's value-stack objects before / while holding k snapshots / after dropping them;
* which of the target's objects are reachable from stackscope's own module state after the results were dropped
  (mid-run and at the end), and which survive the end of the run in the observed twin only.

One JSON object per case on stdout.
"""
from __future__ import annotations

import contextlib
import gc
import io
import json
import random
import sys
import types
import warnings
import weakref
from typing import Any, Dict, List, Optional


def stackscope_reach(limit: int = 400000) -> Dict[int, str]:
    """ids of every object reachable from stackscope's modules (their globals, registries, function defaults,
    closures, caches), not walking into other modules or into classes defined elsewhere.  -> {id: path hint}"""
    import stackscope

    mods = [m for n, m in list(sys.modules.items()) if n == "stackscope" or n.startswith("stackscope.")]
    mod_ids = {id(m) for m in mods}
    seen: Dict[int, str] = {}
    todo: List[tuple] = [(m.__dict__, m.__name__) for m in mods]
    stop_types = (types.ModuleType, types.FrameType) if False else (types.ModuleType,)
    while todo and len(seen) < limit:
        o, path = todo.pop()
        if id(o) in seen:
            continue
        seen[id(o)] = path
        if isinstance(o, types.ModuleType) and id(o) not in mod_ids:
            continue
        if isinstance(o, type) and not (getattr(o, "__module__", "") or "").startswith("stackscope"):
            continue
        if isinstance(o, (str, bytes, int, float, types.CodeType)):
            continue
        if isinstance(o, types.FunctionType) and not (o.__module__ or "").startswith("stackscope"):
            # a foreign function registered as a hook: its defaults / closure could hold state, its globals are foreign
            for r in (o.__defaults__ or ()) + tuple(c for c in (o.__closure__ or ())):
                todo.append((r, path + "." + o.__name__))
            continue
        try:
            refs = gc.get_referents(o)
        except Exception:
            continue
        hint = path
        if isinstance(o, types.FunctionType):
            todo.append((o.__globals__, o.__module__))
            for r in (o.__defaults__ or ()) + tuple(o.__closure__ or ()) + tuple((o.__kwdefaults__ or {}).values()):
                todo.append((r, o.__module__ + "." + o.__qualname__))
            continue
        elif isinstance(o, dict) and path.count(".") < 6:
            for k, v in list(o.items()):
                if isinstance(k, str):
                    todo.append((v, path + "." + k))
            continue
        for r in refs:
            todo.append((r, hint))
    return seen


def raw_stack(frame) -> List[Any]:
    from stackscope import lowlevel

    try:
        return list(lowlevel.inspect_frame(frame).stack)
    except Exception:
        return []


def describe_stack_objs(frame) -> List[Any]:
    """The distinct countable objects on the frame's value stack (None and immortal objects have no meaningful count)."""
    out: List[Any] = []
    for o in raw_stack(frame):
        if o is not None and sys.getrefcount(o) < (1 << 30) and idx_of(out, o) is None:
            out.append(o)
    o = None     # no closures, no leftovers: this function's own references would show up in the counts
    return out


def idx_of(objs: List[Any], x: Any) -> Optional[int]:
    for k in range(len(objs)):
        if objs[k] is x:
            return k
    return None


def norm_stack(st) -> tuple:
    """Structure of a Stack for comparing two extractions: same objects (by identity) in the same places, same flags and
    texts; errors by type and message (exception instances have no value equality)."""
    import stackscope

    def err(e):
        if e is None:
            return None
        subs = tuple(err(x) for x in getattr(e, "exceptions", ()))
        return (type(e).__name__, str(e)[:200], subs)

    def cx(c):
        return (id(c.obj), c.is_async, c.is_exiting, c.varname, c.start_line, c.description,
                None if c.inner_stack is None else stk(c.inner_stack),
                tuple(cx(ch) if isinstance(ch, stackscope.Context) else stk(ch) for ch in c.children), c.hide)

    def fr(f):
        return (id(f.pyframe), f.lineno, id(f.origin), tuple(cx(c) for c in f.contexts), f.hide, f.hide_line)

    def stk(x):
        return (id(x.root), tuple(fr(f) for f in x.frames), id(x.leaf) if not isinstance(x.leaf, list) else tuple(map(id, x.leaf)), err(x.error))

    return stk(st)


def interp_state() -> tuple:
    """Process-wide interpreter settings an observer must leave as it found them."""
    import threading

    return (gc.isenabled(), gc.get_threshold(), sys.gettrace(), sys.getprofile(), threading.gettrace() if hasattr(threading, "gettrace") else None,
            sys.getswitchinterval(), sys.getrecursionlimit(), sys.get_asyncgen_hooks(), sys.get_coroutine_origin_tracking_depth(),
            gc.get_debug(), tuple(gc.callbacks), sys.excepthook, sys.unraisablehook)


def any_error(st) -> bool:
    import stackscope

    def cx(c):
        return (c.inner_stack is not None and any_error(c.inner_stack)) or any(
            (cx(ch) if isinstance(ch, stackscope.Context) else any_error(ch)) for ch in c.children)

    return st.error is not None or any(cx(c) for f in st.frames for c in f.contexts)


class Case:
    def __init__(self, case: dict):
        self.case = case
        self.problems: List[str] = []
        self.refs_obs: List[dict] = []
        self.stats = {"extractions": 0, "points": 0, "observed_points": 0, "eq_checks": 0, "refcount_checks": 0,
                      "reach_checks": 0, "fallbacks": 0, "in_exit": 0}

    # ---- the C01/C02 program space --------------------------------------------------------------------------
    def run_prog(self):
        import stackscope
        from stackscope import lowlevel
        from stackscope._lowlevel import InspectionWarning

        from harness import progs

        c = self.case
        if "corpus_odd" in c:
            c = dict(c)
            c["kind"], src = progs.CORPUS_ODD[c["corpus_odd"]]
            self.case = c
        else:
            src = progs.gen_program(random.Random(c["pseed"]), c["kind"], c["depth"], probes=True, odd=c.get("odd", True))
        mask = c["mask"] or [1]
        reps = c["reps"]
        lowlevel.set_trickery_enabled(None if c["mode"] == "auto" else c["mode"] == "trickery")
        idx = [0]
        mid_reach = c.get("reach_at", -1)
        gc_off = bool(c.get("gc_off"))
        if gc_off:
            gc.disable()        # an application (or a harness) running with the cyclic collector off

        def target_of(w, label):
            if w.kind != "sync" and label == "suspended":
                return w.target
            inner = sys._getframe(2)      # whoever called the observer (W.probe or a manager method): unchanged between extractions
            f = inner
            while f is not None and f.f_code.co_name != "prog":
                f = f.f_back
            if f is None:
                return None
            return stackscope.StackSlice(outer=f, inner=inner)

        def observer(w, label):
            i = idx[0]
            idx[0] += 1
            self.stats["points"] += 1
            if not mask[i % len(mask)]:
                return
            self.stats["observed_points"] += 1
            if "exit" in label:
                self.stats["in_exit"] += 1
            try:
                tgt = target_of(w, label)
                if tgt is None:
                    return
                before = interp_state()
                frame = w.frame if (w.kind != "sync" and label == "suspended") else None
                held = []
                n_warn_before = len(warn_seen)
                with contextlib.redirect_stderr(io.StringIO()):
                    # the first extraction also primes CPython's per-frame f_locals snapshot (finding F15, witnessed separately);
                    # reference counts are compared across the following ones
                    first = stackscope.extract(tgt)
                    self.stats["extractions"] += 1
                    s_first = str(first)
                    if "optional dependency is not installed" in s_first:
                        self.problems.append(f"point {i} ({label}): the extraction of the target failed with the ImportError of an unrelated "
                                             f"sys.modules entry (a stand-in for a missing optional dependency): {len(first.frames)} frames, "
                                             f"error {first.error!r}")
                    del first
                    if frame is not None:
                        gc.collect()       # results can contain reference cycles: only a collection really drops them
                    objs = describe_stack_objs(frame) if frame is not None and c.get("refcounts", True) else []
                    base = [sys.getrefcount(o) for o in objs]
                    # a probe from inside the running target: the slice names the program's frame; nothing may keep it pinned
                    pf = tgt.outer if frame is None and isinstance(tgt, stackscope.StackSlice) else None
                    if pf is not None:
                        gc.collect()
                        base_pf = sys.getrefcount(pf)
                    for _ in range(reps):
                        held.append(stackscope.extract(tgt))
                        self.stats["extractions"] += 1
                if any(issubclass(cat, InspectionWarning) for cat, _ in warn_seen[n_warn_before:]):
                    self.stats["fallbacks"] += 1
                if len(held) >= 2:
                    self.stats["eq_checks"] += 1
                    if not all(norm_stack(h) == norm_stack(held[0]) for h in held[1:]):
                        self.problems.append(f"point {i} ({label}): two extractions of the unchanged target compare unequal")
                    elif not any_error(held[0]) and not all(h == held[0] for h in held[1:]):
                        self.problems.append(f"point {i} ({label}): two error-free extractions of the unchanged target are structurally "
                                             f"identical but `==` says they differ")
                    if str(held[0]) != str(held[-1]) or str(held[0]) != s_first:
                        self.problems.append(f"point {i} ({label}): two extractions of the unchanged target format differently")
                del held
                if pf is not None:
                    now_pf = sys.getrefcount(pf)
                    self.stats["frame_refcount_checks"] = self.stats.get("frame_refcount_checks", 0) + 1
                    if now_pf != base_pf:
                        self.problems.append(f"point {i} ({label}): right after the extraction results were dropped (no garbage collection yet) the "
                                             f"reference count of the running program's frame is {now_pf}, baseline {base_pf}: the extraction left "
                                             f"something behind that pins the frame (and with it the target's locals)")
                    del pf
                if objs and frame is not None:
                    dropped = [sys.getrefcount(o) for o in objs]
                    if dropped != base:
                        self.problems.append(f"point {i} ({label}): right after the extraction results were dropped (no garbage collection yet) the "
                                             f"reference counts of the value-stack objects are {dropped}, baseline {base}: something still holds them")
                    # while k snapshots of the value stack are held, and after dropping them
                    snaps = [raw_stack(frame) for _ in range(reps)]
                    during = [sys.getrefcount(o) for o in objs]
                    slots = []
                    for k_ in range(len(snaps[0])):
                        slots.append(idx_of(objs, snaps[0][k_]))
                    del snaps
                    gc.collect()
                    after = [sys.getrefcount(o) for o in objs]
                    self.stats["refcount_checks"] += 1
                    self.refs_obs.append({"slots": slots, "base": base, "k": reps, "during": during, "after": after,
                                          "kinds": [type(o).__name__ for o in objs], "point": i})
                    if after != base:
                        self.problems.append(f"point {i} ({label}): reference counts of value-stack objects {[type(o).__name__ for o in objs]} "
                                             f"went from {base} to {after} after the extraction results were dropped")
                del objs
                after_state = interp_state()
                if after_state != before:
                    names = ["gc enabled", "gc thresholds", "sys.settrace", "sys.setprofile", "threading trace", "switch interval", "recursion limit",
                             "asyncgen hooks", "coroutine origin tracking", "gc debug flags", "gc callbacks", "excepthook", "unraisablehook"]
                    diff = [n for n, a, b in zip(names, before, after_state) if a != b]
                    self.problems.append(f"point {i} ({label}): the extraction changed interpreter-wide state: {diff}")
                if i == mid_reach:
                    self.reach_check(w, f"after point {i}")
            except Exception as e:
                self.problems.append(f"point {i} ({label}): extraction raised {type(e).__name__}: {e}")

        def run(obs):
            w = None
            try:
                w = progs.run_program(src, c["kind"], c["choices"], obs)
                return w, list(w.log)
            except BaseException as e:   # the program itself went wrong in a way the controller does not swallow
                return w, [("harness-exc", type(e).__name__ + ": " + str(e)[:80])]

        hostile_name = None
        if c.get("hostile_module"):
            # sys.modules holds a stand-in for a missing optional dependency: any attribute access on it raises ImportError (it
            # appears right before the runs, so the glue scan that precedes an extraction meets it)
            class _Missing(types.ModuleType):
                def __getattribute__(self, name):
                    if not name.startswith("__") or name in ("__spec__", "__dict__"):
                        raise ImportError("optional dependency is not installed")
                    return super().__getattribute__(name)

            Case._hostile_n = getattr(Case, "_hostile_n", 0) + 1
            hostile_name = f"verif_c06_missing_{Case._hostile_n}"
            sys.modules[hostile_name] = _Missing(hostile_name)
            # (plus one ordinary module that stays: the number of modules is then one the glue scan has not seen, whatever was
            # added and removed before -- otherwise the scan is skipped, which is known finding F4's mechanism)
            sys.modules[hostile_name + "_pad"] = types.ModuleType(hostile_name + "_pad")
        log_handlers = []
        if c.get("logging"):
            # an application with verbose logging switched on for everything: one handler formats each record at once, one
            # buffers the records (and whatever objects they carry) until it is flushed
            import io as _sio
            import logging as _lg
            import logging.handlers as _lgh

            root = _lg.getLogger()
            self._old_level = root.level
            root.setLevel(_lg.DEBUG)
            h1 = _lg.StreamHandler(_sio.StringIO())
            h1.setFormatter(_lg.Formatter("%(name)s %(message)s"))
            h2 = _lgh.MemoryHandler(capacity=1000000, flushLevel=_lg.CRITICAL + 1, target=None)
            for h in (h1, h2):
                root.addHandler(h)
                log_handlers.append(h)
        # the warnings machinery is set up ONCE for both twins (entering / leaving warnings.catch_warnings, or touching the filters,
        # makes every module forget which warnings it has already shown): everything is recorded by one hook; the target itself
        # issues one once-per-location warning at every observation point of both twins
        warn_seen: List[tuple] = []
        _wctx = warnings.catch_warnings()
        _wctx.__enter__()
        warnings.simplefilter("default")
        warnings.filterwarnings("always", category=InspectionWarning)
        warnings.showwarning = lambda message, category, *a, **k: warn_seen.append((category, str(message)))

        def ticking(obs):
            def o(w, label):
                warnings.warn("c06 tick", UserWarning)           # (one fixed location: shown once under the default action)
                return obs(w, label)
            return o

        w0, t0 = run(ticking(lambda w, l: None))
        ticks0 = sum(1 for _, m in warn_seen if m == "c06 tick")
        log_n0 = len(log_handlers[1].buffer) if log_handlers else 0
        refs0 = self.weakrefs(w0)
        del w0
        gc.collect()
        alive0 = [n for n, r in refs0 if r() is not None]
        idx[0] = 0
        w1, t1 = run(ticking(observer))
        ticks1 = sum(1 for _, m in warn_seen if m == "c06 tick") - ticks0
        _wctx.__exit__(None, None, None)
        if ticks1 != 0 and idx[0] > 0 and ticks0 <= 1:
            self.problems.append(f"a warning the target issues from one place (shown once, under the default action) was delivered {ticks1} more "
                                 f"time(s) in the observed run: the extractions made the interpreter forget which warnings had been shown")
        if t0 != t1:
            k = next((j for j, (a, b) in enumerate(zip(t0, t1)) if a != b), min(len(t0), len(t1)))
            self.problems.append(f"the observed run diverges from the unobserved twin at event {k}: unobserved {t0[k:k+3]}, observed {t1[k:k+3]}")
        if w1 is not None:
            self.reach_check(w1, "at the end of the run")
        refs1 = self.weakrefs(w1)
        del w1
        gc.collect()
        alive1 = [n for n, r in refs1 if r() is not None]
        extra = [n for n in alive1 if n not in alive0]
        if extra:
            who = []
            for n, r in refs1:
                if n in extra[:2] and r() is not None:
                    who.append(f"{n} <- {[type(x).__name__ for x in gc.get_referrers(r())][:4]}")
            self.problems.append(f"objects of the target still alive after the run and a gc.collect(), in the observed twin only: {extra[:6]} ({'; '.join(who)})")
        if log_handlers:
            import logging as _lg2

            root = _lg2.getLogger()
            for h in log_handlers:
                root.removeHandler(h)
            root.setLevel(self._old_level)
            buf = list(log_handlers[1].buffer)
            extra_recs = buf[2 * log_n0:]          # the observed twin logs what the unobserved one did, plus what the extractions add
            if extra_recs:
                self.problems.append(f"with DEBUG logging switched on, the observed run emitted {len(extra_recs)} log record(s) more than its "
                                     f"unobserved twin: formatting them runs the target's __repr__s and a buffering handler keeps what they "
                                     f"carry alive (first: {extra_recs[0].name}: {str(extra_recs[0].msg)[:80]!r})")
            for h in log_handlers:
                h.close()
        if hostile_name:
            sys.modules.pop(hostile_name, None)
        lowlevel.set_trickery_enabled(None)
        if gc_off:
            if gc.isenabled():
                self.problems.append("the run was made with the cyclic collector disabled; after the extractions it is enabled")
            gc.enable()
        return {"events": len(t0), "src_lines": src.count("\n")}

    def weakrefs(self, w):
        out = []
        if w is None:
            return out
        for mid, m in list(w.mgrs.items()):
            try:
                out.append((f"manager {mid} ({type(m).__name__})", weakref.ref(m)))
            except TypeError:
                pass
        tgt = getattr(w, "target", None)
        if tgt is not None:
            out.append((f"the {type(tgt).__name__} object", weakref.ref(tgt)))
        return out

    def reach_check(self, w, when: str):
        self.stats["reach_checks"] += 1
        gc.collect()
        reach = stackscope_reach()
        bad = []
        for mid, m in list(w.mgrs.items()):
            if id(m) in reach:
                bad.append(f"manager {mid} via {reach[id(m)]}")
        for what, o in (("frame", getattr(w, "frame", None)), ("target object", getattr(w, "target", None))):
            if o is not None and id(o) in reach:
                bad.append(f"the {what} via {reach[id(o)]}")
        if bad:
            self.problems.append(f"{when}, with every extraction result dropped, stackscope's module state still reaches: {bad[:4]}")

    # ---- the C03 chain space ----------------------------------------------------------------------------------
    def run_chain(self):
        import stackscope
        from stackscope import lowlevel

        from harness import chains

        c = self.case
        lowlevel.set_trickery_enabled(None if c["mode"] == "auto" else c["mode"] == "trickery")
        spec = dict(c["spec"])

        def behaviour(observe: bool):
            del chains.LEAF_EVENTS[:]
            ch = chains.build(spec)
            tr: List[Any] = []
            refs = [(f"owner {i} ({type(o).__name__})", weakref.ref(o)) for i, o in enumerate(ch.owners)]
            try:
                if observe:
                    held = [stackscope.extract(ch.x) for _ in range(c["reps"])]
                    self.stats["extractions"] += c["reps"]
                    if any(h.error is not None for h in held) or len({len(h.frames) for h in held}) != 1:
                        # (an extraction that fails half-way is not an observation of the target at all: nothing that follows
                        # can be compared)
                        self.problems.append(f"chain of {len(spec['links'])} links: extraction reports {[repr(h.error)[:80] for h in held]} "
                                             f"with {[len(h.frames) for h in held]} frames")
                    if len(held) >= 2:
                        self.stats["eq_checks"] += 1
                        if not all(norm_stack(h) == norm_stack(held[0]) for h in held[1:]):
                            self.problems.append("chain: two extractions of the unchanged target compare unequal")
                    del held
                    gc.collect()
                    reach = stackscope_reach()
                    self.stats["reach_checks"] += 1
                    bad = [f"owner {i}" for i, o in enumerate(ch.owners) if id(o) in reach or id(chains.frame_of(o)) in reach]
                    if bad:
                        self.problems.append(f"chain: with results dropped, stackscope's module state still reaches {bad[:4]}")
                if spec.get("two_points"):
                    try:
                        tr.append(("send", type(ch.driver.send(None)).__name__))
                    except BaseException as e:
                        tr.append(("send-raised", type(e).__name__))
                    if observe:
                        stackscope.extract(ch.x)
                p = chains.throw_path(ch)
                tr.append(("throw", None if p is None else [(f.f_code.co_name, ln) for f, ln in p]))
                tr.append(("calls of the leaf's __bool__/__len__", list(chains.LEAF_EVENTS)))
            finally:
                chains.close(ch)
            del ch
            gc.collect()
            return tr, [n for n, r in refs if r() is not None]

        t0, a0 = behaviour(False)
        t1, a1 = behaviour(True)
        if t0 != t1:
            self.problems.append(f"chain: behaviour after extraction {t1} differs from the unobserved twin {t0}")
        extra = [n for n in a1 if n not in a0]
        if extra:
            self.problems.append(f"chain: still alive after close and gc.collect() in the observed twin only: {extra[:4]}")
        lowlevel.set_trickery_enabled(None)
        return {"events": len(t0)}


def run_warnreg(case: dict, problems: List[str]) -> dict:
    """The interpreter's record of which warnings have been shown (per-module registries, invalidated whenever the filters are
    touched or a warnings.catch_warnings block is left) is state of the target's process: a warning the target issues from one place
    under the default action is shown once, however many extractions happen in between."""
    import contextlib as _c

    import stackscope
    from stackscope import lowlevel

    seen: List[str] = []
    with warnings.catch_warnings():
        warnings.simplefilter("default")
        warnings.showwarning = lambda m, c, *a, **k: seen.append(str(m))

        def tick():
            warnings.warn("c06 once-per-location", UserWarning)

        class M:
            def __enter__(s):
                return s

            def __exit__(s, *a):
                return False

        def gen():
            with _c.ExitStack() as es:
                es.enter_context(M())
                es.callback(print, "x")
                es.push(M())
                with M():
                    yield

        async def agen():
            async with _c.AsyncExitStack() as es:
                es.enter_context(M())
                es.push_async_callback(trapper)
                yield 1

        async def trapper():
            pass

        lowlevel.set_trickery_enabled(None if case["mode"] == "auto" else case["mode"] == "trickery")
        try:
            if case["target"] == "gen":
                t = gen()
                next(t)
            else:
                t = agen()
                step = t.asend(None)
                try:
                    step.send(None)
                except StopIteration:
                    pass
            n = 0
            for _ in range(case["reps"]):
                tick()
                st = stackscope.extract(t)
                n += 1
                str(st)
                del st
            tick()
        finally:
            lowlevel.set_trickery_enabled(None)
    shown = sum(1 for m in seen if m == "c06 once-per-location")
    if shown != 1:
        problems.append(f"a warning the target issues from one place under the default action was shown {shown} times across {n} "
                        f"extraction(s) of a {case['target']} holding an exit stack; without extractions it is shown once")
    return {"shown": shown}


def main():
    spec = json.loads(sys.stdin.read())
    import stackscope  # noqa

    for case in spec["cases"]:
        c = Case(case)
        try:
            info = run_warnreg(case, c.problems) if case["k"] == "warnreg" else c.run_prog() if case["k"] == "prog" else c.run_chain()
            r = {"problems": c.problems, "stats": c.stats, "info": info, "refs": c.refs_obs}
        except BaseException as e:
            import traceback

            r = {"problems": [f"worker error {type(e).__name__}: {e} {traceback.format_exc()[-400:]}"], "stats": c.stats, "info": {}}
        sys.stdout.write(json.dumps(r) + "\n")
        sys.stdout.flush()


if __name__ == "__main__":
    main()
