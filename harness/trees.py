"""Random Stack / Frame / Context trees built from real frames, their description for the Lean model
(payload strings computed here from the frames' own attributes and the stdlib, not through stackscope's
formatter), and a reader that parses the Unicode tree format back into a skeleton."""
from __future__ import annotations

import linecache
import random
import traceback
from typing import Any, List, Optional

from . import trees_src

_pool = None


class R:
    """An object with a controlled repr."""

    def __init__(self, t):
        self.t = t

    def __repr__(self):
        return self.t


class Mgr(R):
    pass


class RFalsy(R):
    """An object with a false truth value (an unstarted greenlet, an empty container, 0): `is None` is the only test that may
    decide whether there is a root / leaf / manager."""

    def __bool__(self):
        return False


class REmpty(R):
    def __len__(self):
        return 0


class RArray(R):
    """Array-like: comparison does not give a truth value (numpy / pandas / SQL-expression style)."""

    def __eq__(self, other):
        raise TypeError("the truth value of a comparison with this object is ambiguous")

    __ne__ = __eq__
    __hash__ = object.__hash__


class RProxy(R):
    """A transparent proxy (lazy object, weakref.proxy style): its __class__ claims to be what it stands for; type() knows better."""

    @property
    def __class__(self):
        return RArray


def rnd_obj(rng, text: str, cls=R):
    r = rng.random()
    if 0.86 < r <= 0.92:
        # a long (pure ASCII) repr: a big list, a bytes object, a dataclass with many fields
        return cls(text + " " + "x" * rng.choice([290, 301, 1000]))
    if r > 0.92:
        return RProxy(text)
    if r < 0.12:
        return RFalsy(text)
    if r < 0.2:
        return REmpty(text)
    if r < 0.28:
        return RArray(text)
    return cls(text)


def pool():
    global _pool
    if _pool is None:
        _pool = trees_src.make_frames()
    return _pool


def mk_error(rng: random.Random):
    r = rng.random()
    if r < 0.3:
        return ValueError("boom")
    if r < 0.4:
        # characters str.splitlines() treats as line boundaries but that do not end a line of the output ("\r" is left to the
        # error-lines leg: the driver's output is read in text mode)
        return RuntimeError(rng.choice(["form\x0cfeed", "unit\x1dsep", "file\x1csep", "v\x0btab\nsecond"]))
    if r < 0.6:
        return RuntimeError("two\nlines")
    if r < 0.8:
        try:
            raise KeyError("with traceback")
        except KeyError as e:
            return e
    if r < 0.9:
        return ExceptionGroup("multiple errors", [ValueError("a"), TypeError("b")])
    # chained: raised from another exception / while handling one (format_exception prints several traceback headers)
    if rng.random() < 0.5:
        try:
            try:
                raise KeyError("cause")
            except KeyError as ex:
                raise RuntimeError("translated") from ex
        except RuntimeError as e:
            return e
    try:
        try:
            raise KeyError("context")
        except KeyError:
            raise RuntimeError("while handling")
    except RuntimeError as e:
        return e


def rnd_stack(rng: random.Random, depth: int, width: int):
    import stackscope

    nf = rng.randrange(0, width + 1) if depth > 0 else rng.randrange(0, 2)
    frames = [rnd_frame(rng, depth, width) for _ in range(nf)]
    return stackscope.Stack(root=(rnd_obj(rng, "root%d" % rng.randrange(9)) if rng.random() < 0.7 else None), frames=frames,
                            leaf=(rnd_obj(rng, "<leaf %d>" % rng.randrange(9)) if rng.random() < 0.3 else None),
                            error=(mk_error(rng) if rng.random() < 0.25 else None))


def rnd_frame(rng, depth, width):
    import stackscope

    gens, _ = pool()
    g = rng.choice(gens)
    ctxs = [rnd_ctx(rng, depth - 1, width) for _ in range(rng.randrange(0, width + 1))] if depth > 0 else []
    if ctxs and rng.random() < 0.3:
        ctxs[-1].is_exiting = True
    f = stackscope.Frame(pyframe=g.gi_frame, contexts=ctxs, hide=rng.random() < 0.2, hide_line=rng.random() < 0.2)
    if rng.random() < 0.1:
        f.lineno = 0
    return f


def rnd_ctx(rng, depth, width):
    import stackscope

    c = stackscope.Context(obj=(rnd_obj(rng, "<mgr %d>" % rng.randrange(9), Mgr) if rng.random() < 0.5 else None), is_async=rng.random() < 0.5,
                           varname=(rng.choice(["x", "a.b", ""]) if rng.random() < 0.5 else None),
                           start_line=(rng.choice([5, 6, 12, 0, 9999]) if rng.random() < 0.5 else None),
                           description=(rng.choice(["desc(...)", "other", ""]) if rng.random() < 0.5 else None),
                           hide=rng.random() < 0.15, is_exiting=False)
    if depth > 0 and rng.random() < 0.4:
        c.inner_stack = rnd_stack(rng, depth - 1, width)
    if depth > 0:
        ch: List[Any] = []
        for _ in range(rng.randrange(0, width + 1)):
            ch.append(rnd_ctx(rng, depth - 1, width) if rng.random() < 0.5 else rnd_stack(rng, depth - 1, width))
        c.children = ch
    return c


def graft_deep_child(rng, s):
    """Make sure the tree has the shape random generation hardly ever reaches within its depth budget: a frame whose context has
    a child context with an inner stack, and a child task stack before it, the frames of both holding contexts with a start_line."""
    import stackscope

    def leaf_frame():
        f = rnd_frame(rng, 0, 0)
        f.hide = False
        f.contexts = [stackscope.Context(obj=None, is_async=rng.random() < 0.5, start_line=rng.choice([5, 6, 12]),
                                         varname=rng.choice([None, "x"]), description=rng.choice([None, "desc(...)"]))
                      for _ in range(rng.randint(1, 2))]
        return f

    inner = stackscope.Stack(root=None, frames=[leaf_frame()], leaf=None, error=None)
    child = stackscope.Context(obj=None, is_async=False, start_line=rng.choice([None, 6]), description="enter_context(...)",
                               inner_stack=inner)
    kids = [child, stackscope.Context(obj=None, is_async=True, start_line=rng.choice([None, 12]), description="callback(...)")]
    if rng.random() < 0.5:
        kids.insert(0, stackscope.Stack(root=None, frames=[leaf_frame()], leaf=None, error=None))
    top = stackscope.Context(obj=None, is_async=False, start_line=5, varname="x", children=kids)
    host = rnd_frame(rng, 0, 0)
    host.hide = False
    host.contexts = [top] + [stackscope.Context(obj=None, is_async=False, start_line=12)]
    s.frames.insert(rng.randint(0, len(s.frames)), host)
    return s


# ---- description for the Lean model ---------------------------------------------------------

def frame_name(f) -> str:
    gens, names = pool()
    for g, n in zip(gens, names):
        if g.gi_frame is f.pyframe:
            return n
    return "?"


def error_lines(err) -> Optional[List[str]]:
    if err is None:
        return None
    out = []
    for line in traceback.format_exception(type(err), err, err.__traceback__):
        if line != "Traceback (most recent call last):\n":
            # the specification, not the implementation: one element per "\n"-terminated line of the traceback text
            body = line[:-1] if line.endswith("\n") else line
            out.extend(piece + "\n" for piece in body.split("\n"))
    return out


def d_stack(s) -> dict:
    err = error_lines(s.error)
    if err is not None:
        # payloads are newline-free: the model appends the newline itself
        err = [l[:-1] if l.endswith("\n") else l + "<NO NEWLINE>" for l in err]
    return {"root": None if s.root is None else repr(s.root), "frames": [d_frame(f) for f in s.frames],
            "leaf": None if s.leaf is None else repr(s.leaf), "error": err}


def d_frame(f) -> dict:
    fr = f.pyframe
    filename = fr.f_code.co_filename
    mod = fr.f_globals.get("__name__") or "unknown module"
    code = "" if (f.lineno == 0 or f.hide_line) else linecache.getline(filename, f.lineno, fr.f_globals).strip()
    return {"head": f"{frame_name(f)} in {mod} at {filename}:{f.lineno}", "file": filename, "func": fr.f_code.co_name,
            "lineno": f.lineno, "code": code, "hide": f.hide, "contexts": [d_ctx(c, f) for c in f.contexts]}


def d_ctx(c, parent) -> dict:
    import stackscope

    src = ""
    if c.start_line is not None and parent is not None:
        src = linecache.getline(parent.pyframe.f_code.co_filename, c.start_line, parent.pyframe.f_globals).strip()
    return {"src": src, "desc": c.description, "async": c.is_async,
            "objtype": None if c.obj is None else type(c.obj).__name__, "varname": c.varname,
            "start_line": c.start_line, "hide": c.hide, "exiting": c.is_exiting, "repr": repr(c),
            "reprobj": repr(c.obj),
            "inner": None if c.inner_stack is None else d_stack(c.inner_stack),
            "children": [d_ctx(ch, None) if isinstance(ch, stackscope.Context) else d_stack(ch) for ch in c.children]}


# ---- skeleton and reader (Unicode format) ---------------------------------------------------

def sk_stack(s, sh, sc):
    return ('S', [sk_frame(f, sh, sc) for f in s.frames if sh or not f.hide], s.leaf is not None, s.error is not None)


def sk_frame(f, sh, sc):
    ctxs = [sk_ctx(c, sh) for c in f.contexts if sh or not c.hide] if sc else []
    code = not (f.contexts and f.contexts[-1].is_exiting) and bool(f.linetext)
    return ('F', ctxs, code)


def sk_ctx(c, sh):
    import stackscope

    inner = sk_stack(c.inner_stack, sh, True) if c.inner_stack is not None else None
    kids = []
    for ch in c.children:
        if isinstance(ch, stackscope.Context):
            if not sh and ch.hide:
                continue
            k = sk_ctx(ch, sh)
            kids.append(('K', 'ctx', k[1], k[2]))
        else:
            kids.append(('K', 'stack', sk_stack(ch, sh, True), []))
    return ('C', inner, kids)


def erase(sk):
    """Erase what the text cannot determine: the kind of a child, and an inner stack with nothing in it."""
    t = sk[0]
    if t == 'S':
        return ('S', [erase(f) for f in sk[1]], sk[2], sk[3])
    if t == 'F':
        return ('F', [erase(c) for c in sk[1]], sk[2])
    if t == 'C':
        inner = None if sk[1] is None else erase(sk[1])
        if inner is not None and not inner[1] and not inner[2] and not inner[3]:
            inner = None
        return ('C', inner, [erase(k) for k in sk[2]])
    _, kind, inner, kids = sk
    inner_e = None if inner is None else erase(inner)
    if inner_e is not None and not inner_e[1] and not inner_e[2] and not inner_e[3]:
        inner_e = None
    return ('K', 'other', inner_e, [erase(k) for k in kids])


def _blank(l):
    return not l.strip()


def parse_stack_body(lines):
    frames = []
    cur = None
    leaf = err = False
    for l in lines:
        if l.startswith("╠ "):
            cur = [l[2:]]
            frames.append(cur)
        elif l.startswith("║ "):
            cur.append(l[2:])
        elif l.startswith("╚ "):
            leaf = True
        elif l.startswith("  Error while extracting stack:"):
            err = True
        elif l.startswith("  ") or _blank(l):
            pass
        else:
            raise ValueError("stack line? %r" % l)
    return ('S', [parse_frame(f) for f in frames], leaf, err)


def parse_frame(lines):
    ctxs = []
    cur = None
    code = False
    for l in lines[1:]:
        if l.startswith("├─"):
            cur.append(l[2:])
        elif l.startswith("├ "):
            cur = [l[2:]]
            ctxs.append(cur)
        elif l.startswith("│ "):
            cur.append(l[2:])
        elif l.startswith("└ "):
            code = True
        else:
            raise ValueError("frame line? %r" % l)
    return ('F', [parse_ctx(c) for c in ctxs], code)


def split_children(X):
    inner, kids, cur = [], [], None
    for l in X:
        if l.startswith("─ "):
            cur = [l[2:]]
            kids.append(cur)
        elif _blank(l):
            (cur if cur is not None else inner).append("")
        elif cur is None:
            inner.append(l)
        elif l.startswith("  "):
            cur.append(l[2:])
        else:
            raise ValueError("ctx line? %r" % l)
    return inner, kids


def parse_inner(inner):
    body = [l for l in inner if not _blank(l)]
    if not body:
        return None
    return parse_stack_body(body)


def parse_ctx(lines):
    inner, kids = split_children(lines[1:])
    return ('C', parse_inner(inner), [parse_child(k) for k in kids])


def parse_child(lines):
    inner, kids = split_children(lines[1:])
    return ('K', 'other', parse_inner(inner), [parse_child(k) for k in kids])


UNI2ASCII = {"╠ ": "+ ", "║ ": "| ", "╚ ": "+ ", "├ ": ". ", "│ ": "  ", "├─": "  ", "─ ": ". ", "└ ": "` ", "  ": "  "}


def to_ascii(line: str) -> str:
    """Replace the leading run of 2-character Unicode markers by their ASCII counterparts."""
    out = ""
    i = 0
    while line[i:i + 2] in UNI2ASCII:
        out += UNI2ASCII[line[i:i + 2]]
        i += 2
    return out + line[i:]
