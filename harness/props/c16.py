"""C16 — Frame.origin and extract_outermost keep their documented contracts.

A. hook environments (with real suspended generators as generator-like items): extract and
   extract_outermost on the root and on every generator item, compared with the Lean model
   (origin of every frame; first frame / which exception extract_outermost raises);
B. real scenarios: suspended await/yield-from chains of every link kind (harness/chains.py), running
   generators / coroutines / async generators probed from inside their callees, threads, greenlets.
Oracle (on the real objects only): every non-None origin is weak-referenceable and
extract_outermost(origin).pyframe is that frame; every frame found inside a suspended coroutine /
generator / async generator has it as origin; extract_outermost(x) equals extract(x).frames[0] and
raises exactly when there is none, re-raising the recorded error.
"""
from __future__ import annotations

import json
import random
import sys
import threading
import types
import weakref
from typing import Any, List, Optional

from ..core import PropCheck
from ..envs import Injected, World
from . import c10 as C10


def origin_oracle(st, label="") -> Optional[str]:
    """The documented contract of Frame.origin on a real Stack."""
    import stackscope

    for idx, f in enumerate(st.frames):
        if f.origin is None:
            continue
        try:
            weakref.ref(f.origin)
        except TypeError:
            return f"{label}frame #{idx} ({f.funcname}): origin {type(f.origin).__name__} is not weak-referenceable"
        try:
            o = stackscope.extract_outermost(f.origin)
        except Exception as e:
            return f"{label}frame #{idx} ({f.funcname}): extract_outermost(origin) raised {type(e).__name__}: {e}"
        if o.pyframe is not f.pyframe:
            return (f"{label}frame #{idx} ({f.funcname}): extract_outermost(origin).pyframe is the frame of "
                    f"{o.pyframe.f_code.co_name}, not this frame")
    return None


def frame_of(obj):
    for a in ("cr_frame", "gi_frame", "ag_frame"):
        fr = getattr(obj, a, None)
        if fr is not None:
            return fr
    return None


def suspended_origin_oracle(st, owners: dict, label="") -> Optional[str]:
    """owners: id(pyframe) -> the suspended coroutine/generator/async generator owning that frame."""
    for idx, f in enumerate(st.frames):
        own = owners.get(id(f.pyframe))
        if own is not None and f.origin is not own:
            return (f"{label}frame #{idx} ({f.funcname}) was found inside suspended {type(own).__name__} "
                    f"but its origin is {type(f.origin).__name__ if f.origin is not None else None}")
    return None


def outermost_oracle(x, **kw) -> Optional[str]:
    """extract_outermost(x) == extract(x).frames[0], raises iff none, re-raising the recorded error."""
    import stackscope

    st = stackscope.extract(x, **kw)
    try:
        o = stackscope.extract_outermost(x, **kw)
    except Exception as e:
        if st.frames:
            return f"extract_outermost raised {type(e).__name__} although extract has {len(st.frames)} frames"
        if st.error is not None:
            want = st.error
            if isinstance(want, BaseExceptionGroup):
                if not isinstance(e, BaseExceptionGroup) or [type(a) for a in e.exceptions] != [type(a) for a in want.exceptions]:
                    return f"extract_outermost raised {e!r}, expected the recorded group {want!r}"
            elif type(e) is not type(want) or e.args != want.args:
                return f"extract_outermost raised {e!r} instead of re-raising the recorded error {want!r}"
        elif not isinstance(e, RuntimeError):
            return f"extract_outermost raised {type(e).__name__} for a frameless item, expected RuntimeError"
        return None
    if not st.frames:
        return "extract_outermost returned a frame although extract has no frames"
    f = st.frames[0]
    if o.pyframe is not f.pyframe or o.lineno != f.lineno or o.hide != f.hide or o.hide_line != f.hide_line \
            or o.origin is not f.origin:
        return (f"extract_outermost differs from extract(x).frames[0]: "
                f"{(o.funcname, o.lineno, o.hide, o.hide_line, type(o.origin).__name__)} vs "
                f"{(f.funcname, f.lineno, f.hide, f.hide_line, type(f.origin).__name__)}")
    if len(o.contexts) != len(f.contexts) or any(a.obj is not b.obj or a.is_exiting != b.is_exiting or a.is_async != b.is_async
                                                   for a, b in zip(o.contexts, f.contexts)):
        return "extract_outermost frame's contexts differ from extract(x).frames[0].contexts"
    # …and all the way down (inner stacks, children of the contexts: stubs vs populated child stacks, hidden flags)
    from ..c06_worker import norm_stack

    wrap = lambda fr: stackscope.Stack(root=None, frames=[fr])
    if norm_stack(wrap(o)) != norm_stack(wrap(f)):
        return ("extract_outermost frame's context trees differ from those of extract(x).frames[0] "
                f"(children / inner stacks: {[(len(a.children), [len(getattr(ch, 'frames', ())) for ch in a.children]) for a in o.contexts]} vs "
                f"{[(len(b.children), [len(getattr(ch, 'frames', ())) for ch in b.children]) for b in f.contexts]})")
    return None


def run_taskset(case) -> dict:
    """The outermost frame holds a manager whose elaborate_context hook reports child tasks through
    extract_child(..., for_task=True): extract_outermost must treat them exactly as extract does, for every option pair."""
    import stackscope

    class TaskSet:
        def __init__(self, tasks):
            self.tasks = tasks

        def __enter__(self):
            return self

        def __exit__(self, *a):
            return False

    @stackscope.elaborate_context.register(TaskSet)
    def _elab(mgr, context):
        context.children = [stackscope.extract_child(t, for_task=True) for t in mgr.tasks]

    def child(n):
        if n:
            yield from child(n - 1)
        else:
            yield 1

    kids = [child(i % 3) for i in range(case["nkids"])]
    for k in kids:
        next(k)

    def holder():
        with TaskSet(kids):
            yield 1

    def wrapper():
        yield from holder()

    x = holder() if not case["wrapped"] else wrapper()
    next(x)
    probs = []
    for wc in (True, False):
        for rc in (True, False):
            p = outermost_oracle(x, with_contexts=wc, recurse_child_tasks=rc)
            if p:
                probs.append(f"with_contexts={wc}, recurse_child_tasks={rc}: {p}")
    p = outermost_oracle(x)
    if p:
        probs.append(f"default options: {p}")
    return {"problems": probs, "frames": 1}


# ------------------------------------------------------------------------------------------
# leg B: running targets probed from inside
# ------------------------------------------------------------------------------------------

def running_scenarios(depths=(0, 1, 3)) -> List[dict]:
    out = []
    for kind in ("generator", "coroutine", "asyncgen", "thread", "greenlet", "hidden_outermost", "recursive_generator",
                 "recursive_coroutine"):
        for d in depths:
            out.append({"k": "running", "kind": kind, "depth": d})
    return out


def run_running(case) -> dict:
    import stackscope

    problems: List[str] = []
    info = {"frames": 0, "with_origin": 0}
    depth = case["depth"]

    def probe(target):
        st = stackscope.extract(target)
        info["frames"] += len(st.frames)
        info["with_origin"] += sum(f.origin is not None for f in st.frames)
        f = origin_oracle(st, f"{case['kind']} depth {depth}: ")
        if f:
            problems.append(f)
        f = outermost_oracle(target)
        if f:
            problems.append(f"{case['kind']} depth {depth}: {f}")
        own = frame_of(target)
        if own is not None and st.frames and st.frames[0].pyframe is own and st.frames[0].origin is not target:
            problems.append(f"{case['kind']}: the target's own frame does not carry it as origin")
        return st

    def callee(n, target):
        if n == 0:
            return probe(target)
        return callee(n - 1, target)

    kind = case["kind"]
    if kind == "generator":
        box = []

        def gen():
            callee(depth, box[0])
            yield 1

        g = gen()
        box.append(g)
        next(g)
    elif kind == "coroutine":
        box = []

        async def co():
            callee(depth, box[0])

        c = co()
        box.append(c)
        try:
            c.send(None)
        except StopIteration:
            pass
    elif kind == "recursive_generator":
        # a running generator that is (synchronously, with a for loop, not `yield from`) driving other activations of the SAME
        # function: same code object, different frames; only the target's own frame was reached through the target
        box = []

        def walk(n):
            if n == 0:
                st = probe(box[0])
                inner = [f for f in st.frames[1:] if f.pyframe.f_code is walk.__code__]
                if any(f.origin is box[0] for f in inner):
                    problems.append("recursive generator: frames of the nested activations carry the root generator as origin")
                yield 0
                return
            for item in walk(n - 1):
                yield item

        g = walk(depth + 1)
        box.append(g)
        next(g)
        g.close()
    elif kind == "recursive_coroutine":
        box = []

        async def rec(n):
            if n == 0:
                st = probe(box[0])
                inner = [f for f in st.frames[1:] if f.pyframe.f_code is rec.__code__]
                if any(f.origin is box[0] for f in inner):
                    problems.append("recursive coroutine: frames of the nested activations carry the root coroutine as origin")
                return
            inner_co = rec(n - 1)
            try:
                inner_co.send(None)     # driven by hand, not awaited: not part of the root's await chain
            except StopIteration:
                pass

        c = rec(depth + 1)
        box.append(c)
        try:
            c.send(None)
        except StopIteration:
            pass
    elif kind == "asyncgen":
        box = []

        async def ag():
            callee(depth, box[0])
            yield 1

        a = ag()
        box.append(a)
        try:
            a.asend(None).send(None)
        except StopIteration:
            pass
    elif kind == "thread":
        ev, started = threading.Event(), threading.Event()

        def body(n):
            if n == 0:
                started.set()
                ev.wait(10)
            else:
                body(n - 1)

        t = threading.Thread(target=body, args=(depth,), daemon=True)
        t.start()
        started.wait(5)
        try:
            probe(t)
        finally:
            ev.set()
            t.join(5)
    elif kind == "greenlet":
        import greenlet

        def gbody(n):
            if n == 0:
                greenlet.getcurrent().parent.switch()
            else:
                gbody(n - 1)

        g = greenlet.greenlet(gbody)
        g.switch(depth)
        probe(g)
        g.throw(greenlet.GreenletExit)
    elif kind == "hidden_outermost":
        # the outermost frame carries flags set by elaborate_frame: extract_outermost must report them too
        def hidden_gen():
            __tracebackhide__ = True
            yield

        def sub(n):
            if n == 0:
                yield
            else:
                yield from sub(n - 1)

        def outer():
            __tracebackhide__ = True
            yield from sub(depth)

        for g in (hidden_gen(), outer()):
            next(g)
            f = outermost_oracle(g)
            if f:
                problems.append("hidden outermost frame: " + f)
            info["frames"] += 1
        f = outermost_oracle(threading.current_thread())
        if f:
            problems.append("current thread: " + f)
    return {"problems": problems[:5], **info}


ORIGIN_KINDS = ["coroutine", "generator", "asyncgen", "other", "othernw", "none"]


def run_better_origin(case) -> str:
    """_extract.better_origin on one object of each kind x each kind of fallback, against the Lean function."""
    from stackscope import _extract

    async def co():
        pass

    def ge():
        yield

    async def ag():
        yield

    class Other:
        pass

    objs = {"coroutine": co(), "generator": ge(), "asyncgen": ag(), "other": Other(), "othernw": [1, 2], "none": None}
    fbs = {"coroutine": co(), "generator": ge(), "asyncgen": ag(), "other": Other(), "othernw": [3, 4], "none": None}
    out = []
    try:
        for c, f in case["pairs"]:
            r = _extract.better_origin(objs[c], fbs[f])
            out.append("c" if r is objs[c] else "f" if r is fbs[f] else "?")
    finally:
        objs["coroutine"].close()
        fbs["coroutine"].close()
    return " ".join(out)


_READY = {}


def run_readymade(case) -> dict:
    """A suspended coroutine / generator / async generator waits on a custom item whose unwrap hook hands back ready-made
    stackscope.Frame objects (with or without an origin of their own)."""
    import stackscope
    from stackscope import Frame, unwrap_stackitem

    if "cls" not in _READY:
        class Delegated:
            def __init__(self, workers, preset):
                self.workers, self.preset = workers, preset

            def __await__(self):
                return self

            def __iter__(self):
                return self

            def __next__(self):
                return self

        @unwrap_stackitem.register(Delegated)
        def _unwrap(d):
            return [Frame(pyframe=w.gi_frame, origin=(w if d.preset else None)) for w in d.workers]

        _READY["cls"] = Delegated

    def worker(tag):
        yield tag

    workers = []
    for i in range(case["workers"]):
        w = worker(i)
        next(w)
        workers.append(w)
    item = _READY["cls"](workers, case["preset"])
    kind = case["awaiter"]
    if kind == "coro":
        async def awaiter():
            await item
        root = awaiter()
        root.send(None)
    elif kind == "gen":
        def awaiter():
            yield from item
        root = awaiter()
        next(root)
    elif kind == "agen":
        async def awaiter():
            await item
            yield 1
        root = awaiter()
        step = root.asend(None)
        step.send(None)
    else:
        root = item
    problems = []
    st = stackscope.extract(root, with_contexts=False)
    if st.error is not None:
        problems.append(f"unexpected error {st.error!r}")
    want = ([root] if kind != "item" else []) + workers
    got = [f.pyframe for f in st.frames]
    if got != [frame_of(o) for o in want]:
        problems.append(f"frames {[f.f_code.co_name for f in got]}; expected the awaiter's frame then the {len(workers)} worker frames")
    p = origin_oracle(st, "ready-made frames: ")
    if p:
        problems.append(p)
    owners = {id(frame_of(root)): root} if kind != "item" else {}
    p = suspended_origin_oracle(st, owners, "ready-made frames: ")
    if p:
        problems.append(p)
    if case["preset"]:
        for f, w in zip(st.frames[len(st.frames) - len(workers):], workers):
            if f.origin is not w:
                problems.append("a ready-made Frame lost the origin its hook gave it")
    if kind == "agen":
        try:
            step.close()
        except Exception:
            pass
    return {"with_origin": sum(f.origin is not None for f in st.frames), "problems": problems[:3]}


_LATE = {"n": 0}


def run_late_glue(case) -> dict:
    """A library that brings its own stackscope glue is imported, and the FIRST extraction afterwards is extract_outermost(x)
    (or extract(x), for comparison): both must already see what the glue registers."""
    import sys
    import types as _types

    import stackscope

    _LATE["n"] += 1
    name = f"verif_c16_late_{_LATE['n']}"

    class Item:
        def __init__(s, g):
            s.g = g

    def g():
        yield

    g = _types.FunctionType(g.__code__.replace(co_name="g"), g.__globals__, "g")     # a code object of this case's own
    gen = g()
    next(gen)
    x = Item(gen)
    mod = _types.ModuleType(name)

    def install():
        @stackscope.unwrap_stackitem.register(Item)
        def _unwrap(it):
            return it.g
        if case.get("hide"):
            stackscope.customize(g, hide=True)

    mod._stackscope_install_glue_ = install
    sys.modules[name] = mod
    problems = []
    try:
        if case["first"] == "outermost":
            try:
                o = stackscope.extract_outermost(x)
                first = (o.pyframe is gen.gi_frame, o.hide)
            except Exception as e:  # noqa: BLE001
                first = f"raised {type(e).__name__}: {str(e)[:80]}"
            st = stackscope.extract(x)
        else:
            st = stackscope.extract(x)
            try:
                o = stackscope.extract_outermost(x)
                first = (o.pyframe is gen.gi_frame, o.hide)
            except Exception as e:  # noqa: BLE001
                first = f"raised {type(e).__name__}: {str(e)[:80]}"
        want = (True, bool(case.get("hide")))
        got_st = (bool(st.frames) and st.frames[0].pyframe is gen.gi_frame, st.frames[0].hide if st.frames else None)
        if first != want or got_st != want:
            problems.append(f"a module with its own glue imported just before: extract_outermost(x) ({'first' if case['first'] == 'outermost' else 'second'} "
                            f"extraction) gave {first}, extract(x).frames[0] gave {got_st}; both are (is x's frame, hide) = {want}")
    finally:
        # (the module stays in sys.modules: taking it out again and adding the next one would leave len(sys.modules) where the
        # cache has it -- known finding F4, not what this case is about)
        gen.close()
    return {"with_origin": 1, "problems": problems}


def run_overlap(case) -> dict:
    """extract_outermost(x) = extract(x).frames[0] also while ANOTHER thread is in the middle of an extraction with the opposite
    options, the two overlapping non-LIFO (the other one starts after this one and ends after it): forced with events."""
    import threading

    import stackscope

    wc = case["with_contexts"]

    class M:
        def __enter__(self):
            return self

        def __exit__(self, *a):
            return False

    def gen():
        with M():
            yield

    g = gen()
    next(g)
    started: List[Any] = []
    inside, go_on = threading.Event(), threading.Event()

    class Blocker:
        pass

    class Item:
        pass

    @stackscope.unwrap_stackitem.register(Blocker)
    def _ub(b):
        inside.set()
        go_on.wait(20)
        return None

    @stackscope.unwrap_stackitem.register(Item)
    def _ui(i):
        # this extraction is under way: now the other thread begins one of its own, with the opposite options
        if not started:
            t = threading.Thread(target=lambda: stackscope.extract(Blocker(), with_contexts=not wc, recurse_child_tasks=True), daemon=True)
            started.append(t)
            t.start()
            inside.wait(10)
        return g

    problems = []
    try:
        if case["first"] == "outermost":
            f = stackscope.extract_outermost(Item(), with_contexts=wc)
        else:
            st0 = stackscope.extract(Item(), with_contexts=wc)
            f = st0.frames[0]
    finally:
        go_on.set()
        for t in started:
            t.join(10)
    ref = stackscope.extract(Item(), with_contexts=wc).frames[0]
    if (len(f.contexts), f.pyframe) != (len(ref.contexts), ref.pyframe) or len(f.contexts) != (1 if wc else 0):
        problems.append(f"{case['first']}(x, with_contexts={wc}) overlapping with another thread's extraction (with_contexts={not wc}): the "
                        f"frame has {len(f.contexts)} contexts; alone it has {len(ref.contexts)}")
    return {"problems": problems, "with_origin": 1}


class C16(PropCheck):
    pid = "C16"
    real_time_limit = 8.0
    rule = ("A: hook environments with real suspended generators: extract and extract_outermost on the root and on every "
            "generator item vs the Lean model; B: suspended chains of every link kind (depth 0-6), running generator / "
            "coroutine / async generator probed from callees at depth 0-3, thread, greenlet, hidden outermost frames; "
            "non-trivial = some frame has a non-None origin or extract_outermost raises; distinct = distinct case")
    manifest = {
        "text": "Lean: C16_origin_reset (a frame keeps the origin it was reached with exactly when it is that origin's own frame), C16_origin_reset_by_code_witness / C16_origin_reset_by_code_agrees (comparing code objects instead differs exactly on recursive activations; tied by the running recursive generator / coroutine scenarios), C16_better_origin_source (the type list and the condition of better_origin, re-read from the source on every run), C16_better_origin (a generator-like object being looked into always becomes the origin; anything else replaces only a fallback that is not generator-like; an object that cannot be weakly referenced never does) and C16_better_origin_slips (two slips seeded changes made there); the real better_origin is diffed with the model on every pair of kinds. C16_origin_is_owner (every emitted frame's origin, if any, is a generator-like object whose own frame is that frame — an invariant of the whole run), C16_outermost_head (extract_outermost's model returns exactly the head of extract's frames, with identical flags, and raises exactly when there are none: the recorded error alone, the group, or the no-frame RuntimeError), C16_origin_roundtrip (for a well-formed generator-like origin o whose unwrap starts with its own frame, extract_outermost(o) returns that frame). Tie: model vs real extract / extract_outermost on generated environments; oracle on real chains and running targets.",
        "note": "Frames obtained through a running generator's StackSlice are real interpreter state: leg B is judged by the oracle on the implementation, the model covers suspended (static) environments. weakref-ability and identity are modelled as env tables.",
    }
    assumptions = ["generator-like objects unwrap to (own frame, delegate) as the built-in glue does for suspended ones"]

    def cases(self, rng, tier):
        out = []
        n = 300 if tier == "quick" else 4000
        tries = 0
        while len(out) < 2 * n and tries < 6 * n:
            tries += 1
            c = C10.rand_env(rng, rng.randint(0, 4), rng.randint(1, 4), rng.randint(1, 3), cyc=rng.choice([0, 0, 0.2]))
            try:
                C10.reference(c, budget=4000)
            except C10.SpecDiverges:
                continue
            # sprinkle raising unwraps so that extract_outermost's raise paths are exercised
            for d in c["items"]:
                if d["kind"].startswith("thing") and rng.random() < 0.15:
                    d["uw"] = ["raise", rng.randrange(300, 340)]
            try:
                C10.reference(c, budget=4000)
            except C10.SpecDiverges:
                continue
            out.append(dict(c, mode="extract"))
            roots = [c["x"]] + [d["id"] for d in c["items"] if d["kind"] == "gen"]
            c2 = dict(c, mode="outermost", x=rng.choice(roots))
            try:
                C10.reference(c2, budget=4000)
            except C10.SpecDiverges:
                continue
            out.append(c2)
        out += running_scenarios((0, 1, 3) if tier == "quick" else (0, 1, 2, 3, 5, 8))
        for nk in (1, 2, 4):
            for wrapped in (False, True):
                out.append({"k": "taskset", "nkids": nk, "wrapped": wrapped})
        for aw in ("coro", "gen", "agen", "item"):
            for nw in (1, 2):
                for preset in (False, True):
                    out.append({"k": "readymade", "awaiter": aw, "workers": nw, "preset": preset})
        for first in ("outermost", "extract"):
            for hide in (False, True):
                out.append({"k": "late_glue", "first": first, "hide": hide})
        out.append({"k": "better_origin", "pairs": [[c, f] for c in ORIGIN_KINDS if c != "none" for f in ORIGIN_KINDS]})
        for wc in (True, False):
            for first in ("outermost", "extract"):
                out.append({"k": "overlap", "with_contexts": wc, "first": first})
        try:
            from .. import chains

            m = 150 if tier == "quick" else 2500
            for _ in range(m):
                # (not through a weakref.proxy of a generator: the proxy cannot be weakly referenced itself and gives no access to
                # its referent, so a frame reached through it has no origin -- noted in DESIGN.md, not in this space)
                out.append({"k": "chain", "links": [l for l in chains.rand_links(rng, rng.randint(0, 6)) if l != "await_proxy_gen"], "end": rng.choice(chains.ENDS),
                            "root": rng.choice(chains.ROOTS)})
            # chains longer than any loop guard, with and without a root hook that re-queues what follows it
            for n in (105, 130):
                for hook in (None, "next", "insert"):
                    for kind in ("await_coro", "agen_asend"):
                        out.append({"k": "chain", "links": [kind] * n, "end": "trap", "root": "coro", "long": True, **({"hook": hook} if hook else {})})
        except ImportError:
            pass
        return out

    def model_line(self, case):
        if case["k"] == "better_origin":
            return json.dumps({"p": "C16", "mode": "better_origin", "pairs": case["pairs"]})
        if case["k"] != "env":
            return None
        d = dict(case)
        d["p"] = "C16"
        return json.dumps(d)

    def run_real(self, case):
        import stackscope

        if case["k"] == "env":
            w = World(case)
            x = w.obj(case["x"])
            if case["mode"] == "extract":
                st = stackscope.extract(x, with_contexts=False)
                owners = {}
                for d in case["items"]:
                    if d["kind"] == "gen":
                        owners[id(w.objs[d["frame"]])] = w.objs[d["id"]]
                self._last = (origin_oracle(st) or suspended_origin_oracle_env(st, owners, w)
                              or exclusive_origin_oracle_env(st, case, w))
                return w.show_stack(st)
            self._last = outermost_oracle(x, with_contexts=False)
            try:
                f = stackscope.extract_outermost(x, with_contexts=False)
                return f"frame={w.ids.get(id(f.pyframe), '?')}:{w.show_origin(f.origin)}:{'T' if f.hide else 'F'}"
            except BaseExceptionGroup as g:
                return "raise group[" + ",".join(w.show_err(e) for e in g.exceptions) + "]"
            except Injected as e:
                return "raise " + w.show_err(e)
            except RuntimeError as e:
                if "Couldn't extract a frame" in str(e):
                    return "raise noframe"
                return "raise " + w.show_err(e)
        if case["k"] == "running":
            return run_running(case)
        if case["k"] == "taskset":
            return run_taskset(case)
        if case["k"] == "chain":
            from .. import chains

            return chains.run_origin_case(case)
        if case["k"] == "overlap":
            return run_overlap(case)
        if case["k"] == "better_origin":
            return run_better_origin(case)
        if case["k"] == "readymade":
            return run_readymade(case)
        if case["k"] == "late_glue":
            return run_late_glue(case)
        raise ValueError(case["k"])

    def canon(self, case, real):
        if isinstance(real, str):
            return real
        return json.dumps(real, sort_keys=True)

    def oracle(self, case, real):
        if case["k"] == "env":
            return self._last
        if isinstance(real, dict) and real.get("problems"):
            return "; ".join(real["problems"])[:600]
        return None

    def nontrivial_key(self, case, real):
        s = json.dumps(case, sort_keys=True)
        if case["k"] == "env":
            if isinstance(real, str) and (("raise" in real) or any(p.split(":")[1] != "-" for p in _frames(real))):
                return s
            return None
        if isinstance(real, dict) and real.get("with_origin", 0) > 0:
            return s
        if case["k"] == "better_origin":
            return s
        return None

    def stats(self, cases, reals):
        d = {"env_extract": 0, "env_outermost": 0, "outermost_raises": 0, "running": 0, "chains": 0, "frames_with_origin": 0}
        for c, r in zip(cases, reals):
            if c["k"] == "env":
                d["env_" + c["mode"]] += 1
                if isinstance(r, str):
                    d["outermost_raises"] += r.startswith("raise")
                    d["frames_with_origin"] += sum(1 for p in _frames(r) if p.split(":")[1] != "-")
            elif c["k"] == "running":
                d["running"] += 1
            else:
                d["chains"] += 1
            if isinstance(r, dict):
                d["frames_with_origin"] += r.get("with_origin", 0)
        return d


def _frames(real: str):
    if real.startswith("frames=["):
        body = real[8:real.index("] leaf=")]
        return body.split() if body.strip() else []
    if real.startswith("frame="):
        return [real[6:]]
    return []


def suspended_origin_oracle_env(st, owners, w):
    # In an environment, a generator's frame may also be reached *not* through its generator (another hook
    # returned the raw frame): then no origin is due. The origin is due when the generator object itself was unwrapped,
    # which the model decides; here we only demand the weaker, always-valid direction.
    for f in st.frames:
        if f.origin is not None and owners.get(id(f.pyframe)) is not f.origin:
            return f"frame {w.ids.get(id(f.pyframe))} has origin {w.show_origin(f.origin)} which does not own it"
    return None


def _ints(x, out):
    if isinstance(x, bool):
        return
    if isinstance(x, int):
        out.add(x)
    elif isinstance(x, (list, tuple)):
        for y in x:
            _ints(y, out)
    elif isinstance(x, dict):
        for y in x.values():
            _ints(y, out)


def exclusive_origin_oracle_env(st, case, w):
    """The strong direction, where the case itself settles it: a generator's frame that no hook result, no unwrap result and
    no root names directly can only have been reached by looking inside the generator object, so its origin is that object."""
    named = {case["x"]}
    for d in case["items"]:
        _ints(d.get("uw"), named)
        _ints(d.get("el"), named)
        if d["kind"] == "gen":
            _ints(d.get("yf"), named)
    for d in case["items"]:
        if d["kind"] == "gen" and d["frame"] not in named:
            fr, own = w.objs[d["frame"]], w.objs[d["id"]]
            for f in st.frames:
                if f.pyframe is fr and f.origin is not own:
                    return (f"frame {d['frame']} can only have been found inside suspended generator {d['id']} "
                            f"(nothing else names it) but its origin is {w.show_origin(f.origin)}")
    return None


# the model line needs the 'outermost' canonical form without the leaf
def _strip(s: str) -> str:
    return s


CHECK = C16()
