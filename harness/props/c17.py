"""C17 — library glue is installed exactly once, in time, module-provided beats built-in.

Sequential leg: random histories of sys.modules insertions / removals / re-insertions interleaved with
extractions, over fake modules with module glue / built-in glue / both / neither / raising glue; the
real call log (which glue ran, warnings, returns) is diffed with the Lean model `SS.Glue.runOps`.
Concurrent leg: 2-4 real threads enter extract while a glue function of another thread's scan is
blocked at each possible point (the glue calls are the preemption points of the installation routine);
oracle only.
"""
from __future__ import annotations

import json
import random
import sys
import threading
import types
import warnings
from typing import Any, Dict, List, Optional

from ..core import PropCheck

PREFIX = "_ssverif_mod_"


class Lab:
    """Controls the real glue machinery through fake modules."""

    def __init__(self):
        import stackscope
        from stackscope import _glue

        self.ss = stackscope
        self.gl = _glue
        self.cache = _glue.add_glue_as_needed.__kwdefaults__["_sys_modules_len_cache"]
        # make sure everything the harness itself imports lazily is already imported
        with warnings.catch_warnings(record=True):
            warnings.simplefilter("always")
            stackscope.extract(object())
        self.log: List[str] = []
        self.block: Dict[str, threading.Event] = {}
        self.entered: Dict[str, threading.Event] = {}
        self.on_glue: Dict[str, Any] = {}          # tag -> callable run once from inside that glue function
        self.objs: Dict[int, types.ModuleType] = {}
        self.lock = threading.Lock()

    def name(self, m: int) -> str:
        return f"{PREFIX}{m}"

    def reset(self, mods: List[list]):
        for k in [k for k in sys.modules if k.startswith(PREFIX)]:
            del sys.modules[k]
        for k in [k for k in self.gl.builtin_glue_pending if k.startswith(PREFIX)]:
            del self.gl.builtin_glue_pending[k]
        self.log = []
        self.block = {}
        self.entered = {}
        self.on_glue = {}
        self.objs = {}
        class Facade:
            """What some libraries put into sys.modules in place of a module: an ordinary object (sys.modules[__name__] = Impl())."""

        class Slotted:
            __slots__ = ()

        for m, has_mod, has_builtin, mod_raises, builtin_raises in mods:
            obj = types.ModuleType(self.name(m)) if m % 3 != 2 else Facade()
            if not has_mod and m % 4 == 3:
                # entries without any namespace: a blocked import (None) or an object with __slots__
                obj = None if m % 8 == 3 else Slotted()
            if has_mod:
                obj._stackscope_install_glue_ = self.mk("mod", m, mod_raises)
            if has_builtin:
                self.gl.builtin_glue_pending[self.name(m)] = self.mk("builtin", m, builtin_raises)
            self.objs[m] = obj
        # a clean scan so that the cache equals the current size (the model starts with cache == |present| == 0)
        self.cache[0] = 0
        with warnings.catch_warnings(record=True):
            warnings.simplefilter("always")
            self.gl.add_glue_as_needed()
        self.log = []

    def mk(self, kind: str, m: int, raises: bool):
        tag = f"{kind}{m}"

        def glue():
            with self.lock:
                self.log.append(tag)
            if tag in self.on_glue:
                self.on_glue.pop(tag)()
            if tag in self.entered:
                self.entered[tag].set()
            if tag in self.block:
                self.block[tag].wait(10)
            if raises:
                raise RuntimeError(f"glue {tag} fails")

        return glue

    def insert(self, m: int):
        sys.modules[self.name(m)] = self.objs[m]

    def remove(self, m: int):
        sys.modules.pop(self.name(m), None)

    def extract(self, gone=()):
        """gone: modules that vanish from sys.modules right after the scan has taken its snapshot (forced with a line
        hook on the scan loop's header: the same effect as an earlier module's glue, or another thread, removing them)."""
        import linecache

        code = self.gl.add_glue_as_needed.__code__
        armed = {"on": bool(gone), "fired": False}

        def local(frame, event, arg):
            if event == "line" and armed["on"]:
                if "for module_name in module_names" in linecache.getline(code.co_filename, frame.f_lineno):
                    armed["on"] = False
                    armed["fired"] = True
                    for m in gone:
                        sys.modules.pop(self.name(m), None)
            return local

        def tracer(frame, event, arg):
            return local if frame.f_code is code else None

        def hook(message, category, filename, lineno, file=None, line=None):
            msg = str(message)
            if issubclass(category, RuntimeWarning) and "Failed to initialize" in msg and PREFIX in msg:
                m = msg.split(PREFIX)[1].split(":")[0]
                with self.lock:
                    self.log.append(f"warn{m}")

        with warnings.catch_warnings():
            warnings.simplefilter("always")
            warnings.showwarning = hook
            if gone:
                sys.settrace(tracer)
            try:
                st = self.ss.extract(object())
            finally:
                if gone:
                    sys.settrace(None)
        if gone and not armed["fired"]:
            # the scan did not happen (fast path): the modules vanish anyway, as in the model
            for m in gone:
                sys.modules.pop(self.name(m), None)
        with self.lock:
            self.log.append("ret")
        return st


def rand_history(rng: random.Random, nmods: int, nops: int, vanish: bool = False) -> dict:
    mods = []
    for m in range(nmods):
        k = rng.choice(["mod", "builtin", "both", "neither", "mod", "builtin"])
        mods.append([m, k in ("mod", "both"), k in ("builtin", "both"), rng.random() < 0.25, rng.random() < 0.25])
    ops: List[list] = []
    present: List[int] = []
    for _ in range(nops):
        r = rng.random()
        if r < 0.45:
            m = rng.randrange(nmods)
            ops.append(["insert", m])
            if m not in present:
                present.append(m)
        elif r < 0.65 and present:
            m = rng.choice(present)
            ops.append(["remove", m])
            present.remove(m)
        elif r < 0.72 and present and vanish:
            gone = sorted(set(rng.choice(present) for _ in range(rng.randint(1, 2))))
            ops.append(["extractR", gone])
            for m in gone:
                present.remove(m)
        else:
            ops.append(["extract"])
    ops.append(["extract"])
    return {"k": "seq", "mods": mods, "ops": ops}


def len_visible(case) -> bool:
    """LenVisible: between two scans the module set never changes while its size stays the cached one.
    Conservative: no removal at all (the hypothesis of C17_in_time_partial)."""
    return not any(op[0] in ("remove", "extractR") for op in case["ops"])


class C17(PropCheck):
    pid = "C17"
    real_time_limit = 30.0
    rule = ("random histories (<=8 modules, <=30 ops) of insert / remove / re-insert / extract over modules with module glue, "
            "built-in glue, both, neither, raising glue; concurrent: 2-4 threads, a second extraction started while the "
            "first is blocked inside the glue call of each module in turn; non-trivial = some glue ran; distinct = history")
    manifest = {
        "text": "Lean: C17_conc_once, C17_conc_module_first, C17_conc_mutex (exactly once / never both kinds / module glue first / mutual exclusion of scans for any number of threads under every schedule, by an invariant over atomic steps), C17_once_vanishing / C17_module_first_vanishing (exactly once, never both kinds, module glue first — for every history in which, additionally, any set of modules may vanish from sys.modules while a scan is in progress: the repaired F16), C17_vanishing_conservative (with nothing vanishing the extended scan is the plain one), C17_F16_old_code_witness / C17_F16_repaired; C17_once (over every history of insertions, removals, re-insertions and extractions no module ever has a glue function called twice, nor one of each kind), C17_module_first (built-in glue only runs for modules without their own), C17_raise_only_warns (whether glue raises changes nothing but the inserted warnings: same calls, same order, same bookkeeping), C17_in_time_partial (for histories without removals, when an extraction returns every present module's glue has been dealt with), C17_F4_witness / C17_F4_recovers (the full in-time statement is false: remove one module, add a glue-bearing one — known finding F4), C17_appearing_in_time / C17_appearing_present / C17_appearing_keeps_invariants (modules imported DURING a scan, after its snapshot — a glue function importing its plugin — are dealt with when the next extraction returns: the cache holds the size of the visited snapshot) with C17_live_length_witness (refreshing the cache from the live length breaks it), C17_initializing_once / C17_initializing_untouched (a module that is still being imported is left alone by the scan, all invariants kept) with C17_F44_witness (the scan before the repair of F44 ran the built-in glue for it). Tie: real call logs of generated histories vs the model; threads entering extract while another scan is blocked inside each glue call are judged by the oracle.",
        "note": "Concurrency: C17_conc_once / C17_conc_once_log / C17_conc_module_first / C17_conc_mutex hold for any number of threads and every interleaving of their atomic steps with insertions and removals (SSModel/GlueConc.lean); the granularity (both pops for a name in one step) relies on only the lock holder scanning, and on dict.pop being atomic under the GIL. 'In time' under concurrency (a later extraction waits for the scan in progress) is checked on the real code with glue calls as preemption points and compared with the model's log under the same schedule, but not proved (it needs the lock's blocking semantics and fairness). In-time for histories with removals is false (F4).",
    }
    assumptions = ["dict.pop and len() are atomic under the GIL", "fake modules stand for real library modules"]

    def setup(self):
        self.lab = Lab()

    def cases(self, rng, tier):
        out = []
        n = 250 if tier == "quick" else 3000
        for _ in range(n):
            out.append(rand_history(rng, rng.randint(1, 8), rng.randint(2, 30)))
        for _ in range(n // 2):
            out.append(rand_history(rng, rng.randint(2, 8), rng.randint(4, 30), vanish=True))
        # a module that appears during an outer extraction, then a nested extract_child from a hook
        for i in range(6 if tier == "quick" else 40):
            k = rng.choice(["mod", "builtin", "both"])
            out.append({"k": "nested", "mods": [[0, rng.random() < 0.5, True, False, False], [1, k in ("mod", "both"), k in ("builtin", "both"), False, False]],
                        "via": rng.choice(["unwrap", "elaborate"])})
        # a glue function that itself imports something glue-bearing (a plugin, a submodule): the new module appears in
        # sys.modules while the scan is running, after its snapshot was taken; the next extraction must deal with it
        for i in range(8 if tier == "quick" else 40):
            k0 = rng.choice(["mod", "builtin"])
            k1 = rng.choice(["mod", "builtin", "both"])
            extra = rng.randint(0, 2)
            mods = [[0, k0 == "mod", k0 == "builtin", False, False], [1, k1 in ("mod", "both"), k1 in ("builtin", "both"), False, False]]
            mods += [[2 + j, False, rng.random() < 0.5, False, False] for j in range(extra)]
            out.append({"k": "glue_imports", "mods": mods, "extra": extra})
        # a module that is still being imported when an extraction happens (F44)
        for k1 in ("mod", "builtin", "both"):
            for k2 in ("mod", "builtin"):
                out.append({"k": "initializing", "mods": [[1, k1 in ("mod", "both"), k1 in ("builtin", "both"), False, False],
                                                          [2, k2 == "mod", k2 == "builtin", False, False]]})
                # ... and the same when nothing else is imported afterwards: the number of modules is what it was during the import
                out.append({"k": "initializing", "alone": True,
                            "mods": [[1, k1 in ("mod", "both"), k1 in ("builtin", "both"), False, False],
                                     [2, k2 == "mod", k2 == "builtin", False, False]]})
        # the recorded module count must be that of the scan that ran last (two overlapping extractions)
        for kind in ("mod", "builtin"):
            out.append({"k": "stale_cache", "mods": [[0, False, False, False, False], [1, False, False, False, False],
                                                     [2, kind == "mod", kind == "builtin", False, False]]})
        # built-in glue registered for a module that is already loaded (what happens at `import stackscope`)
        for own in (True, False):
            for raises in (False, True):
                out.append({"k": "late_register", "own_glue": own, "raises": raises, "mods": []})
            # ... in a documentation build (sphinx loaded): nothing is run at registration, everything at the first extraction
            out.append({"k": "late_register", "own_glue": own, "raises": False, "mods": [], "sphinx": True})
        # the F16 shape: a module with both kinds of glue vanishes during the scan and comes back
        out.append({"k": "seq", "mods": [[0, False, False, False, False], [1, True, True, False, False], [2, False, False, False, False]],
                    "ops": [["insert", 0], ["insert", 1], ["extractR", [1]], ["insert", 1], ["insert", 2], ["extract"]]})
        # concurrency: for each module position, block its glue and start other extractions
        m = 25 if tier == "quick" else 200
        for _ in range(m):
            nm = rng.randint(1, 5)
            mods = []
            for i in range(nm):
                k = rng.choice(["mod", "builtin", "both"])
                mods.append([i, k in ("mod", "both"), k in ("builtin", "both"), rng.random() < 0.2, rng.random() < 0.2])
            out.append({"k": "conc", "mods": mods, "block_at": rng.randrange(nm), "threads": rng.randint(2, 4),
                        "late_insert": rng.random() < 0.5})
        return out

    def model_line(self, case):
        if case["k"] == "conc":
            # the same schedule on the model's threads: thread 0 scans up to the glue call of `block_at`, the others enter
            # and wait for the lock, thread 0 finishes, the others finish
            n = case["threads"]
            sched = [["insert", m[0]] for m in case["mods"]] + [["until_popped", 0, case["block_at"]]]
            sched += [["until_stuck", i] for i in range(1, n)] + [["until_stuck", 0]] + [["until_stuck", i] for i in range(1, n)]
            return json.dumps({"p": "C17", "mods": case["mods"], "threads": n, "sched": sched})
        if case["k"] == "initializing":
            ops = [["insert", 1], ["extractI", [1]]] + ([] if case.get("alone") else [["insert", 2]]) + [["extract"], ["extract"]]
            return json.dumps({"p": "C17", "mods": case["mods"], "ops": ops})
        if case["k"] == "glue_imports":
            ops = [["insert", 2 + j] for j in range(case["extra"])] + [["insert", 0], ["extractA", [1]], ["extract"], ["extract"]]
            return json.dumps({"p": "C17", "mods": case["mods"], "ops": ops})
        if case["k"] != "seq":
            return None
        return json.dumps({"p": "C17", "mods": case["mods"], "ops": case["ops"]})

    def run_real(self, case):
        lab = self.lab
        lab.reset(case["mods"])
        if case["k"] == "seq":
            for op in case["ops"]:
                if op[0] == "insert":
                    lab.insert(op[1])
                elif op[0] == "remove":
                    lab.remove(op[1])
                elif op[0] == "extractR":
                    lab.extract(gone=op[1])
                else:
                    lab.extract()
            return " ".join(lab.log)
        if case["k"] == "nested":
            return self.run_nested(case)
        if case["k"] == "initializing":
            # module 1 is in sys.modules but its body is still running (as the import system marks it): it has not defined its own
            # glue yet; an extraction happens; the import finishes; another module arrives; extractions go on
            m1 = lab.objs[1]
            own = m1.__dict__.pop("_stackscope_install_glue_", None)
            m1.__spec__ = types.SimpleNamespace(_initializing=True)
            lab.insert(1)
            lab.extract()
            if own is not None:
                m1._stackscope_install_glue_ = own
            m1.__spec__._initializing = False
            if not case.get("alone"):
                lab.insert(2)
            lab.extract()
            lab.extract()
            return " ".join(lab.log)
        if case["k"] == "glue_imports":
            for j in range(case["extra"]):
                lab.insert(2 + j)
            lab.insert(0)
            tag0 = f"{'mod' if case['mods'][0][1] else 'builtin'}0"
            lab.on_glue[tag0] = lambda: lab.insert(1)
            lab.extract()
            first = list(lab.log)
            lab.extract()
            second = list(lab.log)
            lab.extract()
            return {"log": list(lab.log), "glue_imports": True, "after_first": first, "after_second": second, "error": None}
        if case["k"] == "late_register":
            return self.run_late_register(case)
        if case["k"] == "stale_cache":
            return self.run_stale_cache(case)
        # ---- concurrent ----
        mods = case["mods"]
        for m, *_ in mods:
            lab.insert(m)
        b = case["block_at"]
        has_mod = mods[b][1]
        tag = f"{'mod' if has_mod else 'builtin'}{b}"
        lab.block[tag] = threading.Event()
        lab.entered[tag] = threading.Event()
        results: Dict[str, Any] = {"returned_early": [], "threads": case["threads"]}
        done = [threading.Event() for _ in range(case["threads"])]

        def worker(i):
            lab.extract()
            done[i].set()

        t0 = threading.Thread(target=worker, args=(0,), daemon=True)
        t0.start()
        if not lab.entered[tag].wait(5):
            lab.block[tag].set()
            t0.join(5)
            return {"error": "first scan never reached the blocked glue", "log": list(lab.log)}
        others = [threading.Thread(target=worker, args=(i,), daemon=True) for i in range(1, case["threads"])]
        for t in others:
            t.start()
        # the other extractions started after every module appeared: none may return before the blocked
        # glue (and all later ones) completed
        for i in range(1, case["threads"]):
            if done[i].wait(0.15):
                results["returned_early"].append(i)
        snapshot = list(lab.log)
        lab.block[tag].set()
        t0.join(10)
        for t in others:
            t.join(10)
        results["log"] = list(lab.log)
        results["log_at_block"] = snapshot
        results["all_done"] = all(d.is_set() for d in done)
        return results

    def run_late_register(self, case):
        """The module is loaded first, then its built-in glue is registered, then an extraction happens."""
        lab = self.lab
        name = lab.name(77)
        rec: List[str] = []
        mod = types.ModuleType(name)
        if case["own_glue"]:
            mod._stackscope_install_glue_ = lambda: rec.append("mod")
        sys.modules[name] = mod
        fake_sphinx = case.get("sphinx") and "sphinx" not in sys.modules
        if fake_sphinx:
            sys.modules["sphinx"] = types.ModuleType("sphinx")
        try:
            lab.gl.builtin_glue_pending.pop(name, None)

            def bfn():
                rec.append("builtin")

            lab.gl.builtin_glue(name)(bfn)
            at_registration = list(rec)
            lab.extract()
            lab.extract()
        finally:
            sys.modules.pop(name, None)
            if fake_sphinx:
                sys.modules.pop("sphinx", None)
            lab.gl.builtin_glue_pending.pop(name, None)
        return {"log": rec, "late_register": True, "at_registration": at_registration, "error": None}

    def run_nested(self, case):
        """Module 1 appears in sys.modules during an outer extraction (a hook imports it lazily); the same hook then makes a
        nested extract_child(): when that returns, module 1's glue must have run."""
        import stackscope

        lab = self.lab
        lab.insert(0)
        seen: Dict[str, Any] = {}

        class Item:
            pass

        def body():
            lab.insert(1)
            st = stackscope.extract_child(object(), for_task=False)
            seen["log_at_nested_return"] = list(lab.log)

        if case["via"] == "unwrap":
            @stackscope.unwrap_stackitem.register(Item)
            def _unwrap(item):
                body()
                return None
            target: Any = Item()
        else:
            def fn():
                yield 1

            @stackscope.elaborate_frame.register(fn)
            def _elab(frame, next_inner):
                body()
                return None
            target = fn()
            next(target)
        with warnings.catch_warnings():
            warnings.simplefilter("ignore")
            st = stackscope.extract(target)
        lab.log.append("ret")
        return {"log": list(lab.log), "nested": seen.get("log_at_nested_return"), "error": None if st.error is None else repr(st.error), "nested_case": True}

    def canon(self, case, real):
        if isinstance(real, dict) and "log" in real and not real.get("error"):
            return " ".join(real["log"])
        return real if isinstance(real, str) else json.dumps(real, sort_keys=True)

    # ---- the property on the real log ---------------------------------------------------------
    def run_stale_cache(self, case):
        """Thread 1's scan is about to record the module count; at that moment a module disappears and thread 2 extracts (it has to
        wait if thread 1 still holds the lock); thread 1 goes on; then a module with glue arrives and an extraction follows: its glue
        must have run when that extraction returns.  (The count recorded last must be the one of the scan that ran last.)"""
        import linecache

        lab = self.lab
        has_mod = case["mods"][2][1]
        lab.insert(0)
        lab.insert(1)
        code = lab.gl.add_glue_as_needed.__code__
        state = {"armed": True, "t2_done": False}

        def thread2():
            lab.remove(1)
            lab.extract()
            state["t2_done"] = True

        def local(frame, event, arg):
            if event == "line" and state["armed"]:
                if "_sys_modules_len_cache[0] =" in linecache.getline(code.co_filename, frame.f_lineno):
                    state["armed"] = False
                    t2 = threading.Thread(target=thread2, daemon=True)
                    state["t2"] = t2
                    t2.start()
                    t2.join(0.7)          # (if this thread still holds the lock, thread 2 cannot finish: go on, it will follow)
            return local

        def tracer(frame, event, arg):
            return local if frame.f_code is code else None

        with warnings.catch_warnings():
            warnings.simplefilter("ignore")
            sys.settrace(tracer)
            try:
                lab.extract()
            finally:
                sys.settrace(None)
        if "t2" in state:
            state["t2"].join(5)
        lab.log.clear()
        lab.insert(2)
        lab.extract()
        after = list(lab.log)
        lab.extract()
        return {"log": after, "stale_cache": True, "reached": not state["armed"], "t2_done": state["t2_done"],
                "want": f"{'mod' if has_mod else 'builtin'}2", "error": None}

    def oracle(self, case, real):
        if isinstance(real, dict) and real.get("stale_cache"):
            if not real["reached"] or not real["t2_done"]:
                return "harness: the forced schedule was not reached"
            if real["want"] not in real["log"]:
                return (f"two overlapping extractions, a module removed between them, then module 2 arrives: the next extraction returned "
                        f"without its glue having run (log {real['log']}): the recorded module count is that of the scan that finished "
                        f"first, not of the one that ran last")
            return None
        mods = {m[0]: m for m in case["mods"]}
        log = real.split() if isinstance(real, str) else real.get("log", [])
        if isinstance(real, dict) and real.get("late_register"):
            want = ["mod"] if case["own_glue"] else ["builtin"]
            if real["log"] != want:
                return (f"module loaded before its built-in glue was registered (own glue: {case['own_glue']}): glue calls {real['log']} "
                        f"(at registration: {real['at_registration']}), expected {want}")
            return None
        if isinstance(real, dict) and real.get("glue_imports"):
            _, has_mod, has_builtin, _, _ = case["mods"][1]
            want = f"{'mod' if has_mod else 'builtin'}1"
            if want not in real["after_second"]:
                return (f"module 1 was imported by module 0's glue function during a scan; the next extraction (the first to start "
                        f"after it appeared) returned without its glue ({want}) having run: log {real['after_second']}")
            if len([e for e in real["log"] if e.endswith("1") and e.startswith(("mod", "builtin"))]) != 1:
                return f"glue of module 1: {real['log']} (expected exactly one call of {want})"
            return None
        if isinstance(real, dict) and real.get("nested_case"):
            if real.get("error"):
                return f"outer extraction reported {real['error']}"
            at = real.get("nested")
            if at is None:
                return "the hook making the nested extraction never ran"
            _, has_mod, has_builtin, _, _ = case["mods"][1]
            want = f"{'mod' if has_mod else 'builtin'}1"
            if want not in at:
                return (f"a nested extract_child() that started after module 1 appeared returned before its glue ({want}) had run "
                        f"(log at that moment {at}, final log {real['log']})")
            log = real["log"]
            if len([e for e in log if e.endswith("1") and e.startswith(("mod", "builtin"))]) != 1:
                return f"glue of module 1 ran {log} (expected exactly one call)"
            return None
        if isinstance(real, dict) and real.get("error"):
            return real["error"]
        ran = [e for e in log if e.startswith(("mod", "builtin"))]
        seen: Dict[str, str] = {}
        for e in ran:
            m = e.lstrip("modbuiltin")
            if m in seen:
                return f"glue for module {m} ran more than once / both kinds: {seen[m]} then {e} (log {log})"
            seen[m] = e
            if e.startswith("builtin") and mods[int(m)][1]:
                return f"built-in glue ran for module {m} although the module provides its own (log {log})"
        for i, e in enumerate(log):
            if e.startswith("warn"):
                m = int(e[4:])
                kind = "mod" if mods[m][1] else "builtin"
                if i == 0 or log[i - 1] != f"{kind}{m}" or not mods[m][3 if kind == "mod" else 4]:
                    return f"unexpected warning {e} (log {log})"
        for m, has_mod, has_builtin, mr, br in case["mods"]:
            kind = "mod" if has_mod else "builtin"
            if f"{kind}{m}" in log and (mr if has_mod else br) and f"warn{m}" not in log:
                return f"raising glue of module {m} produced no warning (log {log})"
        if case["k"] == "seq":
            # in time: when an extraction returns, every module present has had its glue run — except in the one situation
            # known finding F4 describes: the number of modules equals what it was at the last complete scan although the set
            # changed (that extraction is not judged; every other one is)
            present: List[int] = []
            last_scan_len: Optional[int] = 0       # the harness starts from a complete scan of an empty module set
            pos = 0
            for op in case["ops"]:
                if op[0] == "insert":
                    if op[1] not in present:
                        present.append(op[1])
                elif op[0] == "remove":
                    if op[1] in present:
                        present.remove(op[1])
                elif op[0] in ("extract", "extractR"):
                    while pos < len(log) and log[pos] != "ret":
                        pos += 1
                    upto = log[:pos]
                    pos += 1
                    gone = op[1] if op[0] == "extractR" else []
                    scanned = last_scan_len is None or len(present) != last_scan_len
                    if scanned:
                        for m in present:
                            if m in gone:
                                continue
                            _, has_mod, has_builtin, _, _ = mods[m]
                            if (has_mod or has_builtin) and f"{'mod' if has_mod else 'builtin'}{m}" not in upto \
                                    and f"{'builtin' if has_mod else 'mod'}{m}" not in upto:
                                return (f"extraction returned before the glue of module {m} (present when it started, and the module count "
                                        f"differed from the last complete scan's) had run (log {log})")
                        last_scan_len = None if any(g in present for g in gone) else len(present)
                    for g in gone:
                        if g in present:
                            present.remove(g)
            return None
        if case["k"] == "initializing":
            # module 1's own glue, if it has one, is the only glue that may ever run for it; whatever it has runs exactly once, by the
            # time the extraction after the end of its import returns; nothing runs for it while it is being imported
            _, has_mod, has_builtin, _, _ = case["mods"][0]
            want = f"{'mod' if has_mod else 'builtin'}1"
            first_ret = log.index("ret") if "ret" in log else len(log)
            ran1 = [e for e in log if e in ("mod1", "builtin1")]
            if any(e in ("mod1", "builtin1") for e in log[:first_ret]) and has_mod:
                return f"glue ran for module 1 while it was still being imported (it had not defined its own glue yet): log {log}"
            if ran1 != [want]:
                return f"module 1 (imported while an extraction happened): glue calls {ran1}, expected [{want}] (log {log})"
            second_ret = [i for i, e in enumerate(log) if e == "ret"][1:2]
            if second_ret and want not in log[:second_ret[0]]:
                return f"the extraction after module 1's import had finished returned before its glue ({want}) had run: log {log}"
            return None
        # concurrent
        if real.get("returned_early"):
            return (f"extraction(s) {real['returned_early']} that started after all modules appeared returned while the "
                    f"glue of module {case['block_at']} was still running (log at that time {real.get('log_at_block')})")
        if not real.get("all_done"):
            return "an extraction never returned"
        for m, has_mod, has_builtin, _, _ in case["mods"]:
            if (has_mod or has_builtin) and f"{'mod' if has_mod else 'builtin'}{m}" not in log:
                return f"glue of module {m} never ran (log {log})"
        return None

    def f4_unlisted(self, case, log):
        return None

    def matches_known(self, k, case, real, failure):
        return False

    def known_witnesses(self):
        return [{"id": "F4", "case": {"k": "f4"}}]

    def nontrivial_key(self, case, real):
        s = real if isinstance(real, str) else " ".join(real.get("log", []))
        if "mod" in s or "builtin" in s:
            return json.dumps(case, sort_keys=True)
        return None

    def stats(self, cases, reals):
        d = {"sequential": 0, "concurrent": 0, "with_removal": 0, "warnings": 0, "glue_calls": 0,
             "with_vanishing_modules": sum(any(op[0] == "extractR" for op in c.get("ops", [])) for c in cases)}
        for c, r in zip(cases, reals):
            if c["k"] == "seq":
                d["sequential"] += 1
                d["with_removal"] += any(op[0] == "remove" for op in c["ops"])
                if isinstance(r, str):
                    d["warnings"] += r.count("warn")
                    d["glue_calls"] += r.count("mod") + r.count("builtin")
            else:
                d["concurrent"] += 1
        return d


# F4 witness: handled as a special case kind
_orig_run = C17.run_real
_orig_oracle = C17.oracle


def _run(self, case):
    if case.get("k") == "f4":
        c = {"k": "seq", "mods": [[0, False, False, False, False], [1, False, False, False, False], [2, False, True, False, False]],
             "ops": [["insert", 0], ["insert", 1], ["extract"], ["remove", 0], ["insert", 2], ["extract"]]}
        return _orig_run(self, c)
    return _orig_run(self, case)


def _oracle(self, case, real):
    if case.get("k") == "f4":
        if isinstance(real, str) and "builtin2" not in real.split():
            return "module 2 appeared before the last extraction started, yet its built-in glue had not run when it returned"
        return None
    return _orig_oracle(self, case, real)


C17.run_real = _run   # type: ignore[assignment]
C17.oracle = _oracle  # type: ignore[assignment]

CHECK = C17()
