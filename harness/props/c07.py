"""C07 — thread stacks: exact when the thread is blocked, memory-safe when it is racing.

  blocked   threads blocked at a fixed point at call depth 0..6 with 0..3 nested managers per frame: extract(thread)
            must give exactly that thread's frames, outermost first, with exact contexts; not-started and finished
            threads give no frames;
  racing    in a subprocess (harness/c07_worker.py): every preemption point of inspect_frame's snapshot loop x every
            amount of target progress 1..4, plus sampled pairs; the accepted snapshot / retry / error is compared with
            the Lean model `SS.Snapshot.inspect` on the recorded trace; extract(thread) never raises and reports only
            that thread's frames; death of the subprocess by a signal is a violation;
  stress    random switch-interval stress in a subprocess (search support only).
"""
from __future__ import annotations

import json
import os
import random
import subprocess
import sys
import threading
from pathlib import Path
from typing import Any, Dict, List, Optional

from ..core import PropCheck, REPO, VERIF

PY = "/venv/bin/python"


def run_blocked(case) -> dict:
    import stackscope

    depth, nest = case["depth"], case["nest"]
    ev, started = threading.Event(), threading.Event()
    mgrs: List[Any] = []

    class M:
        def __enter__(self):
            return self

        def __exit__(self, *a):
            return False

    def level(k):
        ms = [M() for _ in range(nest[k] if k < len(nest) else 0)]
        mgrs.append(ms)
        if len(ms) == 0:
            return nxt(k)
        if len(ms) == 1:
            with ms[0]:
                return nxt(k)
        if len(ms) == 2:
            with ms[0] as a, ms[1]:
                return nxt(k)
        with ms[0], ms[1] as b, ms[2]:
            return nxt(k)

    lk = threading.Lock()
    lk.acquire()
    leaf_mgrs: List[Any] = []
    exiting_expected: List[Any] = []
    leaf_style = case.get("leaf", 0)

    def nxt(k):
        if k == depth:
            return leaf_shared() if leaf_style == 7 else leaf_freevar() if leaf_style == 8 else leaf()
        else:
            level(k + 1)

    # frames whose code object lists one NAME in two of co_varnames / co_cellvars / co_freevars (3.12 inlines comprehensions):
    # the number of slots in front of the value stack is not the number of distinct names
    def leaf_shared():
        started.set()
        rows = [1, 2, 3]
        for m in rows:                      # m: an ordinary local ...
            pass
        shared = [m for m in rows if any(o is m for o in rows)]      # ... and a comprehension variable captured by a genexpr (a cell)
        leaf_mgrs.extend([M(), M()])
        with leaf_mgrs[0] as a, leaf_mgrs[1]:
            lk.acquire(True, 20)
        return shared

    def leaf_freevar():
        started.set()
        both = [depth for depth in (1, 2)] + [depth]     # depth: a free variable of this function and an inlined comprehension's variable
        leaf_mgrs.extend([M(), M()])
        with leaf_mgrs[0] as a, leaf_mgrs[1]:
            lk.acquire(True, 20)
        return both

    leaf_shared.__code__ = leaf_shared.__code__.replace(co_name="leaf")
    leaf_freevar.__code__ = leaf_freevar.__code__.replace(co_name="leaf")

    def leaf():
        # the innermost Python frame blocks in a C-level call (its stack pointer is not saved: the value stack is trimmed
        # at the handler depth of the table entry covering the call instruction)
        started.set()
        if leaf_style == 0:
            ev.wait(20)
        elif leaf_style == 1:
            leaf_mgrs.extend([M(), M()])
            with leaf_mgrs[0] as a, leaf_mgrs[1]:
                return lk.acquire(True, 20)          # the call is the last instruction of the with range
        elif leaf_style == 2:
            leaf_mgrs.append(M())
            with leaf_mgrs[0]:
                lk.acquire(True, 20)
        elif leaf_style == 3:
            leaf_mgrs.append(M())
            args = (True, 20)
            with leaf_mgrs[0]:
                return lk.acquire(*args)
        elif leaf_style in (4, 5):
            # blocked inside the exit method itself, which goes by another name (alias) or through a decorator keeping self
            import functools

            def traced(fn):
                @functools.wraps(fn)
                def wrapper(self, *a):
                    return fn(self, *a)
                return wrapper

            class Odd:
                def __enter__(s):
                    return s

                def release(s, *exc):
                    lk.acquire(True, 20)
                    return False

                __exit__ = release if leaf_style == 4 else traced(release)

            leaf_mgrs.extend([M(), Odd()])
            exiting_expected.append(leaf_mgrs[1])
            with leaf_mgrs[0] as a:
                with leaf_mgrs[1]:
                    pass
        elif leaf_style == 10:
            # blocked inside more nested blocks than any bound one might put on a frame's block list (the compiler allows 20)
            leaf_mgrs.extend([M() for _ in range(13)])
            m = leaf_mgrs
            with m[0]:
                with m[1] as a:
                    with m[2]:
                        with m[3]:
                            with m[4] as b:
                                with m[5]:
                                    with m[6]:
                                        with m[7]:
                                            with m[8] as c:
                                                with m[9]:
                                                    with m[10]:
                                                        with m[11]:
                                                            with m[12]:
                                                                lk.acquire(True, 20)
        elif leaf_style == 9:
            # blocked inside the exit of the INNER activation of a re-entrant manager that the same frame has entered twice
            class Re:
                n = 0

                def __enter__(s):
                    s.n += 1
                    return s

                def __exit__(s, *exc):
                    s.n -= 1
                    if s.n == 1:
                        lk.acquire(True, 20)
                    return False

            r = Re()
            leaf_mgrs.extend([r, r])
            exiting_expected.append(r)
            with r as a:
                with r as b:
                    pass
        else:
            # the thread drives a coroutine that is blocked while running inside an __aexit__
            class AOdd:
                async def __aenter__(s):
                    return s

                async def __aexit__(s, *exc):
                    lk.acquire(True, 20)
                    return False

            leaf_mgrs.extend([M(), AOdd()])
            exiting_expected.append(leaf_mgrs[1])

            async def leaf():          # noqa: F811  (the frame that is inspected is this coroutine's, named leaf as well)
                with leaf_mgrs[0] as a:
                    async with leaf_mgrs[1]:
                        pass

            co = leaf()
            try:
                co.send(None)
            except StopIteration:
                pass

    t = threading.Thread(target=level, args=(0,), daemon=True)
    probs = []
    st0 = stackscope.extract(t)
    if st0.frames or st0.error is not None:
        probs.append(f"a thread that has not started gave {len(st0.frames)} frames, error {st0.error!r}")
    t.start()
    started.wait(5)
    try:
        st = stackscope.extract(t)
        if st.error is not None:
            probs.append(f"blocked thread: error {st.error!r}")
        import time as _t

        _t.sleep(0.05)       # let the leaf reach its blocking call
        st = stackscope.extract(t)
        if st.error is not None:
            probs.append(f"blocked thread: error {st.error!r}")
        lf = [f for f in st.frames if f.funcname == "leaf"]
        if leaf_style == 6:
            lf = [f for f in lf if f.contexts or len(lf) == 1][-1:]       # the coroutine's frame (the driving function has none)
        if len(lf) != 1:
            probs.append(f"blocked thread: expected one leaf frame, got {len(lf)}")
        elif leaf_style != 0:
            got = [c.obj for c in lf[0].contexts]
            ex = [c.obj for c in lf[0].contexts if c.is_exiting]
            if got != leaf_mgrs or ex != exiting_expected:
                probs.append(f"blocked thread (leaf style {leaf_style}): the frame blocked in a C call inside its with block reports contexts "
                             f"{got} (exiting: {ex}), its active managers are {leaf_mgrs} (exiting: {exiting_expected})")
        mine = [f for f in st.frames if f.funcname in ("level", "nxt")]
        names = [f.funcname for f in st.frames]
        want_names = ["level", "nxt"] * (depth + 1)
        if [f.funcname for f in mine] != want_names:
            probs.append(f"blocked thread: frames {names}, expected level/nxt x {depth + 1}")
        # true stack by hand
        f = sys._current_frames()[t.ident]
        chain = []
        while f is not None:
            chain.append(f)
            f = f.f_back
        if [x.pyframe for x in st.frames] != chain[::-1]:
            probs.append("blocked thread: the frames are not exactly the thread's f_back chain, outermost first")
        if case.get("two_inspectors"):
            # two inspecting threads at once, with different options, overlapping but not nested: A (default options) starts and is held
            # in the middle of its extraction; B (with_contexts=False) starts and is held in the middle of its own; A goes on and finishes
            # while B is still inside; then B finishes
            class Gate:
                def __init__(s):
                    s.held, s.go = threading.Event(), threading.Event()

            @stackscope.unwrap_stackitem.register(Gate)
            def _gate(g):
                g.held.set()
                g.go.wait(10)
                return t          # ... and only then goes on to the blocked thread

            ga, gb, res2 = Gate(), Gate(), {}
            ta = threading.Thread(target=lambda: res2.__setitem__("a", stackscope.extract(ga)), daemon=True)
            tb_ = threading.Thread(target=lambda: res2.__setitem__("b", stackscope.extract(gb, with_contexts=False)), daemon=True)
            ta.start()
            ga.held.wait(5)
            tb_.start()
            gb.held.wait(5)
            ga.go.set()
            ta.join(10)
            gb.go.set()
            tb_.join(10)
            st_a, st_b = res2.get("a"), res2.get("b")
            a_ctx = [len(f.contexts) for f in st_a.frames if f.funcname == "level"] if st_a is not None else None
            want_ctx = [len(m) for m in mgrs[:depth + 1]]
            if a_ctx != want_ctx:
                probs.append(f"inspector A (default options) finishing while inspector B (with_contexts=False) is in the middle of its "
                             f"extraction: contexts per level {a_ctx}, the blocked thread holds {want_ctx}")
            if st_b is None or any(f.contexts for f in st_b.frames) or [f.funcname for f in st_b.frames if f.funcname == "level"] != ["level"] * (depth + 1):
                probs.append(f"inspector B (with_contexts=False) overlapped by inspector A: "
                             f"{None if st_b is None else [(f.funcname, len(f.contexts)) for f in st_b.frames][:6]}")
        lv = [f for f in mine if f.funcname == "level"]
        for k, f in enumerate(lv):
            got = [c.obj for c in f.contexts]
            if got != mgrs[k] or any(c.is_exiting or c.is_async for c in f.contexts):
                probs.append(f"blocked thread: level {k} contexts {got} are not its {len(mgrs[k])} active managers")
    finally:
        ev.set()
        lk.release()
        t.join(5)
    st2 = stackscope.extract(t)
    if st2.frames or st2.error is not None:
        probs.append(f"a finished thread gave {len(st2.frames)} frames, error {st2.error!r}")
    return {"problems": probs, "frames": len(st.frames)}


def run_blocked_during_detection(case) -> dict:
    """The same blocked-thread extraction, made while ANOTHER thread is inside the library's one-off self-test of the bytecode
    analysis (the very first extraction of a process, here forced again with set_trickery_enabled(None)): the result is exact all
    the same -- the asker waits for the verdict, it never acts on a provisional one."""
    import stackscope
    from stackscope import _lowlevel as L

    L.set_trickery_enabled(None)
    in_detect, go = threading.Event(), threading.Event()
    orig = L._contexts_active_by_trickery
    first = [True]

    def slow(frame):
        if first[0] and threading.current_thread().name == "detector":
            first[0] = False
            in_detect.set()
            go.wait(5)
        return orig(frame)

    def gen():
        yield

    g = gen()
    next(g)
    L._contexts_active_by_trickery = slow
    box: Dict[str, Any] = {}
    try:
        a = threading.Thread(target=lambda: stackscope.extract(g), name="detector", daemon=True)
        a.start()
        if not in_detect.wait(3):
            go.set()
            a.join(5)
            return {"problems": ["the self-test window could not be opened"], "frames": 0}
        x = threading.Thread(target=lambda: box.update(r=run_blocked(dict(case, during_detection=False))), daemon=True)
        x.start()
        x.join(0.4)
        go.set()
        a.join(10)
        x.join(20)
    finally:
        L._contexts_active_by_trickery = orig
        L.set_trickery_enabled(None)
    r = box.get("r") or {"problems": ["the extraction made during the self-test did not finish"], "frames": 0}
    r["problems"] = [p + " [extraction made while another thread was inside the analysis self-test]" for p in r["problems"]]
    return r


def worker(schedules: List[dict], timeout=120) -> List[dict]:
    env = dict(os.environ, PYTHONPATH=f"{REPO}:{VERIF}", STACKSCOPE_VERIF="1")
    p = subprocess.run([PY, "-m", "harness.c07_worker"], input=json.dumps({"schedules": schedules}), stdout=subprocess.PIPE,
                       stderr=subprocess.PIPE, text=True, cwd=str(VERIF), env=env, timeout=timeout)
    out = []
    for l in p.stdout.splitlines():
        try:
            out.append(json.loads(l))
        except Exception:
            pass
    if p.returncode != 0:
        out.append({"kind": f"subprocess exit {p.returncode}", "stderr": p.stderr[-400:], "schedule": "?"})
    return out


STRESS = r'''
import sys, threading, time, random
sys.setswitchinterval(1e-6)
import stackscope
stop = False
class M:
    def __enter__(s): return s
    def __exit__(s,*a): return False
def churn(n):
    with M():
        for i in range(3):
            with M(), M():
                if n: churn(n-1)
def body():
    while not stop:
        churn(4)
t = threading.Thread(target=body, daemon=True); t.start()
bad = 0; n = 0
names_ok = {"_bootstrap","_bootstrap_inner","run","body","churn","__enter__","__exit__","__init__"}
end = time.time() + float(sys.argv[1])
while time.time() < end:
    try:
        st = stackscope.extract(t)
    except Exception as e:
        print("RAISED", type(e).__name__, e); bad += 1; continue
    n += 1
    for f in st.frames:
        if f.funcname not in names_ok:
            print("FOREIGN", f.funcname); bad += 1
stop = True
print("DONE", n, bad)
'''


class C07(PropCheck):
    pid = "C07"
    real_time_limit = 200.0
    rule = ("blocked: depth 0..6 x 0..3 managers per frame; lifecycle: not started / finished; racing: each of the inspector's read "
            "points (up to 14) x target progress 1..4, plus 30 (quick) / 300 (thorough) random pairs and triples, all in a "
            "subprocess; stress: 2 s (quick) / 20 s (thorough) with switch interval 1e-6; non-trivial = the target moved")
    manifest = {
        "text": "Lean (M-J, retry count generated from the source): C07_blocked (a target that takes no step: the first attempt is accepted and the snapshot is exactly its stack at its one position), C07_position_consistent (an accepted snapshot saw the same f_lasti at the start, before every slot read and at the end — else it is rejected and retried), C07_snapshot_partial (under NoABA the snapshot is the target's stack at one state), C07_aba_witness (without NoABA an accepted snapshot can mix two visits of the same position), C07_stale_read_witness (the window between the check and the slot read: known finding F11), C07_bounded_retries (at most snapshotRetries attempts, then the error: no hang), C07_not_alive / C07_finished / C07_ident, C07_shortcut_source / C07_finished_full / C07_calling_thread / C07_F60_old_code_witness (the calling-thread test, re-read from the source, needs the thread to be alive: a finished thread yields nothing even for a caller that has since been given its ident; with the ident alone deciding it got the caller's stack) (unwrap_thread returns nothing unless the thread was alive before and after the lookup; alive-before and alive-after imply alive at the lookup, so the ident was not re-used). Tie: real inspect_frame under a deterministic line-hook schedule vs the model on the recorded trace; extract(thread) on blocked, unstarted, finished and racing threads judged by the oracle.",
        "note": "Partial: 'never crashes the interpreter' is false on the real code (F11: a slot read can return an object freed after the preceding check; the subsequent crash is CPython allocator behaviour outside any model). The exploration keeps every object the target ever puts on its stack alive, so it exercises the window without the crash; the F11 witness runs in its own subprocess.",
    }
    assumptions = ["single attribute reads (frame.f_lasti, a ctypes slot read) are atomic under the GIL",
                   "the target only runs when released by the controller (lock-step), except in the stress leg"]

    def cases(self, rng, tier):
        out = []
        for depth in range(0, 7 if tier == "thorough" else 5):
            for _ in range(2 if tier == "quick" else 6):
                out.append({"k": "blocked", "depth": depth, "nest": [rng.randint(0, 3) for _ in range(depth + 1)], "leaf": len(out) % 11})
                if len(out) % 4 == 1:
                    out.append(dict(out[-1], during_detection=True, nest=[max(1, x) for x in out[-1]["nest"]]))
        for d_ in (1, 3):
            out.append({"k": "blocked", "depth": d_, "nest": [rng.randint(1, 3) for _ in range(d_ + 1)], "leaf": 2, "two_inspectors": True})
        for style in range(11):          # every way of being blocked, at least once whatever the seed
            out.append({"k": "blocked", "depth": 1, "nest": [rng.randint(0, 2), rng.randint(0, 2)], "leaf": style})
        scheds: List[dict] = [{}]
        for r in range(0, 14):
            for a in range(1, 5):
                scheds.append({str(r): a})
        for _ in range(30 if tier == "quick" else 300):
            k = rng.choice([2, 2, 3])
            pts = sorted(rng.sample(range(0, 20), k))
            scheds.append({str(p): rng.randint(1, 4) for p in pts})
        for i in range(0, len(scheds), 30):
            out.append({"k": "racing", "schedules": scheds[i:i + 30]})
        # the inspected frame returns during the inspection and its function is entered again (same slot of the frame stack)
        out.append({"k": "reentry", "schedules": [{"reentry": r, "gates": g} for r in range(0, 8) for g in (2, 3, 5)]})
        out.append({"k": "stress", "secs": 2 if tier == "quick" else 20})
        for _ in range(3 if tier == "quick" else 12):
            out.append({"k": "ident_reuse"})
        return out

    def known_witnesses(self):
        return [{"id": "F11", "case": {"k": "f11"}}]

    def run_real(self, case):
        self._probs: List[str] = []
        if case["k"] == "blocked":
            if case.get("during_detection"):
                r = run_blocked_during_detection(case)
            else:
                r = run_blocked(case)
            self._probs = r["problems"]
            return json.dumps(r)
        if case["k"] == "reentry":
            rs = worker(case["schedules"])
            outs = []
            for r in rs:
                if r.get("kind") != "reentry":
                    self._probs.append(f"schedule {r.get('schedule')}: {r.get('kind')} {r.get('stderr', '')[:200]}")
                    continue
                oc = r.get("outcome")
                outs.append(f"{oc}:{len(r.get('stack') or [])}")
                if oc == "snapshot" and not r.get("frame_still_running") and r.get("stack"):
                    self._probs.append(f"schedule {r['schedule']}: the inspected frame returned during the inspection (its function was entered "
                                       f"again); the accepted snapshot of that finished frame shows the value stack {r['stack']} -- the other "
                                       f"invocation's")
                elif oc not in ("snapshot", "inconsistent"):
                    self._probs.append(f"schedule {r['schedule']}: inspect_frame {oc}")
            if len(rs) != len(case["schedules"]):
                self._probs.append(f"only {len(rs)} of {len(case['schedules'])} schedules produced a result")
            return " ".join(outs)
        if case["k"] == "racing":
            rs = worker(case["schedules"])
            outs = []
            case["_model"] = []
            for r in rs:
                kind = r.get("kind", "?")
                if kind.startswith(("subprocess exit", "worker-error", "raised", "RuntimeError")):
                    self._probs.append(f"schedule {r.get('schedule')}: {kind} {r.get('stderr', '')[:200]}")
                    continue
                ex = r.get("extract", {})
                if "raised" in ex:
                    self._probs.append(f"schedule {r['schedule']}: extract(thread) raised {ex['raised']}")
                elif ex.get("foreign"):
                    self._probs.append(f"schedule {r['schedule']}: extract(thread) reported frames of other threads: {ex['foreign']}")
                elif ex.get("error"):
                    self._probs.append(f"schedule {r['schedule']}: extract(parked thread) has error {ex['error']}")
                for mode in ("default", "error"):
                    exr = r.get("extract_racing_" + mode, {})
                    if "raised" in exr:
                        self._probs.append(f"schedule {r['schedule']}: extract(thread) while the target races "
                                           f"(InspectionWarning filter: {mode}) RAISED {exr['raised']}")
                    elif exr and exr.get("names", [])[:5][-2:] != ["body", "target_program"]:
                        # a rejected snapshot costs the frame its context information, not the frame: the thread's frames down to
                        # the racing one (they stay on its stack throughout) are still reported
                        self._probs.append(f"schedule {r['schedule']}: extract(thread) while the target races (InspectionWarning filter: "
                                           f"{mode}) reports frames {exr.get('names')} (error {exr.get('error')}): the thread's own "
                                           f"frames down to target_program are missing")
                if kind == "snapshot" and r.get("blocks") != r.get("expected_blocks"):
                    self._probs.append(f"schedule {r['schedule']}: the handler blocks {r.get('blocks')} are not those of the position the "
                                       f"snapshot was taken at ({r.get('expected_blocks')})")
                obs, model = self.to_model(r)
                if kind == "snapshot" and model["attempts"]:
                    # judged against the program, not the model: an accepted snapshot has exactly the slots of the position it
                    # was taken at, and each slot holds what the target had there on one of its visits to that position during
                    # the accepted attempt
                    acc = model["attempts"][-1]["states"]
                    got = [int(x) for x in obs[obs.index("[") + 1:-1].split(",") if x.strip()]
                    want_len = {len(st) for _, st in acc}
                    if len(got) not in want_len:
                        self._probs.append(f"schedule {r['schedule']}: the accepted snapshot has {len(got)} stack slots {r.get('stack')}; the "
                                           f"target had {sorted(want_len)} at the position it was taken at")
                    elif any(all(i >= len(st) or st[i] != g for _, st in acc) for i, g in enumerate(got)):
                        self._probs.append(f"schedule {r['schedule']}: the accepted snapshot {r.get('stack')} holds a slot value the target "
                                           f"never had at that position during the attempt")
                outs.append(obs)
                case["_model"].append(model)
            if len(rs) != len(case["schedules"]):
                self._probs.append(f"only {len(rs)} of {len(case['schedules'])} schedules produced a result")
            return "§".join(outs)
        if case["k"] == "stress":
            env = dict(os.environ, PYTHONPATH=f"{REPO}:{VERIF}")
            p = subprocess.run([PY, "-c", STRESS, str(case["secs"])], stdout=subprocess.PIPE, stderr=subprocess.PIPE, text=True,
                               env=env, timeout=case["secs"] + 60)
            if p.returncode < 0:
                # death by signal under free-running preemption is F11's crash; reported through the known finding
                case["_crashed"] = p.returncode
                return f"signal {-p.returncode}"
            bad = [l for l in p.stdout.splitlines() if l.startswith(("RAISED", "FOREIGN"))]
            if bad:
                self._probs.append("stress: " + "; ".join(bad[:3]))
            return p.stdout.strip().splitlines()[-1] if p.stdout.strip() else f"exit {p.returncode}"
        if case["k"] == "f11":
            return self.run_f11()
        if case["k"] == "ident_reuse":
            return self.run_ident_reuse()
        raise ValueError(case["k"])

    def run_ident_reuse(self):
        """The target finishes right after `was_alive = thread.is_alive()` and a new thread re-uses its ident before the
        frame lookup: extract(target) must not report the newcomer's frames."""
        import linecache

        import stackscope
        from stackscope import _glue

        stackscope.extract(threading.current_thread())      # make sure the threading glue is installed
        hook = [h for h in stackscope.unwrap_stackitem.registry.values() if getattr(h, "__name__", "") == "unwrap_thread"]
        if not hook:
            self._probs.append("unwrap_thread hook not found")
            return "no-hook"
        code = hook[0].__code__
        stop_t, stop_n = threading.Event(), threading.Event()
        target = threading.Thread(target=lambda: stop_t.wait(10), daemon=True)
        target.start()
        old_ident = target.ident
        state = {"done": False, "new": None, "reused": False}

        def impostor_body():
            stop_n.wait(10)

        def local(frame, event, arg):
            if event == "line" and not state["done"]:
                text = linecache.getline(code.co_filename, frame.f_lineno)
                if "sys._current_frames().get(thread.ident)" in text:
                    state["done"] = True
                    stop_t.set()
                    target.join(5)
                    for _ in range(50):       # try to get the ident re-used
                        n = threading.Thread(target=impostor_body, daemon=True, name="impostor")
                        n.start()
                        if n.ident == old_ident:
                            state["new"], state["reused"] = n, True
                            break
                        stop_n.set(); n.join(2); stop_n.clear()
            return local

        def tracer(frame, event, arg):
            return local if frame.f_code is code else None

        sys.settrace(tracer)
        try:
            st = stackscope.extract(target)
        finally:
            sys.settrace(None)
            stop_n.set()
        if st.frames:
            self._probs.append(f"extract(thread that finished during the lookup) reported frames {[f.funcname for f in st.frames]} "
                               f"(ident re-used by another thread: {state['reused']})")
        return f"reused={state['reused']} frames={len(st.frames)}"

    @staticmethod
    def to_model(r) -> (str, dict):
        """Observed outcome in the model's vocabulary, and the driver input (attempts from the recorded trace)."""
        ids: Dict[str, int] = {}

        def oid(s):
            return ids.setdefault(s, len(ids) + 1)

        def stack_at(gates_passed):
            # the controller knows the program: parked at gate 1 of iteration i, or gate 2 of iteration i
            it, which = divmod(gates_passed, 2)
            base = [oid("exit:outer"), oid("iter")]
            return base if which == 0 else base + [oid(f"exit:('a', {it})"), oid(f"exit:('b', {it})")]

        attempts = []
        cur = None
        gates = 0
        for t in r["trace"]:
            gates += t["advanced"]
            if t["line"].startswith("handlers"):
                continue          # after the snapshot: not one of the protocol's reads
            if t["line"].startswith("lasti_before"):
                cur = {"states": [], "n": None}
                attempts.append(cur)
            cur["states"].append([t["lasti"], stack_at(gates)])
        for a in attempts:
            # slots to read: decided from the position seen first (handler depth there): 2 at gate 1, 4 at gate 2
            a["n"] = len(stack_at_gate_of(a["states"][0][1]))
        if r["kind"] == "snapshot":
            st = [oid(x) for x in r["stack"]]
            lasti = None
            # the accepted attempt is the last one
            lasti = attempts[-1]["states"][0][0]
            obs = f"snapshot {lasti} {json.dumps(st).replace(' ', '') if False else '[' + ', '.join(map(str, st)) + ']'}"
        else:
            obs = "inconsistent"
        return obs, {"attempts": attempts}

    def model_lines(self, case):
        if case["k"] != "racing":
            return None
        return [json.dumps({"p": "C07", **m}) for m in case.get("_model", [])]

    def model_line(self, case):
        return None

    def run_f11(self):
        probe = VERIF / "harness" / "f11_witness.py"
        env = dict(os.environ, PYTHONPATH=f"{REPO}:{VERIF}")
        stale = crashed = 0
        for _ in range(3):
            p = subprocess.run([PY, str(probe)], stdout=subprocess.PIPE, stderr=subprocess.PIPE, text=True, env=env, timeout=120)
            if "STALE" in p.stdout:
                stale += 1
            if p.returncode < 0:
                crashed += 1
        self._f11 = (stale, crashed)
        return f"stale={stale} crashed={crashed}"

    def canon(self, case, real):
        return real

    def oracle(self, case, real):
        if case["k"] == "f11":
            st, cr = getattr(self, "_f11", (0, 0))
            if st or cr:
                return f"a slot read returned an object that had been finalised before the read ({st} of 3 runs; interpreter died in {cr})"
            return None
        if case["k"] == "stress" and case.get("_crashed"):
            return None      # F11's crash under free-running preemption: listed known finding, replayed by its witness
        probs = self._all.get(id(case)) or []
        return "; ".join(probs[:3])[:900] if probs else None

    def nontrivial_key(self, case, real):
        return json.dumps({k: v for k, v in case.items() if not k.startswith("_")}, sort_keys=True)[:400] if case["k"] != "stress" else None

    def stats(self, cases, reals):
        d = {"blocked": 0, "schedules": 0, "accepted": 0, "inconsistent": 0, "stress": 0}
        for c, r in zip(cases, reals):
            if c["k"] == "blocked":
                d["blocked"] += 1
            elif c["k"] == "racing":
                d["schedules"] += len(c["schedules"])
                if isinstance(r, str):
                    d["accepted"] += r.count("snapshot")
                    d["inconsistent"] += r.count("inconsistent")
            else:
                d["stress"] += 1
        return d


def stack_at_gate_of(stack):
    return stack


_orig = C07.run_real


def _run(self, case):
    if not hasattr(self, "_all"):
        self._all = {}
    r = _orig(self, case)
    self._all[id(case)] = list(self._probs)
    return r


C07.run_real = _run  # type: ignore[assignment]
CHECK = C07()
