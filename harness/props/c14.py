"""C14 — Trio: the extracted tree is isomorphic to the real task tree, across thread hops.

Real Trio runs (oracle on the implementation; the Lean model covers the nursery/child-task recursion):
  trees   generated task trees: each task opens 0..k nested nurseries, starts children in them and blocks either
          in the innermost nursery body or in that nursery's __aexit__; nursery bodies end in a plain statement,
          try/except, try/finally or a conditional return.  extract(root_task, recurse_child_tasks=True) is
          compared with task.child_nurseries / nursery.child_tasks, and must produce no error and no warning.
  hops    to_thread.run_sync / from_thread.run ping-pong chains of depth 0..M.
"""
from __future__ import annotations

import json
import random
import threading
import warnings
from typing import Any, Dict, List, Optional

from ..core import PropCheck

BODY_ENDS = ["plain", "try_except", "try_finally", "cond_return", "try_except_reraise", "try_except_return", "try_except_raise_other", "if_none_return", "if_not_none_return"]


def rand_tree(rng: random.Random, depth: int, fan: int) -> dict:
    k = rng.randint(0, 2) if depth > 0 else rng.randint(0, 1)
    nurseries = []
    for i in range(k):
        kids = [rand_tree(rng, depth - 1, fan) for _ in range(rng.randint(0, fan))] if depth > 0 else []
        nurseries.append({"children": kids, "end": rng.choice(BODY_ENDS)})
    return {"nurseries": nurseries, "block": rng.choice(["body", "aexit"]) if nurseries else "body",
            "same_frame": len(nurseries) >= 2 and rng.random() < 0.6}


def run_tree(case) -> dict:
    import stackscope
    import trio

    tree = case["tree"]
    res: Dict[str, Any] = {}

    async def task_fn(node, depth=0):
        await open_nurseries(node, 0)

    async def open_nurseries(node, i):
        ns = node["nurseries"]
        if i == len(ns):
            if node["block"] == "body" or not ns:
                await trio.sleep_forever()
            return
        spec = ns[i]
        last = i == len(ns) - 1
        end = spec["end"]
        if node.get("same_frame") and i + 1 < len(ns):
            # two nurseries opened by the same frame
            async with trio.open_nursery() as n1:
                for ch in spec["children"]:
                    n1.start_soon(task_fn, ch)
                async with trio.open_nursery() as n2:
                    for ch in ns[i + 1]["children"]:
                        n2.start_soon(task_fn, ch)
                    await open_nurseries(node, i + 2)
            return
        # four shapes of nursery body endings (what the compiler emits for the exit sequence differs)
        if end == "plain":
            async with trio.open_nursery() as nursery:
                for ch in spec["children"]:
                    nursery.start_soon(task_fn, ch)
                await open_nurseries(node, i + 1)
        elif end == "try_except":
            async with trio.open_nursery() as nursery:
                for ch in spec["children"]:
                    nursery.start_soon(task_fn, ch)
                try:
                    await open_nurseries(node, i + 1)
                except KeyError:
                    pass
        elif end in ("try_except_reraise", "try_except_return", "try_except_raise_other"):
            # every except clause leaves: the only way into the exit sequence is from inside the try range
            if end == "try_except_reraise":
                async with trio.open_nursery() as nursery:
                    for ch in spec["children"]:
                        nursery.start_soon(task_fn, ch)
                    try:
                        await open_nurseries(node, i + 1)
                    except KeyError:
                        raise
            elif end == "try_except_return":
                async with trio.open_nursery() as nursery:
                    for ch in spec["children"]:
                        nursery.start_soon(task_fn, ch)
                    try:
                        await open_nurseries(node, i + 1)
                    except KeyError:
                        return
                    except OSError:
                        return 3
            else:
                async with trio.open_nursery() as nursery:
                    for ch in spec["children"]:
                        nursery.start_soon(task_fn, ch)
                    try:
                        await open_nurseries(node, i + 1)
                    except KeyError as e:
                        raise RuntimeError("other") from e
        elif end in ("if_none_return", "if_not_none_return"):
            # a conditional return on a None test, not taken: the exit sequence is reached only through POP_JUMP_IF_[NOT_]NONE
            flag = 1 if end == "if_none_return" else None
            if end == "if_none_return":
                async with trio.open_nursery() as nursery:
                    for ch in spec["children"]:
                        nursery.start_soon(task_fn, ch)
                    await open_nurseries(node, i + 1)
                    if flag is None:
                        return
            else:
                async with trio.open_nursery() as nursery:
                    for ch in spec["children"]:
                        nursery.start_soon(task_fn, ch)
                    await open_nurseries(node, i + 1)
                    if flag is not None:
                        return 7
        elif end == "try_finally":
            async with trio.open_nursery() as nursery:
                for ch in spec["children"]:
                    nursery.start_soon(task_fn, ch)
                try:
                    await open_nurseries(node, i + 1)
                finally:
                    node.get("x")
        else:
            async with trio.open_nursery() as nursery:
                for ch in spec["children"]:
                    nursery.start_soon(task_fn, ch)
                await open_nurseries(node, i + 1)
                if node.get("never"):
                    return 5

    async def blocker_child():
        await trio.sleep_forever()

    async def main():
        async with trio.open_nursery() as outer:
            # a task blocked in a nursery's __aexit__ needs a live child there: give every 'aexit' leaf one
            ensure_children(tree)
            outer.start_soon(task_fn, tree)
            await trio.testing.wait_all_tasks_blocked()
            root = [t for t in outer.child_tasks][0]
            started: List[Any] = []
            go_on = threading.Event()
            if case.get("concurrent"):
                # while this extraction is under way (it has just reached the root task's first frame), another thread begins an
                # extraction of its own with the opposite options and stays inside it until this one is done (a watchdog thread
                # dumping something else): forced, not raced
                inside = threading.Event()

                class Blocker:
                    pass

                @stackscope.unwrap_stackitem.register(Blocker)
                def unwrap_blocker(b):
                    inside.set()
                    go_on.wait(20)
                    return None

                @stackscope.elaborate_frame.register(task_fn)
                def start_other(frame, next_inner):
                    if not started:
                        t = threading.Thread(target=lambda: stackscope.extract(Blocker(), with_contexts=False, recurse_child_tasks=False),
                                             daemon=True)
                        started.append(t)
                        t.start()
                        inside.wait(10)
                    return None
            if case.get("mode") == "referents":
                stackscope.lowlevel.set_trickery_enabled(False)
            try:
                with warnings.catch_warnings(record=True) as w:
                    warnings.simplefilter("always")
                    st = stackscope.extract(root, recurse_child_tasks=True)
                    go_on.set()
                    for t in started:
                        t.join(10)
                    stub = stackscope.extract(root, recurse_child_tasks=False)
            finally:
                go_on.set()
                stackscope.lowlevel.set_trickery_enabled(None)
            res["warnings"] = [str(x.message)[:200] for x in w]
            res["problems"] = compare(st, root, full=True) + compare(stub, root, full=False)
            res["shape"] = shape(st)
            outer.cancel_scope.cancel()

    def ensure_children(node):
        for ns in node["nurseries"]:
            for ch in ns["children"]:
                ensure_children(ch)
        if node["block"] == "aexit" and node["nurseries"] and not node["nurseries"][-1]["children"]:
            node["nurseries"][-1]["children"].append({"nurseries": [], "block": "body"})

    import trio.testing

    trio.run(main)
    return res


def contexts_of(st):
    out = []
    for f in st.frames:
        for c in f.contexts:
            out.append(c)
    return out


def shape(st) -> Any:
    import trio

    return [[shape(ch) for ch in c.children] for c in contexts_of(st) if isinstance(c.obj, trio.Nursery)]


def compare(st, task, full: bool, path="root") -> List[str]:
    """The extracted tree against Trio's own: each open nursery once, in nesting order, children = child tasks."""
    import stackscope
    import trio

    probs = []
    if st.error is not None:
        probs.append(f"{path}: error {st.error!r}")
    if st.root is not task:
        probs.append(f"{path}: root is not the task")
    real_nurseries = list(task.child_nurseries)
    ctxs = [c for c in contexts_of(st) if isinstance(c.obj, trio.Nursery) or type(c.obj).__name__ == "NurseryManager"]
    if [c.obj for c in ctxs] != real_nurseries:
        probs.append(f"{path}: nursery contexts {[type(c.obj).__name__ for c in ctxs]} (n={len(ctxs)}) do not match the task's "
                     f"{len(real_nurseries)} open nurseries in nesting order")
        return probs
    for i, (c, n) in enumerate(zip(ctxs, real_nurseries)):
        kids = list(c.children)
        real_kids = list(n.child_tasks)
        if not all(isinstance(k, stackscope.Stack) for k in kids) or \
                sorted(id(k.root) for k in kids) != sorted(id(t) for t in real_kids) or len(kids) != len(real_kids):
            probs.append(f"{path}.nursery{i}: children {[getattr(k, 'root', None) for k in kids]} are not exactly its child tasks")
            continue
        for k in kids:
            t = [t for t in real_kids if t is k.root][0]
            if full:
                if not k.frames:
                    probs.append(f"{path}.nursery{i}: child task stack has no frames although recursion was requested")
                probs += compare(k, t, True, f"{path}.n{i}.{t.name.split('.')[-1]}")
            elif k.frames or k.leaf is not None or k.error is not None:
                probs.append(f"{path}.nursery{i}: child is not a frameless stub although recursion was not requested")
    return probs


def run_hops(case) -> dict:
    import stackscope
    import trio

    m = case["hops"]
    res: Dict[str, Any] = {}
    release = threading.Event()

    gate = threading.Lock()
    gate.acquire()

    class Guard:
        def __enter__(s):
            return s

        def __exit__(s, *a):
            return False

    def mk_sync(k):
        def sync_fn():
            if k == 0:
                # blocked in a C-level call that is the last instruction of a with block's protected range
                args = (True, 10)
                with Guard():
                    return gate.acquire(*args)
            else:
                trio.from_thread.run(mk_async(k - 1))
        sync_fn.__code__ = sync_fn.__code__.replace(co_name=f"sync{k}")
        return sync_fn

    def mk_async(k):
        async def async_fn():
            if m == 0:
                await trio.sleep_forever()
            else:
                await trio.to_thread.run_sync(mk_sync(k), abandon_on_cancel=False)
        async_fn.__code__ = async_fn.__code__.replace(co_name=f"async{k}")
        return async_fn

    async def main():
        async with trio.open_nursery() as outer:
            outer.start_soon(mk_async(max(m - 1, 0)) if m > 0 else mk_async(0))
            await trio.sleep(0.15 + 0.04 * m)
            root = [t for t in outer.child_tasks][0]
            with warnings.catch_warnings(record=True) as w:
                warnings.simplefilter("always")
                st = stackscope.extract(root, recurse_child_tasks=True)
            res["warnings"] = [str(x.message)[:200] for x in w]
            res["error"] = repr(st.error) if st.error is not None else None
            res["visible"] = [f.funcname for f in st.frames if not f.hide]
            inner = [f for f in st.frames if f.funcname == "sync0"]
            if m > 0 and (len(inner) != 1 or [type(c.obj).__name__ for c in inner[0].contexts] != ["Guard"]):
                res["error"] = (res.get("error") or "") + f" the worker thread's innermost frame reports contexts {[[type(c.obj).__name__ for c in f.contexts] for f in inner]}, it holds one Guard"
            release.set()
            gate.release()
            outer.cancel_scope.cancel()

    trio.run(main)
    mine = [n for n in res["visible"] if n.startswith(("sync", "async")) and n[-1].isdigit()]
    want = []
    if m == 0:
        want = ["async0"]
    else:
        k = m - 1
        while k >= 0:
            want += [f"async{k}", f"sync{k}"]
            k -= 1
    res["mine"], res["want"] = mine, want
    return res


def run_two_runs(case) -> dict:
    """TWO Trio runs in the process: A in the calling thread (where extract() is called), B in a background thread.  The
    ping-pong chain trio_level(M) -> thread_level(M) -> trio_level(M-1) ... names the run it re-enters explicitly
    (from_thread.run(..., trio_token=<that run's token>)).  plan 'cross': levels alternate between A and B; 'remote': the whole
    chain lives in B and is inspected from a task of A; 'same': everything in A.  The extracted stack of the chain's root
    task must consist of exactly the recorded real frames, in order."""
    import functools
    import sys

    import stackscope
    import trio
    import trio.testing

    M, plan, end_in_thread = case["hops"], case["plan"], case.get("end_in_thread", False)
    run_of = {"same": lambda k: "A", "cross": lambda k: "A" if (M - k) % 2 == 0 else "B", "remote": lambda k: "B"}[plan]
    expected: List[Any] = []
    result: Dict[str, Any] = {}
    release = threading.Event()
    tokens: Dict[str, Any] = {}
    stops: Dict[str, Any] = {}
    nurseries: Dict[str, Any] = {}
    b_ready = threading.Event()
    box: Dict[str, Any] = {}

    async def trio_level(k, me):
        expected.append(sys._getframe())
        if k == M:
            result["task"] = trio.lowlevel.current_task()
        if k == 0:
            tokens["A"].run_sync_soon(box["arrived"].set)
            await stops[me].wait()
        else:
            await trio.to_thread.run_sync(thread_level, k)

    def thread_level(k):
        expected.append(sys._getframe())
        if k == 1 and end_in_thread:
            tokens["A"].run_sync_soon(box["arrived"].set)
            release.wait(20)
        else:
            target = run_of(k - 1)
            trio.from_thread.run(trio_level, k - 1, target, trio_token=tokens[target])

    async def main_b():
        box["b_shutdown"] = trio.Event()
        stops["B"] = trio.Event()
        tokens["B"] = trio.lowlevel.current_trio_token()
        async with trio.open_nursery() as nursery:
            nurseries["B"] = nursery
            b_ready.set()
            await box["b_shutdown"].wait()

    def quiesce_b():
        trio.from_thread.run(trio.testing.wait_all_tasks_blocked, trio_token=tokens["B"])

    async def main_a():
        box["arrived"] = trio.Event()
        stops["A"] = trio.Event()
        tokens["A"] = trio.lowlevel.current_trio_token()
        await trio.to_thread.run_sync(b_ready.wait)
        try:
            async with trio.open_nursery() as nursery:
                nurseries["A"] = nursery
                root = run_of(M)
                start = functools.partial(nurseries[root].start_soon, trio_level, M, root, name="chain")
                tokens[root].run_sync_soon(start)
                with trio.fail_after(20):
                    await box["arrived"].wait()
                await trio.to_thread.run_sync(quiesce_b)
                await trio.testing.wait_all_tasks_blocked()
                try:
                    with warnings.catch_warnings(record=True) as w:
                        warnings.simplefilter("always")
                        result["stack"] = stackscope.extract(result["task"], recurse_child_tasks=True)
                    result["warnings"] = [str(x.message)[:200] for x in w]
                finally:
                    release.set()
                    stops["A"].set()
                    tokens["B"].run_sync_soon(stops["B"].set)
        finally:
            tokens["B"].run_sync_soon(box["b_shutdown"].set)

    thread_b = threading.Thread(target=trio.run, args=(main_b,), daemon=True)
    thread_b.start()
    trio.run(main_a)
    thread_b.join(10)
    st = result.get("stack")
    res: Dict[str, Any] = {"warnings": result.get("warnings", []), "problems": []}
    if st is None:
        res["problems"].append("no stack extracted")
        return res
    if st.error is not None:
        res["problems"].append(f"error {st.error!r}")
    ours = [f.pyframe for f in st.frames if f.pyframe.f_code.co_name in ("trio_level", "thread_level")]
    names = lambda fs: [f"{f.f_code.co_name}({f.f_locals.get('k')})" for f in fs]
    if ours != expected:
        res["problems"].append(f"two Trio runs, plan {plan}, depth {M}: the chain's frames in the extracted stack {names(ours)} are not the real "
                               f"chain {names(expected)}")
    res["chain"] = names(expected)
    return res


def run_lazy(case) -> dict:
    """Fresh interpreter: stackscope imported before trio, the first extraction made at case['first']."""
    import os
    import subprocess
    from ..core import REPO, VERIF

    env = dict(os.environ, PYTHONPATH=f"{REPO}:{VERIF}")
    p = subprocess.run(["/venv/bin/python", str(VERIF / "harness" / "c14_lazy_worker.py"), case["first"]], stdout=subprocess.PIPE,
                       stderr=subprocess.PIPE, text=True, env=env, timeout=120)
    problems = []
    try:
        r = json.loads(p.stdout.strip().splitlines()[-1])
    except Exception:
        return {"problems": [f"worker exit {p.returncode}: {p.stderr[-300:]}"]}
    if not r.get("first_done"):
        problems.append("harness: the first extraction point was never reached")
    if r.get("kids") != r.get("want") or r.get("nurseries") != 1:
        problems.append(f"Trio glue first needed at '{case['first']}': the task's nursery shows child tasks {r.get('kids')} "
                        f"({r.get('nurseries')} nursery contexts); Trio says {r.get('want')}")
    if r.get("error"):
        problems.append(f"error {r['error']}")
    r["problems"] = problems
    return r


def run_deep(case) -> dict:
    """One task blocked inside k statically nested nurseries (optionally each wrapped in a cancel scope), each with one child."""
    import warnings

    import stackscope
    import trio

    k, wrap = case["k_"], case.get("wrap", False)
    lines = ["async def deep_task(trio, kid, box):"]
    ind = "    "
    for i in range(k):
        if wrap:
            lines.append(f"{ind}with trio.CancelScope():")
            ind += "    "
        lines.append(f"{ind}async with trio.open_nursery() as n{i}:")
        ind += "    "
        lines.append(f"{ind}n{i}.start_soon(kid, name='kid{i}')")
    lines.append(f"{ind}box['nurseries'] = [{', '.join(f'n{i}' for i in range(k))}]")
    lines.append(f"{ind}await trio.sleep_forever()")
    ns: dict = {}
    exec("\n".join(lines) + "\n", ns)
    res: dict = {}
    box: dict = {}

    async def kid():
        await trio.sleep_forever()

    async def main():
        async with trio.open_nursery() as outer:
            outer.start_soon(ns["deep_task"], trio, kid, box, name="deep")
            await trio.sleep(0.02)
            task = [t for t in outer.child_tasks if t.name == "deep"][0]
            with warnings.catch_warnings(record=True) as w:
                warnings.simplefilter("always")
                st = stackscope.extract(task, recurse_child_tasks=True)
            res["warnings"] = [str(x.message)[:200] for x in w]
            fr = [f for f in st.frames if f.funcname == "deep_task"]
            got = [c.obj for f in fr for c in f.contexts if isinstance(c.obj, trio.Nursery)]
            kids = [sorted(getattr(ch.root, "name", "?") for ch in c.children if isinstance(ch, stackscope.Stack))
                    for f in fr for c in f.contexts if isinstance(c.obj, trio.Nursery)]
            res["got"] = [box["nurseries"].index(n) if n in box["nurseries"] else -1 for n in got]
            res["kids"] = kids
            res["error"] = repr(st.error) if st.error is not None else None
            outer.cancel_scope.cancel()

    trio.run(main)
    problems = []
    if res.get("got") != list(range(k)):
        problems.append(f"a task inside {k} statically nested nurseries{' (each in a cancel scope)' if wrap else ''}: its frame shows the "
                        f"nurseries {res.get('got')}, Trio says it has opened {list(range(k))}")
    elif res.get("kids") != [[f"kid{i}"] for i in range(k)]:
        problems.append(f"{k} nested nurseries: child tasks per nursery {res.get('kids')}")
    if res.get("error"):
        problems.append(f"error {res['error']}")
    res["problems"] = problems
    return res


def run_limiter(case) -> dict:
    """Sibling tasks share a thread limiter that is exhausted: a task whose to_thread.run_sync call is still queued for the
    limiter has no worker thread — its stack must not show another task's thread frames."""
    import stackscope
    import trio

    res: Dict[str, Any] = {}
    release = threading.Event()
    lim = trio.CapacityLimiter(case["capacity"])

    def held_fn():
        release.wait(10)

    async def worker():
        await trio.to_thread.run_sync(held_fn, limiter=lim, abandon_on_cancel=False)

    async def main():
        async with trio.open_nursery() as outer:
            for _ in range(case["tasks"]):
                outer.start_soon(worker)
            await trio.sleep(0.25)
            probs = []
            busy = queued = 0
            for t in list(outer.child_tasks):
                with warnings.catch_warnings(record=True):
                    warnings.simplefilter("always")
                    st = stackscope.extract(t, recurse_child_tasks=True)
                names = [f.funcname for f in st.frames]
                in_acquire = any("acquire" in n for n in names)
                if in_acquire:
                    queued += 1
                    # the task's own await chain, by hand: nothing else may be shown for a task that has no worker thread yet
                    own, o = [], t.coro
                    while o is not None:
                        fr = getattr(o, "cr_frame", None) or getattr(o, "gi_frame", None)
                        if fr is None:
                            break
                        own.append(fr)
                        o = getattr(o, "cr_await", None) if hasattr(o, "cr_await") else getattr(o, "gi_yieldfrom", None)
                    foreign = [f.funcname for f in st.frames if all(f.pyframe is not x for x in own)]
                    if "held_fn" in names or "wait" in names[names.index(next(n for n in names if "acquire" in n)):] or foreign:
                        probs.append(f"a task still queued for the thread limiter shows frames that are not on its own await chain "
                                     f"(another thread's): {foreign or names}")
                else:
                    busy += 1
                    if "held_fn" not in names:
                        probs.append(f"a task whose sync function is running in a worker thread does not show it: {names}")
                if st.error is not None:
                    probs.append(f"error {st.error!r}")
            res["problems"] = probs
            res["busy"], res["queued"] = busy, queued
            release.set()
            outer.cancel_scope.cancel()

    trio.run(main)
    return res


class C14(PropCheck):
    pid = "C14"
    real_time_limit = 60.0
    rule = ("task trees of depth/fan-out <= 2 (quick) / <= 3 (thorough), each task with 0-2 nested nurseries whose bodies end in "
            "{plain, try/except, try/finally, conditional return}, blocked in the body or in __aexit__; to_thread/from_thread "
            "chains of depth 0..3, also across TWO Trio runs with explicit trio_token (same / alternating / remote run); a quarter of the trees are extracted while another thread is inside an extraction with the opposite options; non-trivial = at least one nursery with a child / one hop")
    manifest = {
        "text": "Lean: C14_iso (with recurse_child_tasks the extracted tree determines the task tree: every open nursery once, in nesting order, exactly its child tasks as children, recursively, any depth and fan-out), C14_children_are_child_tasks (one child per child task, in order, with or without recursion), C14_stub (without recursion every child is a frameless stub). These are about the nursery/child-task recursion of the trio glue given that the frame layer reports one context per open nursery (C01's conclusion). The frame layer on real Trio frames, the absence of errors and warnings, and the to_thread/from_thread hops are decided by the oracle on real Trio runs.",
        "note": "Partial: Trio's internals (NurseryManager._nursery, child_tasks, the locals read by the thread-hop elaborators) are third-party state; the hop alternation has no Lean model. Nursery bodies ending in try/except or a conditional return while blocked in __aexit__ hit known finding F2 (InspectionWarning) on CPython 3.12.",
    }
    assumptions = ["trio 0.34 internals as installed in /venv"]

    def setup(self):
        from ..core import load_known

        self.f2_known = any(k["id"] == "F2" and k.get("status") == "known" for k in load_known())

    def cases(self, rng, tier):
        out = []
        # (first: while no idle worker threads cached by earlier Trio runs are around, the worker-thread lookup has only the
        # threads of this scenario to choose from)
        for cap, tasks in ((1, 3), (2, 5), (1, 2)):
            out.append({"k": "limiter", "capacity": cap, "tasks": tasks})
        n = 40 if tier == "quick" else 400
        d = 2 if tier == "quick" else 3
        for i in range(n):
            out.append({"k": "tree", "tree": rand_tree(rng, rng.randint(1, d), rng.randint(1, d)), "concurrent": i % 4 == 3})
            if i % 4 == 1:
                # the same when the bytecode analysis is unavailable (referents fallback): nurseries are found through the
                # coroutine that owns each frame
                out[-1]["mode"] = "referents"
        for plan in ("same", "cross", "remote"):
            for m in ((1, 2) if tier == "quick" else (1, 2, 3)):
                out.append({"k": "two_runs", "plan": plan, "hops": m, "end_in_thread": (m + len(plan)) % 2 == 0})
        # one frame holding many nurseries (the number of blocks a frame may hold is bounded by the compiler only)
        for k, wrap in ((11, False), (13, False), (18, False), (7, True)):
            out.append({"k": "deep", "k_": k, "wrap": wrap})
        # the Trio glue is installed by the first extraction after `import trio`, wherever that happens (fresh interpreters)
        for first in ("outside", "before_run", "before_io_wait", "after_task_step", "task", "thread", "racing_thread"):
            out.append({"k": "lazy", "first": first})
        for m in list(range(0, 4)) + [21, 22]:        # > 100 non-frame items on one stack: the loop guard must not fire
            out.append({"k": "hops", "hops": m})
        return out

    def known_witnesses(self):
        t = {"nurseries": [{"children": [{"nurseries": [], "block": "body"}], "end": "try_except"}], "block": "aexit"}
        return [{"id": "F2", "case": {"k": "tree", "tree": t, "witness": "F2"}}]

    def run_real(self, case):
        if case["k"] == "limiter":
            return run_limiter(case)
        if case["k"] == "tree":
            return run_tree(json.loads(json.dumps(case)))
        if case["k"] == "two_runs":
            return run_two_runs(case)
        if case["k"] == "lazy":
            return run_lazy(case)
        if case["k"] == "deep":
            return run_deep(case)
        return run_hops(case)

    def model_line(self, case):
        return None

    def canon(self, case, real):
        return json.dumps(real, sort_keys=True, default=str)

    def oracle(self, case, real):
        if not isinstance(real, dict):
            return None
        probs = list(real.get("problems") or [])
        ws = real.get("warnings") or []
        f2 = [w for w in ws if "couldn't find an exception table entry" in w or "Inspection trickery failed" in w]
        other = [w for w in ws if w not in f2]
        if case.get("witness") == "F2":
            return ("InspectionWarning while a task is blocked in a nursery __aexit__ after a try/except body: " + f2[0]) if f2 else None
        if f2 and self.f2_known and case["k"] == "tree":
            # listed known finding F2 (replayed through its own witness): on such a frame the analysis falls back and the
            # tree below it is degraded as a consequence; nothing else is judged on this case
            return None
        if f2:
            probs.append("warning: " + f2[0])
        if other:
            probs.append("warning: " + other[0])
        if case["k"] == "hops":
            if real.get("error"):
                probs.append(f"error {real['error']}")
            if real.get("mine") != real.get("want"):
                probs.append(f"thread hops depth {case['hops']}: visible frames {real.get('mine')}, expected {real.get('want')} (all: {real.get('visible')})")
        return "; ".join(probs[:3])[:900] if probs else None

    def nontrivial_key(self, case, real):
        s = json.dumps(case, sort_keys=True)
        if '"children": [{' in s or case.get("hops", 0) > 0 or case["k"] in ("lazy", "deep"):
            return s
        return None

    def stats(self, cases, reals):
        d = {"trees": 0, "hops": 0, "f2_warnings": 0, "by_end": {}, "blocked_in_aexit": 0}
        for c, r in zip(cases, reals):
            if c["k"] == "tree":
                d["trees"] += 1
                s = json.dumps(c)
                for e in BODY_ENDS:
                    d["by_end"][e] = d["by_end"].get(e, 0) + s.count(f'"end": "{e}"')
                d["blocked_in_aexit"] += s.count('"block": "aexit"')
                if isinstance(r, dict):
                    d["f2_warnings"] += sum("exception table entry" in w or "trickery failed" in w for w in r.get("warnings", []))
            else:
                d["hops"] += 1
        d["two_runs"] = sum(c["k"] == "two_runs" for c in cases)
        d["with_concurrent_extraction_on_another_thread"] = sum(bool(c.get("concurrent")) for c in cases)
        return d


CHECK = C14()
