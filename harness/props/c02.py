"""C02 — contexts of a frame running on the calling thread are exact, also mid-enter / mid-exit.

The C01 program space, run as plain functions, generators, coroutines and async generators, with probes
at call sites inside the body and inside every __enter__ / __exit__ / __aenter__ / __aexit__ invocation of
the instrumented managers.  Each probe extracts the calling thread's stack from the program's frame
inward (the frame is *running*) and compares Frame.contexts with the managers' event log: the manager
being entered is not yet listed; the one being exited is listed last, is_exiting, with obj the manager
itself — whether the exit was triggered by fall-through, return, break, continue or an exception.
"""
from __future__ import annotations

import contextlib
import io
import json
import random
import sys
import warnings
from typing import Any, Dict, List, Optional

from .. import progs
from ..core import PropCheck


def observe_running(w: progs.World, label: str, problems: List[str], records: List[dict]):
    import stackscope
    from stackscope import lowlevel

    f = sys._getframe(1)
    while f is not None and f.f_code.co_name != "prog":
        f = f.f_back
    if f is None:
        problems.append("probe could not find the program frame")
        return
    truth = w.truth()
    ids = {id(m): k for k, m in w.mgrs.items()}
    with warnings.catch_warnings(record=True) as caught, contextlib.redirect_stderr(io.StringIO()):
        warnings.simplefilter("always")
        st = stackscope.extract(stackscope.StackSlice(outer=f))
    if not st.frames or st.frames[0].pyframe is not f:
        problems.append(f"{label}: the running program frame is not the first frame of the slice (error {st.error!r})")
        return
    ctxs = st.frames[0].contexts
    got = [(ids.get(id(c.obj), "?" if c.obj is not None else None), c.is_async, c.is_exiting) for c in ctxs]
    want = [(mid, type(w.mgrs[mid]).__name__ == "AMgr", ex) for mid, ex in truth]
    from stackscope._lowlevel import InspectionWarning

    ws = [str(x.message)[:160] for x in caught if issubclass(x.category, InspectionWarning)]
    records.append({"label": label, "lasti": f.f_lasti, "got": got})
    if got != want:
        problems.append(f"{label} (f_lasti={f.f_lasti}): contexts {got}, the event log says {want}")
    if ws:
        problems.append(f"{label}: InspectionWarning {ws[0]}")


class C02(PropCheck):
    pid = "C02"
    real_time_limit = 60.0
    rule = ("the C01 program generator with probe calls in the body and inside every manager method, as plain function, running "
            "generator, running coroutine and running async generator; 3 (quick) / 8 (thorough) choice lists per program; "
            "non-trivial = a probe fired inside __exit__/__aexit__ or with a manager active; distinct = (program, choices)")
    manifest = {
        "text": "Lean (shared with C01, file SSProps/C01.lean and SSProps/C02.lean): the table walk and the join, plus C02_first_cover (for a running frame the value stack is trimmed to the depth of the first table entry covering f_lasti, 0 if none — a pure table lookup), C02_trim_keeps_exits (every with-handler on the chain from f_lasti has level <= the trim depth when the table is nested properly, so trimming never loses a manager), C02_exiting_send_cache (the matcher recognises an __aexit__ in progress also when f_lasti rests on SEND's inline cache entry: the repaired F1). The exactness claim for compiler output is measured: probes inside the body and inside every __enter__/__exit__/__aenter__/__aexit__ of generated programs, all four frame kinds, compared with the event log.",
        "note": "Partial (as C01): no proof that CPython only emits code on which the chain equals the event-log truth. `obj` of an exiting manager is read from the next frame's first argument: known finding F12 (an __aexit__ that delegates to a foreign coroutine) is outside the generated space.",
    }
    assumptions = ["f_lasti of a running frame rests on the last code unit of the executing instruction (3.12)"]

    def cases(self, rng, tier):
        out = []
        n = 200 if tier == "quick" else 2500
        dmax = 3 if tier == "quick" else 4
        reps = 3 if tier == "quick" else 8
        for _ in range(n):
            kind = rng.choice(progs.KINDS)
            seed = rng.randrange(1 << 30)
            depth = rng.randint(1, dmax)
            for _ in range(reps):
                out.append({"k": "prog", "kind": kind, "pseed": seed, "depth": depth,
                            "choices": [rng.randrange(6) for _ in range(rng.randint(0, 14))]})
        return out

    def run_real(self, case):
        src = progs.gen_program(random.Random(case["pseed"]), case["kind"], case["depth"], probes=True)
        case["_src"] = src
        probs: List[str] = []
        recs: List[dict] = []

        def obs(w, label):
            if label != "suspended":
                try:
                    observe_running(w, label, probs, recs)
                except Exception as e:      # must not leak into the program being observed
                    probs.append(f"{label}: observing the running frame raised {type(e).__name__}: {e}")

        progs.run_program(src, case["kind"], case["choices"], obs)
        self._probs = probs
        case["_obs"] = len(recs)
        case["_in_exit"] = sum("exit" in r["label"] for r in recs)
        return json.dumps([[r["label"], r["lasti"], r["got"]] for r in recs])

    def model_line(self, case):
        return None

    def canon(self, case, real):
        return real

    def oracle(self, case, real):
        probs = self._all.get(id(case)) or []
        return "; ".join(probs[:2])[:900] if probs else None

    def nontrivial_key(self, case, real):
        if case.get("_in_exit", 0) > 0 or (isinstance(real, str) and "true" in real):
            return json.dumps({k: v for k, v in case.items() if not k.startswith("_")}, sort_keys=True)
        return None

    def stats(self, cases, reals):
        d = {"runs": len(cases), "probes": 0, "probes_in_exit": 0, "by_kind": {}}
        for c in cases:
            d["probes"] += c.get("_obs", 0)
            d["probes_in_exit"] += c.get("_in_exit", 0)
            d["by_kind"][c["kind"]] = d["by_kind"].get(c["kind"], 0) + 1
        return d


_orig = C02.run_real


def _run(self, case):
    if not hasattr(self, "_all"):
        self._all = {}
    self._probs = []
    r = _orig(self, case)
    self._all[id(case)] = list(self._probs)
    return r


C02.run_real = _run  # type: ignore[assignment]
CHECK = C02()
