"""C02 — contexts of a frame running on the calling thread are exact, also mid-enter / mid-exit.

The C01 program space, run as plain functions, generators, coroutines and async generators, with probes
at call sites inside the body and inside every __enter__ / __exit__ / __aenter__ / __aexit__ invocation of
the instrumented managers.  Each probe extracts the calling thread's stack from the program's frame
inward (the frame is *running*) and compares Frame.contexts with the managers' event log: the manager
being entered is not yet listed; the one being exited is listed last, is_exiting, with obj the manager
itself — whether the exit was triggered by fall-through, return, break, continue or an exception.
"""
from __future__ import annotations

import contextlib
import io
import json
import random
import sys
import warnings
from typing import Any, Dict, List, Optional

from .. import progs
from ..core import PropCheck


def observe_running(w: progs.World, label: str, problems: List[str], records: List[dict]):
    import stackscope
    from stackscope import lowlevel

    f = sys._getframe(1)
    while f is not None and f.f_code.co_name != "prog":
        f = f.f_back
    if f is None:
        problems.append("probe could not find the program frame")
        return
    truth = w.truth()
    ids = {id(m): k for k, m in w.mgrs.items()}
    with warnings.catch_warnings(record=True) as caught, contextlib.redirect_stderr(io.StringIO()):
        warnings.simplefilter("always")
        st = stackscope.extract(stackscope.StackSlice(outer=f))
    if not st.frames or st.frames[0].pyframe is not f:
        problems.append(f"{label}: the running program frame is not the first frame of the slice (error {st.error!r})")
        return
    ctxs = st.frames[0].contexts
    got = [(ids.get(id(c.obj), "?" if c.obj is not None else None), c.is_async, c.is_exiting) for c in ctxs]
    want = [(mid, type(w.mgrs[mid]).__name__.endswith("AMgr"), ex) for mid, ex in truth]
    from stackscope._lowlevel import InspectionWarning

    ws = [str(x.message)[:160] for x in caught if issubclass(x.category, InspectionWarning)]
    # metadata: the `as` target recorded by the generated source (None when the item has none) — also for an exiting context
    if not ws:
        tof = getattr(w, "target_of", {})
        for c in ctxs:
            if c.obj is not None and id(c.obj) in tof and type(c.obj).__name__ in ("Mgr", "AMgr") and c.varname != tof[id(c.obj)]:
                problems.append(f"{label} (f_lasti={f.f_lasti}): varname {c.varname!r} for manager "
                                f"{ids.get(id(c.obj))} (exiting={c.is_exiting}), the source says {tof[id(c.obj)]!r}")
    try:
        det = lowlevel.inspect_frame(f)
        blocks, depth = [[b.handler, b.level] for b in det.blocks], len(det.stack)
        from stackscope import _lowlevel_cpython_311 as impl

        if impl.FrameObject.from_address(id(f)).f_frame.contents.stacktop != -1:
            depth = None       # the frame made an inlined call: its stack pointer is saved, nothing is trimmed
    except Exception as e:
        blocks, depth = None, None
        problems.append(f"{label}: inspect_frame raised {type(e).__name__}: {e}")
    records.append({"label": label, "lasti": f.f_lasti, "got": got, "blocks": blocks, "depth": depth, "code": f.f_code})
    if got != want:
        problems.append(f"{label} (f_lasti={f.f_lasti}): contexts {got}, the event log says {want}")
    if ws:
        problems.append(f"{label}: InspectionWarning {ws[0]}")


async def _ready(s):
    return s


class C02(PropCheck):
    pid = "C02"
    real_time_limit = 60.0
    rule = ("the C01 program generator with probe calls in the body and inside every manager method, as plain function, running "
            "generator, running coroutine and running async generator; 3 (quick) / 8 (thorough) choice lists per program; "
            "non-trivial = a probe fired inside __exit__/__aexit__ or with a manager active; distinct = (program, choices)")
    manifest = {
        "text": "Lean (M-A, shared with C01): C02_first_cover (for a frame whose stack pointer is not saved the value stack is trimmed at the depth of the first table entry covering f_lasti, 0 if none — and that is exactly the depth the interpreter itself would pop the stack to if an exception were raised there, so every slot below it is live), C02_no_handler_empty, C02_innermost_level and C02_innermost_slot_in_range (the innermost block of the walk sits exactly at the trim depth: its slot is the last one of the trimmed stack). Tie: for every probe point the real inspect_frame's blocks and, when the interpreter frame's stacktop is -1, the length of the stack it read are compared with the model's walk and firstCover on the real table bytes. The exactness claim for compiler output is measured: probes inside the body and inside every __enter__/__exit__/__aenter__/__aexit__ of generated programs, all four frame kinds, compared with the event log. C02_exiting_obj (the manager of an exiting entry: for every parameter list of the exit method -- positional, keyword-only, star -- if the exit call binds at all the lookup finds the object it was called on), C02_exiting_obj_deleted (an exit method that unbound its own first name gives None, not another object), C02_F56_old_code_witness (args.args[0] of inspect.getargvalues is a keyword-only name when there is no named positional parameter: the value of `note`, or nothing). Tie: exit methods with every parameter-list shape (0/1/2/4 positional x keyword-only x star x `del self`), sync (probed while running) and async (suspended), vs the model.",
        "note": "Partial (as C01): no proof that CPython only emits code on which the chain equals the event-log truth, nor that the levels of outer with-handlers lie below the trim depth. `obj` of an exiting manager is read from the next frame's first argument: an __aexit__ that delegates to a foreign coroutine (F12, undecided) is outside the generated space. F1 (SEND inline cache) was repaired in /repo.",
    }
    assumptions = ["f_lasti of a running frame rests on the last code unit of the executing instruction (3.12)"]

    def cases(self, rng, tier):
        out = []
        n = 200 if tier == "quick" else 2500
        dmax = 3 if tier == "quick" else 4
        reps = 3 if tier == "quick" else 8
        for _ in range(n):
            kind = rng.choice(progs.KINDS)
            seed = rng.randrange(1 << 30)
            depth = rng.randint(1, dmax)
            for _ in range(reps):
                out.append({"k": "prog", "kind": kind, "pseed": seed, "depth": depth,
                            "choices": [rng.randrange(6) for _ in range(rng.randint(0, 14))]})
        for ci, (kind, _src) in enumerate(progs.CORPUS):
            if True:
                for ch in ([], [1], [0, 1], [1, 0, 1], [0, 0, 1, 1], [1, 1, 0, 1, 0], [0, 1, 1, 0, 1, 1]):
                    out.append({"k": "prog", "kind": kind, "corpus": ci, "pseed": 0, "depth": 0, "choices": ch})
        # every shape of the exit method's parameter list (where the manager is looked up when an exit is in progress)
        for pos in ([], ["s"], ["s", "et"], ["s", "et", "ev", "tb"]):
            for kwo in ([], ["note"]):
                for va in (("rest",) if len(pos) < 4 else ("rest", None)):
                    for deleted in ((False, True) if pos else (False,)):
                        for is_async in (False, True):
                            out.append({"k": "exitsig", "positional": pos, "kwonly": kwo, "varargs": va, "deleted": deleted, "async": is_async})
        return out

    def run_exitsig(self, case):
        """The exit method has the given parameter list; the exit call is in progress (sync: probed from inside it while it runs;
        async: suspended in it); the exiting entry's obj must be the manager, or None if the method has unbound its own first name."""
        import stackscope

        pos, kwo, va, deleted = case["positional"], case["kwonly"], case["varargs"], case["deleted"]
        params = list(pos) + (["*" + va] if va else (["*"] if kwo else [])) + [f"{k}=KWD[{i}]" for i, k in enumerate(kwo)]
        is_async = case["async"]
        body = [f"    del {pos[0]}"] if (deleted and pos) else []
        if is_async:
            body += ["    await trap()"]
        else:
            body += ["    box['st'] = stackscope.extract(stackscope.StackSlice(), with_contexts=True)"]
        src = (("async " if is_async else "") + f"def exit_fn({', '.join(params)}):\n" + "\n".join(body) + "\n    return False\n")
        box: dict = {}
        ns = {"KWD": [object() for _ in kwo], "box": box, "stackscope": stackscope, "trap": progs.trap if hasattr(progs, "trap") else None}
        if ns["trap"] is None:
            import types as _t

            @_t.coroutine
            def _trap():
                yield
            ns["trap"] = _trap
        exec(src, ns)
        if is_async:
            cls = type("AM", (), {"__aenter__": (lambda s: _ready(s)), "__aexit__": ns["exit_fn"]})
        else:
            cls = type("M", (), {"__enter__": (lambda s: s), "__exit__": ns["exit_fn"]})
        m = cls()
        probs: List[str] = []
        try:
            if is_async:
                async def user():
                    async with m:
                        pass
                c = user()
                c.send(None)
                st = stackscope.extract(c)
                fr = [f for f in st.frames if f.funcname == "user"]
                c.close()
            else:
                def user():
                    with m:
                        pass
                user()
                fr = [f for f in box["st"].frames if f.funcname == "user"]
        except TypeError as e:
            self._probs = []
            return "typeerror"
        if not fr or not fr[0].contexts or not fr[0].contexts[-1].is_exiting:
            probs.append(f"exit method ({', '.join(params)}): no exiting entry found on the with frame")
            self._probs = probs
            return "?"
        obj = fr[0].contexts[-1].obj
        out = "self" if obj is m else "none" if obj is None else "other"
        if out == "other" or (out == "none" and not (deleted and pos)):
            probs.append(f"exit method ({', '.join(params)}){' after del ' + pos[0] if deleted and pos else ''}: the exiting entry's obj is "
                         f"{obj!r}, the exit in progress was called on {m!r}")
        self._probs = probs
        return out

    def run_real(self, case):
        if case["k"] == "exitsig":
            return self.run_exitsig(case)
        src = progs.CORPUS[case["corpus"]][1] if "corpus" in case else progs.gen_program(random.Random(case["pseed"]), case["kind"], case["depth"], probes=True)
        case["_src"] = src
        probs: List[str] = []
        recs: List[dict] = []

        def obs(w, label):
            if label != "suspended":
                try:
                    observe_running(w, label, probs, recs)
                except Exception as e:      # must not leak into the program being observed
                    probs.append(f"{label}: observing the running frame raised {type(e).__name__}: {e}")

        progs.run_program(src, case["kind"], case["choices"], obs)
        self._probs = probs
        case["_obs"] = len(recs)
        if recs:
            code = recs[0]["code"]
            case["_facts"] = progs.table_facts(code)
            seen = {}
            for r in recs:
                if r["blocks"] is not None and r["code"] is code:
                    seen.setdefault(r["lasti"], (r["blocks"], r["depth"]))
            case["_points"] = [(l, dp is not None, bl, dp) for l, (bl, dp) in sorted(seen.items())]
            if not case["_facts"]["disjoint"]:
                probs.append("the code object's exception table is not sorted / disjoint: the hypothesis of C02_first_cover is not met")
        case["_in_exit"] = sum("exit" in r["label"] for r in recs)
        return json.dumps([[r["label"], r["lasti"], r["got"]] for r in recs])

    def model_line(self, case):
        if case["k"] == "exitsig":
            return json.dumps({"p": "C01", "k": "exitself", "positional": case["positional"], "kwonly": case["kwonly"],
                               **({"varargs": case["varargs"]} if case["varargs"] else {}), "deleted": bool(case["deleted"] and case["positional"])})
        if "_facts" not in case:
            return None
        return progs.table_model_line(case["_facts"], [(l, r) for l, r, _, _ in case["_points"]])

    def canon(self, case, real):
        if case["k"] == "exitsig":
            return real if real in ("self", "none", "typeerror") else "other:?"
        if "_facts" not in case:
            return real
        return progs.table_expected(case["_facts"], case["_points"])

    def oracle(self, case, real):
        probs = self._all.get(id(case)) or []
        return "; ".join(probs[:2])[:900] if probs else None

    def nontrivial_key(self, case, real):
        if case["k"] == "exitsig":
            return json.dumps(case, sort_keys=True)
        if case.get("_in_exit", 0) > 0 or (isinstance(real, str) and "true" in real):
            return json.dumps({k: v for k, v in case.items() if not k.startswith("_")}, sort_keys=True)
        return None

    def stats(self, cases, reals):
        d = {"runs": len(cases), "probes": 0, "probes_in_exit": 0, "by_kind": {},
             "tables_compared": sum("_facts" in c for c in cases), "trim_depths_compared": sum(sum(1 for p in c.get("_points", []) if p[1]) for c in cases),
             "walks_compared": sum(len(c.get("_points", [])) for c in cases)}
        d["exit_signatures"] = sum(c["k"] == "exitsig" for c in cases)
        for c in cases:
            if c["k"] == "exitsig":
                continue
            d["probes"] += c.get("_obs", 0)
            d["probes_in_exit"] += c.get("_in_exit", 0)
            d["by_kind"][c["kind"]] = d["by_kind"].get(c["kind"], 0) + 1
        return d


_orig = C02.run_real


def _run(self, case):
    if not hasattr(self, "_all"):
        self._all = {}
    self._probs = []
    r = _orig(self, case)
    self._all[id(case)] = list(self._probs)
    return r


C02.run_real = _run  # type: ignore[assignment]
CHECK = C02()
