"""C10 — frame hooks: unwrap to a fixpoint; elaborate_frame edits only the inward rest.

Correspondence: generated hook environments (synthetic stack-item types registered through the
public API, real suspended generators as frames) are extracted by the real stackscope and by the
Lean model `SS.Extract.extract`; frames (with origin and hide flag), leaf and errors are compared.
Oracle: a Python reference interpretation of the documented rules on ONE pending list (DESIGN §4
C10), written independently of the two-deque implementation and of the Lean model.
"""
from __future__ import annotations

import itertools
import json
import random
from typing import Any, List, Optional

from ..core import PropCheck
from ..envs import World

GUARD = 100


# ------------------------------------------------------------------------------------------
# generation
# ------------------------------------------------------------------------------------------

def rand_env(rng: random.Random, n_things: int, n_frames: int, n_gens: int, cyc: float = 0.0,
             branching_cycles: bool = False, view_dep: float = 0.2) -> dict:
    """ids: things 0..T-1, frames T..T+F-1, gens after that (each owning a distinct frame)."""
    T, F, G = n_things, n_frames, min(n_gens, n_frames)
    things = list(range(T))
    frames = list(range(T, T + F))
    gens = list(range(T + F, T + F + G))
    owned = dict(zip(gens, rng.sample(frames, G)))
    allids = things + frames + gens
    items = []

    def pick(after: int, allow_back: bool):
        # prefer ids that cannot form a cycle: frames always fine; things/gens with larger id
        cands = list(frames) + [t for t in things if t > after] + [g for g in gens if g > after]
        if allow_back and rng.random() < cyc:
            cands = allids
        if not cands:
            return rng.choice(frames) if frames else None
        return rng.choice(cands)

    for t in things:
        kind = rng.choice(["thing", "thing", "thing", "thingnw"])
        tag = rng.choice(["none", "one", "tuple", "list", "iter", "tuple", "raise"])
        if tag == "none":
            uw = None
        elif tag == "raise":
            uw = ["raise", rng.randrange(1, 50)] if rng.random() < 0.5 else None
        elif tag == "one":
            uw = ["one", pick(t, True)]
            if uw[1] is None:
                uw = None
        else:
            n = rng.choice([0, 1, 1, 2, 2, 3])
            elems = []
            for _ in range(n):
                if rng.random() < 0.08:
                    elems.append(None)
                else:
                    # a back edge inside a multi-element result is a *branching* cycle (F9): avoid unless asked
                    elems.append(pick(t, branching_cycles or n == 1))
            if tag == "iter":
                uw = ["iter", elems, rng.randrange(50, 99) if rng.random() < 0.25 else None]
            else:
                uw = [tag, elems]
        items.append({"id": t, "kind": kind, "uw": uw})

    def rand_elab(f: int):
        r = rng.random()
        if r < 0.35:
            return None
        if r < 0.5:
            return ["seq", []]  # PRUNE
        if r < 0.55:
            return ["raise", rng.randrange(100, 150)]

        def elem():
            q = rng.random()
            if q < 0.06:
                return None
            cands = [x for x in frames if x > f] + things + [g for g in gens]
            if not cands:
                return None
            return rng.choice(cands)

        if r < 0.65:
            e = rng.choice([elem(), "next"]) if rng.random() < 0.3 else elem()
            return None if e is None else ["one", e]
        n = rng.choice([1, 1, 2, 2, 3])
        es = [elem() for _ in range(n)]
        if rng.random() < 0.5:
            es.append("next")       # insert-before
        elif rng.random() < 0.15:
            es.insert(0, "next")    # next_inner not last: a replacement
        return ["seq", es]

    for f in frames:
        if rng.random() < view_dep:
            el: Any = {"none": rand_elab(f), "leaf": rand_elab(f), "frame": rand_elab(f)}
        else:
            el = rand_elab(f)
        items.append({"id": f, "kind": "frame", "el": el, "hide": rng.random() < 0.2})
    for g in gens:
        yf = None
        if rng.random() < 0.6:
            cands = [t for t in things] + [h for h in gens if h > g]
            yf = rng.choice(cands) if cands else None
        items.append({"id": g, "kind": "gen", "frame": owned[g], "yf": yf})
    root = rng.choice(things + gens) if (things or gens) else frames[0]
    return {"k": "env", "x": root, "wc": False, "items": items}


def exhaustive_tables() -> List[dict]:
    """Two things, three frames; all unwrap shapes for the root x all elaborate shapes for the first
    two frames, including prunes from frames that were themselves inserted."""
    out = []
    # ids: 0 root thing, 1 thing, 2,3,4 frames
    uws = [None, ["one", 2], ["tuple", [2, 3, 4]], ["list", [2, 1, 4]], ["iter", [2, 3], None], ["iter", [2, 3], 7],
           ["tuple", []], ["tuple", [2, None, 3]], ["tuple", [1, 2]], ["raise", 5]]
    uw1s = [None, ["tuple", [3, 4]], ["one", 4], ["tuple", []]]
    els = [None, ["seq", []], ["one", 4], ["one", 1], ["seq", [4, "next"]], ["seq", [1, "next"]], ["seq", ["next"]],
           ["one", "next"], ["seq", [4]], ["seq", ["next", 4]], ["raise", 9], ["seq", [1]], ["seq", [None, "next"]]]
    for uw, uw1, e2, e3 in itertools.product(uws, uw1s, els, els):
        items = [{"id": 0, "kind": "thing", "uw": uw}, {"id": 1, "kind": "thing", "uw": uw1},
                 {"id": 2, "kind": "frame", "el": e2, "hide": False},
                 {"id": 3, "kind": "frame", "el": e3, "hide": False},
                 {"id": 4, "kind": "frame", "el": ["seq", []] if (e2 and e2[0] != "raise" and 4 in (e2[1] if isinstance(e2[1], list) else [e2[1]])) else None, "hide": False}]
        out.append({"k": "env", "x": 0, "wc": False, "items": items})
    return out


def nested_tables() -> List[dict]:
    """root -> [W1, G, W2] with W1 -> (F, K) and W2 -> (H[, J]): nested parts separated by an outward sibling, every
    elaborate outcome on F, K, G and H (a prune or replacement from a nested frame must stop at its own nesting)."""
    out = []
    els = [None, ["seq", []], ["one", 15], ["seq", [15, "next"]], ["raise", 9]]
    for w2 in ([13], [13, 14]):
        for eF, eK, eG, eH in itertools.product(els, repeat=4):
            items = [{"id": 0, "kind": "thing", "uw": ["tuple", [1, 12, 2]]},
                     {"id": 1, "kind": "thing", "uw": ["tuple", [10, 11]]},
                     {"id": 2, "kind": "thing", "uw": ["tuple", w2]},
                     {"id": 10, "kind": "frame", "el": eF, "hide": False}, {"id": 11, "kind": "frame", "el": eK, "hide": False},
                     {"id": 12, "kind": "frame", "el": eG, "hide": False}, {"id": 13, "kind": "frame", "el": eH, "hide": False},
                     {"id": 14, "kind": "frame", "el": None, "hide": False}, {"id": 15, "kind": "frame", "el": None, "hide": False}]
            out.append({"k": "env", "x": 0, "wc": False, "items": items})
    return out


def outward_next_tables() -> List[dict]:
    """root -> [W1, G, H] (or [W1, G, W2], W2 -> (H, J)) with W1 -> (F,): the frame that follows F is an OUTWARD sibling of its
    wrapper.  Every elaborate outcome on F (in particular insert-before-next_inner), on the inserted frame I, and on G: an
    insertion made from the deeper frame must not change how far a later prune reaches."""
    out = []
    els = [None, ["seq", []], ["one", 15], ["seq", [15, "next"]], ["raise", 9]]
    for tail in ([13], [2]):
        for eF, eI, eG in itertools.product(els[:4], [None, ["seq", []], ["one", 16], ["seq", [16, "next"]]], els):
            items = [{"id": 0, "kind": "thing", "uw": ["tuple", [1, 12] + tail]},
                     {"id": 1, "kind": "thing", "uw": ["tuple", [10]]},
                     {"id": 2, "kind": "thing", "uw": ["tuple", [13, 14]]},
                     {"id": 10, "kind": "frame", "el": eF, "hide": False},
                     {"id": 12, "kind": "frame", "el": eG, "hide": False}, {"id": 13, "kind": "frame", "el": None, "hide": False},
                     {"id": 14, "kind": "frame", "el": None, "hide": False}, {"id": 15, "kind": "frame", "el": eI, "hide": False},
                     {"id": 16, "kind": "frame", "el": None, "hide": False}]
            out.append({"k": "env", "x": 0, "wc": False, "items": items})
    return out


def guard_cases() -> List[dict]:
    out = []
    # linear cycles of length 1..3 and long chains around the 100 threshold
    for n in (1, 2, 3):
        items = [{"id": i, "kind": "thing", "uw": ["one", (i + 1) % n]} for i in range(n)]
        out.append({"k": "env", "x": 0, "wc": False, "items": items})
        items = [{"id": i, "kind": "thing", "uw": ["tuple", [(i + 1) % n]]} for i in range(n)]
        out.append({"k": "env", "x": 0, "wc": False, "items": items + [{"id": 10, "kind": "frame", "el": None}]})
    for length in (99, 100, 101, 102, 150):
        items = [{"id": i, "kind": "thing", "uw": ["one", i + 1]} for i in range(length)]
        items.append({"id": length, "kind": "frame", "el": None})
        out.append({"k": "env", "x": 0, "wc": False, "items": items})
        # chain that ends in an irreducible thing
        items = [{"id": i, "kind": "thing", "uw": ["one", i + 1]} for i in range(length)]
        items.append({"id": length, "kind": "thing", "uw": None})
        out.append({"k": "env", "x": 0, "wc": False, "items": items})
    # many consecutive empties: the counter counts unwrap calls, not chain depth
    for n in (99, 100, 101, 120):
        items = [{"id": 0, "kind": "thing", "uw": ["tuple", list(range(1, n + 1)) + [500]]}]
        items += [{"id": i, "kind": "thing", "uw": ["tuple", []]} for i in range(1, n + 1)]
        items.append({"id": 500, "kind": "thing", "uw": ["one", 501]})
        items.append({"id": 501, "kind": "frame", "el": None})
        out.append({"k": "env", "x": 0, "wc": False, "items": items})
    # cycle reached from a frame's replacement
    items = [{"id": 0, "kind": "thing", "uw": ["tuple", [5, 6]]}, {"id": 5, "kind": "frame", "el": ["one", 1]},
             {"id": 6, "kind": "frame", "el": None}, {"id": 1, "kind": "thing", "uw": ["one", 2]},
             {"id": 2, "kind": "thing", "uw": ["one", 1]}]
    out.append({"k": "env", "x": 0, "wc": False, "items": items})
    return out


# ------------------------------------------------------------------------------------------
# reference interpretation of the documented rules (frames and leaf only)
# ------------------------------------------------------------------------------------------

class SpecDiverges(Exception):
    pass


def reference(case: dict, budget: int = 20000):
    """One pending list L of (depth, tok); tok = ('raw', id|None) | ('F', fid) | ('leaf', id|None).
    Returns (frame ids, leaf) with leaf = None | tok | [tok...]."""
    desc = {d["id"]: d for d in case["items"]}
    steps = 0

    def unwrap_of(i):
        d = desc.get(i)
        if d is None or i is None:
            return None
        if d["kind"] == "gen":
            return ["tuple", [d["frame"], d.get("yf")]]
        if d["kind"] == "frame":
            return "FRAME"
        return d.get("uw")

    def normalise(L, since):
        nonlocal steps
        work = list(L)
        res = []
        while work:
            steps += 1
            if steps > budget:
                raise SpecDiverges()
            d, t = work.pop(0)
            if t[0] == "F":
                res.append((d, t))
                since = 0
                continue
            i = t[1]
            uw = unwrap_of(i)
            if uw == "FRAME":
                res.append((d, ("F", i)))
                since = 0
                continue
            if uw is not None and uw[0] == "raise":
                res.append((d, ("leaf", i)))
                since = 0
                continue
            since += 1
            if since > GUARD or uw is None:
                res.append((d, ("leaf", i)))
                since = 0
                continue
            elems = [uw[1]] if uw[0] == "one" else list(uw[1])
            work = [(d + 1, ("raw", e)) for e in elems if e is not None] + work
        return res

    out: List[int] = []
    L = normalise([(0, ("raw", case["x"]))], 0)
    while True:
        if not L:
            return out, None
        d, t = L[0]
        if t[0] != "F":
            leaf = [("F", x[1]) if x[0] == "F" else x[1] for _, x in L]
            return out, (leaf if len(leaf) > 1 else leaf[0:1])
        f = t[1]
        tail = L[1:]
        out.append(f)
        if len(out) > 400:
            raise SpecDiverges()
        el = desc[f].get("el")
        if isinstance(el, dict):
            view = "none" if not tail or (tail[0][1][0] != "F" and tail[0][1][1] is None) else ("frame" if tail[0][1][0] == "F" else "leaf")
            el = el[view]
        if el is None:
            L = tail
            continue
        nxt_is_none = (not tail) or (tail[0][1][0] != "F" and tail[0][1][1] is None)
        if el[0] == "one" and (el[1] is None or (el[1] == "next" and nxt_is_none)):
            L = tail                  # the hook returned None
            continue
        if el[0] == "raise":
            elems: List[Any] = []
        elif el[0] == "one":
            elems = [el[1]]
        else:
            elems = list(el[1])
        nxt = tail[0][1] if tail else None   # None means next_inner is Python None

        def is_next(e):
            if e == "next":
                return True
            if nxt is None or (nxt[0] != "F" and nxt[1] is None):
                return e is None            # next_inner is None: a trailing None *is* next_inner
            if nxt[0] != "F":
                return e == nxt[1] and e is not None   # the same leaf object
            return False

        def tok(e):
            if e == "next":
                return nxt if nxt is not None else ("raw", None)
            return ("raw", e)

        if elems and is_next(elems[-1]):
            new = [(d, tok(e)) for e in elems[:-1]]          # insert before the rest, which is kept whole;
            rest = tail                                      # next_inner must not look deeper than this frame
            if rest:
                rest = [(min(d, rest[0][0]), rest[0][1])] + rest[1:]
        else:
            new = [(d, tok(e)) for e in elems]
            rest = tail
            while rest and rest[0][0] >= d:                  # prune this frame's callees only
                rest = rest[1:]
        # leaves are reducible again in principle; frames stay frames
        pend = [(dd, (("raw", x[1]) if x[0] == "leaf" else x)) for dd, x in new + rest]
        L = normalise(pend, 0)


def parse_canon(s: str):
    """frames=[..] leaf=.. errors=[..] -> (frame ids, leaf list or None)."""
    a = s.index("frames=[") + 8
    b = s.index("] leaf=")
    c = s.index(" errors=[")
    fr = [int(x.split(":")[0]) for x in s[a:b].split()] if s[a:b].strip() else []
    leaf = s[b + 7:c]
    if leaf == "None":
        lv = None
    elif leaf.startswith("["):
        lv = leaf[1:-1].split(",")
    else:
        lv = [leaf]
    return fr, lv


def show_tok(x):
    if isinstance(x, tuple) and x[0] == "F":
        return f"F{x[1]}"
    return "None" if x is None else f"i{x}"


class C10(PropCheck):
    pid = "C10"
    real_time_limit = 4.0
    rule = ("hook environments over synthetic item types and real generator frames: an exhaustive product of unwrap "
            "shapes x elaborate shapes on a 2-thing/3-frame skeleton, guard-threshold chains and cycles, plus random "
            "environments (3-9 items, acyclic and linear-cyclic); non-trivial = at least one elaborate hook returned "
            "a non-None result or an unwrap produced >1 element; distinct = distinct environment")
    manifest = {
        "text": "Lean theorems about a line-by-line model of extract_iter (two deques, depth, origin, the 100-step counter): the elaborate step keeps / prunes-locally / inserts exactly as documented (C10_keep, C10_prune_local, C10_prune_only_callees, C10_insert), emitted frames are never changed afterwards (C10_outward_untouched), the unwrap phase ends only with frames and irreducible leaves, a linear unwrap cycle ends with an error within a bounded number of steps (C10_linear_guard) and a branching one provably never returns (C10_F9_diverges, known finding F9). The model is diffed against the real extract() on generated hook tables, and a Python reference interpretation of the documented rules is the oracle.",
        "note": "Theorems are about the model. Hooks are modelled as pure tables (what they return per item / per frame and next_inner view); hooks with side effects on the queues are outside the model. Errors are compared by injected id.",
    }
    assumptions = ["hooks are pure functions of (item) / (frame, kind of next_inner)",
                   "functools.singledispatch type lookup is modelled as a function from item to hook result"]

    def cases(self, rng, tier):
        cand = guard_cases()
        ex = exhaustive_tables()
        if tier == "quick":
            ex = rng.sample(ex, 900)
        cand += ex
        nt = nested_tables()
        cand += nt if tier != "quick" else rng.sample(nt, 350)
        cand += outward_next_tables()
        n = 700 if tier == "quick" else 12000
        for _ in range(n):
            cand.append(rand_env(rng, rng.randint(1, 5), rng.randint(1, 4), rng.randint(0, 2),
                                 cyc=rng.choice([0, 0, 0.15, 0.3])))
        out = []
        self.discarded = 0
        for i, c in enumerate(cand):
            # hooks registered directly or through customize(elaborate=...); sequence results as tuples or as lists
            if i % 3 == 1:
                c["via"] = "customize"
            if i % 4 == 2:
                c["seq_as_list"] = True
            try:
                reference(c, budget=4000)   # elaborate hooks that re-create their own frame never end: not in the property's space
            except SpecDiverges:
                self.discarded += 1
                continue
            out.append(c)
        return out

    def run_real(self, case):
        import stackscope

        w = World(case)
        st = stackscope.extract(w.obj(case["x"]), with_contexts=case.get("wc", False))
        out = w.show_stack(st)
        # a second extraction of the same (unchanged) world gives the same answer: nothing the hooks own was altered by the first
        st2 = stackscope.extract(w.obj(case["x"]), with_contexts=case.get("wc", False))
        out2 = w.show_stack(st2)
        self._again = None if out2 == out else out2
        return out

    def canon(self, case, real):
        return real

    def model_line(self, case):
        d = dict(case)
        d["p"] = "C10"
        return json.dumps(d)

    def oracle(self, case, real) -> Optional[str]:
        if not isinstance(real, str) or not real.startswith("frames="):
            return f"extract did not return a Stack: {real!r}"[:300]
        again = self._agains.get(id(case)) if hasattr(self, "_agains") else None
        if again is not None:
            return f"a second extraction of the unchanged item tree differs from the first: {again} vs {real}"
        try:
            want_f, want_l = reference(case)
        except SpecDiverges:
            return None  # the documented rules themselves do not terminate here (unbounded elaboration)
        got_f, got_l = parse_canon(real)
        wl = None if want_l is None else [show_tok(x) for x in want_l]
        if wl == ["None"]:
            wl = None
        if got_l == ["None"]:
            got_l = None
        if want_f != got_f or wl != got_l:
            return f"frames/leaf differ from the reference interpretation of the documented rules: expected frames={want_f} leaf={wl}; observed frames={got_f} leaf={got_l}"
        return None

    def matches_known(self, k, case, real, failure):
        if k["id"] == "F9":
            # signature: some unwrap result contains two or more items that lead back to a cycle
            return "did not terminate" in failure and has_branching_cycle(case)
        return False

    def known_witnesses(self):
        return [{"id": "F9", "case": {"k": "env", "x": 0, "wc": False,
                                      "items": [{"id": 0, "kind": "thing", "uw": ["tuple", [0, 0]]}]}}]

    def nontrivial_key(self, case, real):
        s = json.dumps(case, sort_keys=True)
        if '"seq"' in s or '"one", ' in s or '"tuple", [' in s:
            return s
        return None

    def shrink(self, case, failing):
        """Greedy: drop items, then simplify hook results, while the oracle still fails."""
        cur = case
        changed = True
        while changed:
            changed = False
            for i in range(len(cur["items"])):
                if cur["items"][i]["id"] == cur["x"]:
                    continue
                cand = dict(cur)
                cand["items"] = cur["items"][:i] + cur["items"][i + 1:]
                ids = {d["id"] for d in cand["items"]}
                if any(d["kind"] == "gen" and d["frame"] not in ids for d in cand["items"]):
                    continue
                try:
                    if failing(cand):
                        cur = cand
                        changed = True
                        break
                except Exception:
                    pass
        return cur

    def stats(self, cases, reals):
        d = {"envs": len(cases), "with_gens": 0, "with_insert": 0, "with_prune": 0, "with_raise": 0, "with_iter": 0,
             "guard_fired": 0, "leaf_list": 0}
        for c, r in zip(cases, reals):
            s = json.dumps(c)
            d["with_gens"] += '"gen"' in s
            d["with_insert"] += '"next"]]' in s
            d["with_prune"] += '["seq", []]' in s
            d["with_raise"] += '"raise"' in s
            d["with_iter"] += '"iter"' in s
            if isinstance(r, str):
                d["guard_fired"] += "guard" in r
                d["leaf_list"] += "leaf=[" in r
        return d


def has_branching_cycle(case) -> bool:
    desc = {d["id"]: d for d in case["items"]}

    def succ(i):
        d = desc.get(i)
        if not d:
            return []
        if d["kind"] == "gen":
            return [x for x in (d["frame"], d.get("yf")) if x is not None]
        uw = d.get("uw") if d["kind"].startswith("thing") else None
        if not uw or uw[0] == "raise":
            return []
        return [uw[1]] if uw[0] == "one" else [x for x in uw[1] if x is not None]

    def reaches(a, b):
        seen, todo = set(), [a]
        while todo:
            x = todo.pop()
            for y in succ(x):
                if y == b:
                    return True
                if y not in seen:
                    seen.add(y)
                    todo.append(y)
        return False

    for i in desc:
        back = [y for y in succ(i) if y == i or reaches(y, i)]
        if len(back) >= 2:
            return True
    return False


_orig10 = C10.run_real


def _run10(self, case):
    if not hasattr(self, "_agains"):
        self._agains = {}
    self._again = None
    r = _orig10(self, case)
    self._agains[id(case)] = self._again
    return r


C10.run_real = _run10  # type: ignore[assignment]
CHECK = C10()
