"""C06 — extraction is a pure observation: no perturbation, repeatable, nothing retained.

  twin      generated programs of the C01/C02 space (plus managers the bytecode analysis cannot handle: a staticmethod
            __exit__, @contextmanager / @asynccontextmanager, an ExitStack) run twice in a subprocess: unobserved, and with
            1-3 extractions at a selected subset of the suspension points and of the probe points inside the body and
            inside the managers' methods, in trickery / referents / auto mode; the event traces (values produced, manager
            events, exceptions, result) must be identical, repeated extractions of the unchanged target must compare
            equal, reference counts of value-stack objects must follow the Lean model (`SS.Purity.holdN/releaseN`: the
            driver gets the slot layout and the baseline and predicts the counts while held and after the drop), and
            once the results are dropped nothing of the target may be reachable from stackscope's module state or
            survive the run in the observed twin only;
  chains    the C03 await / yield-from chains: behaviour after extraction (next value, the path a thrown exception unwinds
            through) equals the unobserved twin's;
  helpers   a fresh interpreter with asyncgen hooks installed: installing the glue must not leave the type-discovery
            async generator to the finalizer hook nor a never-awaited coroutine (compared with the model run on the
            operation list generated from _glue.py);
  census    the state census generated from the source is fully classified by the model.
"""
from __future__ import annotations

import json
import os
import random
import subprocess
from typing import Any, Dict, List, Optional

from ..core import PropCheck, REPO, VERIF

PY = "/venv/bin/python"
BATCH = 40

HELPERS = r'''
import sys, gc, warnings, json
ev = []
sys.set_asyncgen_hooks(firstiter=lambda a: ev.append(["firstiter", a.ag_code.co_name]), finalizer=lambda a: ev.append(["finalizer", a.ag_code.co_name]))
with warnings.catch_warnings(record=True) as caught:
    warnings.simplefilter("always")
    import stackscope
    async def c(): pass
    co = c()
    stackscope.extract(co)
    co.close()
    gc.collect()
msgs = [str(w.message) for w in caught]
print(json.dumps({"events": ev, "never_awaited": [m for m in msgs if "never awaited" in m], "glue_failed": [m for m in msgs if "glue" in m.lower()]}))
'''

F15 = r'''
import gc, sys, json
import stackscope
class M:
    def __enter__(s): return s
    def __exit__(s, *a): return False
def gen():
    with M() as x:
        yield 1
    x = None
    yield 2
out = {}
for observe in (False, True):
    g = gen(); next(g)
    if observe:
        st = stackscope.extract(g); del st
    next(g)
    gc.collect()
    out["observed" if observe else "unobserved"] = sum(isinstance(o, M) for o in gc.get_objects())
    if observe:
        st = stackscope.extract(g); del st; gc.collect()
        out["after_next_extraction"] = sum(isinstance(o, M) for o in gc.get_objects())
    g.close()
print(json.dumps(out))
'''


def run_worker(cases: List[dict], timeout=600) -> List[dict]:
    env = dict(os.environ, PYTHONPATH=f"{REPO}:{VERIF}")
    p = subprocess.run([PY, "-m", "harness.c06_worker"], input=json.dumps({"cases": cases}), stdout=subprocess.PIPE,
                       stderr=subprocess.PIPE, text=True, cwd=str(VERIF), env=env, timeout=timeout)
    out = []
    for l in p.stdout.splitlines():
        try:
            out.append(json.loads(l))
        except Exception:
            pass
    while len(out) < len(cases):
        what = f"the interpreter died (exit status {p.returncode})" if p.returncode != 0 else "no result"
        out.append({"problems": [f"{what} while running this case or one before it in its batch: {p.stderr[-300:]}"], "stats": {}, "refs": [],
                    "died": p.returncode})
    return out


class C06(PropCheck):
    pid = "C06"
    real_time_limit = 900.0
    rule = ("programs: kind in gen/coro/agen/sync x depth 1..3 (4 in thorough) x random choice lists x a random observation mask "
            "(period 1..5) x 1..3 repetitions x mode in trickery/referents/auto, 35% of the managers outside the shapes the "
            "bytecode analysis handles; chains: random C03 specs with one or two suspension points; helpers and census once; "
            "non-trivial = at least one extraction happened and the program had a manager or a suspension afterwards; "
            "distinct = (program, choices, mask, reps, mode)")
    manifest = {
        "text": "Lean (M-P): C06_refcount_restored / C06_refcount_held / C06_refcount_baseline (for every heap, slot layout — repeated objects, NULL slots — valid depth and repetition count k: while k snapshots are held each object's count is baseline + k x multiplicity, after the drop every count is at its baseline), C06_reads_below_depth, C06_helpers_closed (on the operation list regenerated from _glue.py the type-discovery async generator and coroutine end closed: no finalizer-hook call, no never-awaited warning, no exception) and C06_helpers_shape (same for every list of that shape), C06_helpers_unclosed_witness (the 0.2.1 defect), C06_state_census (every module-level container, global rebinding, mutable default, cache decorator and registry found in the package on this run is of a class that cannot hold target objects), C06_repeat_noop (a repeated extraction changes nothing in the installation state), C06_F15_witness / C06_F15_bounded. Tie: translator (census, helper operations) + correspondence (reference counts measured on real frames vs the model's prediction; hook events in a fresh interpreter vs the model).",
        "note": "Partial: 'behaviour identical to an un-observed run' and 'never crashes' are measured on twin runs, not proved (the model has no interpreter). Known finding F15: on CPython <= 3.12 reading frame.f_locals leaves a snapshot dict on the frame, so a local rebound after an extraction keeps its old value alive until the next extraction or the end of the frame.",
    }
    assumptions = ["sys.getrefcount is exact for non-immortal objects", "gc.get_referents is complete for container objects (used by the reachability walk)"]

    def gen_prog(self, rng, dmax):
        return {"k": "prog", "kind": rng.choice(["gen", "coro", "agen", "sync"]), "pseed": rng.randrange(1 << 30), "depth": rng.randint(1, dmax),
                "choices": [rng.randrange(6) for _ in range(rng.randint(0, 14))],
                "mask": [rng.randrange(2) for _ in range(rng.randint(1, 5))], "reps": rng.randint(1, 3),
                "mode": rng.choice(["trickery", "trickery", "referents", "auto"]), "odd": True, "reach_at": rng.randrange(6),
                "gc_off": rng.random() < 0.25, "logging": rng.random() < 0.15, "hostile_module": rng.random() < 0.1}

    def gen_chain(self, rng):
        from .. import chains

        root = rng.choice(chains.ROOTS)
        n = rng.randint(0, 5) if rng.random() < 0.9 else rng.randint(101, 125)     # (some chains deeper than the 100-step guard)
        links = ["yield_from"] * n if root == "gen" else chains.rand_links(rng, n, root)
        return {"k": "chain", "spec": {"root": root, "links": links, "end": rng.choice(chains.ENDS), "two_points": rng.random() < 0.5},
                "reps": rng.randint(1, 3), "mode": rng.choice(["trickery", "referents", "auto"])}

    def cases(self, rng, tier):
        out: List[dict] = [{"k": "helpers"}, {"k": "census"}]
        n, m, dmax = (240, 80, 3) if tier == "quick" else (3000, 600, 4)
        progs_ = [self.gen_prog(rng, dmax) for _ in range(n)]
        from .. import progs as _progs

        for ci in range(len(_progs.CORPUS_ODD)):
            for mode in ("trickery", "referents", "auto"):
                for reps in (1, 3):
                    progs_.append({"k": "prog", "kind": "gen", "corpus_odd": ci, "pseed": 0, "depth": 0, "choices": [1, 0, 1, 1], "mask": [1],
                                   "reps": reps, "mode": mode, "odd": True, "reach_at": 1, "gc_off": reps == 3})
        chains_ = [self.gen_chain(rng) for _ in range(m)]
        for target in ("gen", "agen"):
            for mode in ("trickery", "referents", "auto"):
                chains_.append({"k": "warnreg", "target": target, "mode": mode, "reps": 2})
        self._batches: Dict[int, List[dict]] = {}
        for b, i in enumerate(range(0, len(progs_) + len(chains_), BATCH)):
            grp = (progs_ + chains_)[i:i + BATCH]
            for c in grp:
                c["_batch"] = b
            self._batches[b] = grp
        self._cache: Dict[int, dict] = {}
        return out + progs_ + chains_

    def known_witnesses(self):
        return [{"id": "F15", "case": {"k": "f15"}}]

    def pub(self, case):
        return {k: v for k, v in case.items() if not k.startswith("_")}

    def run_real(self, case):
        self._probs: List[str] = []
        k = case["k"]
        if k == "helpers":
            env = dict(os.environ, PYTHONPATH=f"{REPO}:{VERIF}")
            p = subprocess.run([PY, "-c", HELPERS], stdout=subprocess.PIPE, stderr=subprocess.PIPE, text=True, env=env, timeout=120)
            if p.returncode != 0 or not p.stdout.strip():
                self._probs.append(f"helpers probe exit {p.returncode}: {p.stderr[-300:]}")
                return "no-result"
            d = json.loads(p.stdout.strip().splitlines()[-1])
            fin = any(e[0] == "finalizer" for e in d["events"])
            raised = bool(d["glue_failed"])
            na = bool(d["never_awaited"])
            case["_events"] = d["events"]
            if fin or raised or na:
                self._probs.append(f"installing the glue in a fresh interpreter with asyncgen hooks set: events {d['events']}, warnings "
                                   f"{(d['never_awaited'] + d['glue_failed'])[:2]}")
            b = lambda x: "T" if x else "F"
            return f"raised={b(raised)} finalizer={b(fin)} neverAwaited={b(na)}"
        if k == "census":
            return "census"
        if k == "f15":
            env = dict(os.environ, PYTHONPATH=f"{REPO}:{VERIF}")
            p = subprocess.run([PY, "-c", F15], stdout=subprocess.PIPE, stderr=subprocess.PIPE, text=True, env=env, timeout=120)
            d = json.loads(p.stdout.strip().splitlines()[-1]) if p.stdout.strip() else {}
            if d.get("observed", 0) > d.get("unobserved", 0):
                self._probs.append(f"F15: a manager rebound after an extraction stays alive (live instances: {d})")
            return json.dumps(d)
        b = case.get("_batch")
        if b is not None and b in getattr(self, "_batches", {}):
            if id(case) not in self._cache:
                grp = self._batches[b]
                for c, r in zip(grp, run_worker([self.pub(c) for c in grp])):
                    self._cache[id(c)] = r
            r = self._cache[id(case)]
        else:
            r = run_worker([self.pub(case)])[0]
        self._probs = list(r.get("problems", []))
        case["_stats"] = r.get("stats", {})
        case["_refs"] = r.get("refs", [])
        return "§".join(f"during {o['during']} after {o['after']}" for o in case["_refs"])

    def model_lines(self, case):
        if case["k"] == "helpers":
            return [json.dumps({"p": "C06", "op": "helpers"})]
        if case["k"] == "census":
            return [json.dumps({"p": "C06", "op": "census"})]
        if case["k"] in ("prog", "chain"):
            return [json.dumps({"p": "C06", "op": "refs", "slots": o["slots"], "len": len(o["slots"]), "base": o["base"], "k": o["k"]})
                    for o in case.get("_refs", [])] or None
        return None

    def model_line(self, case):
        return None

    def canon(self, case, real):
        if case["k"] == "census":
            from ..translate_consts import extract as tx

            vals, _ = tx(REPO)
            return f"classified {len(vals.get('stateCensus', []))}"
        return real

    def oracle(self, case, real):
        probs = self._all.get(id(case)) or []
        return "; ".join(probs[:2])[:1000] if probs else None

    def nontrivial_key(self, case, real):
        if case["k"] in ("helpers", "census"):
            return case["k"]
        st = case.get("_stats", {})
        if st.get("extractions", 0) > 0:
            return json.dumps(self.pub(case), sort_keys=True)
        return None

    def stats(self, cases, reals):
        tot: Dict[str, int] = {}
        by_kind: Dict[str, int] = {}
        by_mode: Dict[str, int] = {}
        for c in cases:
            for k, v in c.get("_stats", {}).items():
                tot[k] = tot.get(k, 0) + v
            kk = c.get("kind", c["k"])
            by_kind[kk] = by_kind.get(kk, 0) + 1
            if "mode" in c:
                by_mode[c["mode"]] = by_mode.get(c["mode"], 0) + 1
        return {"totals": tot, "by_kind": by_kind, "by_mode": by_mode}

    def search_cases(self, rng):
        out = [{"k": "helpers"}, {"k": "census"}]
        progs_ = [self.gen_prog(rng, 3) for _ in range(600)]
        self._batches = {}
        for b, i in enumerate(range(0, len(progs_), BATCH)):
            grp = progs_[i:i + BATCH]
            for c in grp:
                c["_batch"] = b
            self._batches[b] = grp
        self._cache = {}
        return out + progs_

    def shrink(self, case, failing):
        if case.get("k") != "prog":
            return case
        best = dict(self.pub(case))
        for _ in range(12):
            improved = False
            for cand in self.smaller(best):
                try:
                    if failing(cand):
                        best = cand
                        improved = True
                        break
                except Exception:
                    pass
            if not improved:
                break
        return best

    def smaller(self, c):
        if c["reps"] > 1:
            yield dict(c, reps=1)
        if c["depth"] > 1:
            yield dict(c, depth=c["depth"] - 1)
        if len(c["choices"]) > 0:
            yield dict(c, choices=c["choices"][:-1])
        if len(c["mask"]) > 1:
            yield dict(c, mask=[1])


_orig = C06.run_real


def _run(self, case):
    if not hasattr(self, "_all"):
        self._all = {}
    r = _orig(self, case)
    self._all[id(case)] = list(self._probs)
    return r


C06.run_real = _run  # type: ignore[assignment]
CHECK = C06()
