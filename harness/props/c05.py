"""C05 — extract never raises: faults contained, reported in .error, outer frames kept.

Three legs:
  A. hook environments whose hooks raise *statically* (unwrap / iterator step / elaborate_frame /
     context hooks), compared exactly (frames, leaf, errors in order) with the Lean model;
  B. the same environments with an exception injected at the k-th dynamic hook invocation, for EVERY k
     (and sampled pairs): oracle on the real code;
  C. real scenarios (async chain with nested generator-based managers and exit stacks, thread,
     greenlet, custom item) with a fault injected at the k-th invocation of each hook kind, for every k.
"""
from __future__ import annotations

import json
import random
import sys
import threading
from typing import Any, List, Optional

from ..core import PropCheck
from ..envs import Injected, World
from . import c10 as C10


def rand_faulty_env(rng: random.Random) -> dict:
    c = C10.rand_env(rng, rng.randint(1, 5), rng.randint(1, 4), rng.randint(0, 2), cyc=rng.choice([0, 0, 0.2]))
    c["wc"] = rng.random() < 0.6
    e = 200
    for d in c["items"]:
        if d["kind"] == "frame":
            if rng.random() < 0.35:
                d["ctx"] = [e + j for j in range(rng.randint(1, 2))]
                e += 2
            if rng.random() < 0.25 and not isinstance(d["el"], dict):
                d["el"] = ["raise", e]
                e += 1
        elif d["kind"].startswith("thing") and rng.random() < 0.2:
            d["uw"] = ["raise", e]
            e += 1
    return c


# ------------------------------------------------------------------------------------------
# leg C: real scenarios
# ------------------------------------------------------------------------------------------

class Scenario:
    """A live target plus a way to extract it; built fresh for every run."""

    def __init__(self, name: str):
        self.name = name
        self.cleanup = []

    def close(self):
        for f in reversed(self.cleanup):
            try:
                f()
            except Exception:
                pass


def build_scenario(name: str) -> tuple:
    import contextlib
    import types

    sc = Scenario(name)

    @types.coroutine
    def trap():
        yield "trap"

    if name == "async_chain":
        @contextlib.contextmanager
        def inner_cm():
            yield 1

        @contextlib.asynccontextmanager
        async def acm():
            with inner_cm():
                yield 2

        def cb(*a):
            pass

        async def leaf():
            async with contextlib.AsyncExitStack() as stack:
                await stack.enter_async_context(acm())
                stack.enter_context(inner_cm())
                stack.callback(cb, 1, x=2)
                await trap()

        async def mid():
            async with acm() as v:
                with inner_cm():
                    await leaf()

        async def top():
            await mid()

        co = top()
        co.send(None)
        sc.cleanup.append(co.close)
        return sc, co
    if name == "thread":
        import contextlib as cl

        ev, started = threading.Event(), threading.Event()

        @cl.contextmanager
        def cm():
            yield

        def inner():
            with cm():
                started.set()
                ev.wait(20)

        def outer():
            inner()

        t = threading.Thread(target=outer, daemon=True)
        t.start()
        started.wait(5)

        def stop():
            ev.set()
            t.join(5)

        sc.cleanup.append(stop)
        return sc, t
    if name == "greenlet":
        import greenlet

        def g_inner():
            greenlet.getcurrent().parent.switch()

        def g_outer():
            g_inner()

        g = greenlet.greenlet(g_outer)
        g.switch()
        sc.cleanup.append(lambda: g.throw(greenlet.GreenletExit))
        return sc, g
    if name == "custom":
        import stackscope

        def fgen():
            with open("/dev/null"):
                yield

        gens = [fgen() for _ in range(3)]
        for g in gens:
            next(g)

        class Custom:
            pass

        @stackscope.unwrap_stackitem.register(Custom)
        @stackscope.yields_frames
        def unwrap_custom(c):
            for g in gens:
                yield g.gi_frame

        sc.keep = gens
        return sc, Custom()
    if name == "gcm_pruned":
        # a piece of plumbing: a generator-based manager (with a manager and a delegated helper inside) that a hook hides with
        # PRUNE, and a class-based one with two child stacks that its hook hides too.  Hidden, not forgotten: what was found while
        # looking inside them (their inner stack, their children, and any fault met there) stays on the hidden Context.
        import stackscope

        class Res:
            def __enter__(self):
                return self

            def __exit__(self, *a):
                return False

        def helper():
            yield 1

        @contextlib.contextmanager
        def plumbing_cm():
            with Res():
                yield from helper()

        stackscope.unwrap_context_generator.register(plumbing_cm)(lambda frame, ctx: stackscope.PRUNE)

        def kid():
            yield

        class Group(Res):
            def __init__(self):
                self.kids = [kid(), kid()]
                for k in self.kids:
                    next(k)

        @stackscope.elaborate_context.register(Group)
        def elab_group(mgr, ctx):
            from stackscope import _extract      # (looked up at call time: the fault-injection patcher wraps this entry point)

            ctx.children = [_extract.extract_child(k, for_task=False) for k in mgr.kids]

        @stackscope.unwrap_context.register(Group)
        def unwrap_group(mgr, ctx):
            return stackscope.PRUNE

        async def inner():
            with plumbing_cm():
                with Group():
                    await trap()

        async def outer():
            await inner()

        co = outer()
        co.send(None)
        sc.cleanup.append(co.close)
        return sc, co
    if name in ("gcm_active", "gcm_exiting"):
        import stackscope

        @contextlib.contextmanager
        def inner_cm():
            yield 1

        @contextlib.asynccontextmanager
        async def wrapped_acm():
            with inner_cm():
                try:
                    yield
                finally:
                    await trap()

        stackscope.unwrap_context_generator.register(wrapped_acm)(lambda frame, ctx: None)

        async def user():
            async with wrapped_acm():
                if name == "gcm_active":
                    await trap()

        co = user()
        co.send(None)      # gcm_active: suspended in the body; gcm_exiting: suspended inside __aexit__
        sc.cleanup.append(co.close)
        return sc, co
    raise ValueError(name)


EXC_TYPES = {}


def exc_type(i: int):
    """Injected exceptions come in several built-in flavours: containment must not depend on the type."""
    bases = [Exception, RuntimeError, KeyError, AssertionError, TypeError, AttributeError, LookupError, NotImplementedError, ExceptionGroup, "strict"]
    b = bases[i % len(bases)]
    if b == "strict":
        # an exception object that cannot be annotated or modified (frozen-dataclass style): it can only be passed on as it is
        if "strict" not in EXC_TYPES:
            class StrictInjected(Injected):
                def add_note(self, note):
                    raise TypeError("this exception is immutable")

                def __setattr__(self, name, value):
                    if name in ("__traceback__", "__context__", "__cause__", "__suppress_context__", "e"):
                        return super().__setattr__(name, value)
                    raise AttributeError("this exception is immutable")
            EXC_TYPES["strict"] = StrictInjected
        return EXC_TYPES["strict"]
    if b is ExceptionGroup:
        # a hook that raises a group of its own (e.g. from a nursery / TaskGroup it used): one exception like any other
        return lambda n: ExceptionGroup(f"injected group {n}", [ValueError(n), KeyError(n)])
    if b not in EXC_TYPES:
        EXC_TYPES[b] = type(f"Injected{b.__name__}", (Injected, b), {}) if b is not Exception else Injected
    return EXC_TYPES[b]


HOOKS = [
    ("_extract", "unwrap_stackitem"),
    ("_extract", "elaborate_frame"),
    ("_extract", "contexts_active_in_frame"),
    ("_extract", "elaborate_context"),
    ("_extract", "unwrap_context"),
    ("_glue", "unwrap_context_generator"),
    ("_customization", "FrameIterator.__next__"),
]


class Patcher:
    """Counting wrappers around the hook entry points; raises Injected at the k-th call of `kind`."""

    def __init__(self, kind: Optional[str], k: Optional[int], flavour: int = 0):
        self.kind, self.k, self.flavour = kind, k, flavour
        self.counts = {h[1]: 0 for h in HOOKS}
        self.saved = []
        self.depth = 0
        self.emitted = []      # (pyframe id) of outer frames whose elaborate_frame call completed
        self.fired = None
        self.in_outermost = 0
        self.fired_in_outermost = False
        self.outermost_ended: List[str] = []

    def __enter__(self):
        import stackscope._customization as cu
        import stackscope._extract as ex
        import stackscope._glue as gl

        mods = {"_extract": ex, "_glue": gl, "_customization": cu}
        P = self

        def wrap(modname, attr):
            mod = mods[modname]
            if "." in attr:
                clsname, meth = attr.split(".")
                owner = getattr(mod, clsname)
                orig = getattr(owner, meth)

                def w(self_, *a, **kw):
                    P.tick(attr)
                    return orig(self_, *a, **kw)

                P.saved.append((owner, meth, orig))
                setattr(owner, meth, w)
                return
            orig = getattr(mod, attr)

            class W:
                def __call__(self_, *a, **kw):
                    P.tick(attr)
                    r = orig(*a, **kw)
                    if attr == "elaborate_frame" and P.depth == 1 and P.in_outermost == 0:
                        P.emitted.append(id(a[0].pyframe))
                    return r

                def __getattr__(self_, n):
                    return getattr(orig, n)

            P.saved.append((mod, attr, orig))
            setattr(mod, attr, W())

        for m, a in HOOKS:
            wrap(m, a)
        orig_child = ex.extract_child

        def child(*a, **kw):
            P.depth += 1
            try:
                return orig_child(*a, **kw)
            finally:
                P.depth -= 1

        P.saved.append((ex, "extract_child", orig_child))
        ex.extract_child = child
        orig_outer = ex.extract_outermost

        def outermost(*a, **kw):
            P.in_outermost += 1
            try:
                r = orig_outer(*a, **kw)
                P.outermost_ended.append("frame")
                return r
            except BaseException:
                P.outermost_ended.append("raised")
                raise
            finally:
                P.in_outermost -= 1

        P.saved.append((ex, "extract_outermost", orig_outer))
        ex.extract_outermost = outermost
        return self

    def tick(self, attr):
        self.counts[attr] += 1
        if self.kind == attr and self.counts[attr] == self.k and self.fired is None:
            self.fired = exc_type(self.flavour)(777)
            self.emitted_at_fault = list(self.emitted)
            self.fired_in_outermost = self.in_outermost > 0
            raise self.fired

    def __exit__(self, *a):
        for owner, attr, orig in reversed(self.saved):
            setattr(owner, attr, orig)


def walk_stacks(st):
    """All Stack objects in a result tree."""
    import stackscope

    yield st
    for f in st.frames:
        for c in f.contexts:
            yield from walk_ctx(c)


def walk_ctx(c):
    import stackscope

    if c.inner_stack is not None:
        yield from walk_stacks(c.inner_stack)
    for ch in c.children:
        if isinstance(ch, stackscope.Stack):
            yield from walk_stacks(ch)
        else:
            yield from walk_ctx(ch)


def errors_in(st) -> List[BaseException]:
    out = []
    for s in walk_stacks(st):
        if s.error is not None:
            out.append(s.error)                    # alone if it is the only one ...
            if isinstance(s.error, BaseExceptionGroup):
                out.extend(s.error.exceptions)     # ... inside a group otherwise
    return out


def frame_sig(f):
    return (id(f.pyframe), f.lineno, f.hide, f.hide_line, len(f.contexts))


def common_checks(st, fired) -> Optional[str]:
    import stackscope

    if not isinstance(st, stackscope.Stack):
        return f"extract returned {type(st).__name__}, not a Stack"
    for s in walk_stacks(st):
        if isinstance(s.error, BaseExceptionGroup) and len(s.error.exceptions) < 2:
            return "a Stack.error is an ExceptionGroup holding fewer than two exceptions"
    if fired is not None and not any(e is fired for e in errors_in(st)):
        return "the injected exception is not retrievable from any Stack.error of the result"
    try:
        str(st)
        st.format_flat()
        st.format_flat(show_contexts=True)
        st.as_stdlib_summary()
        st.as_stdlib_summary(show_contexts=True, show_hidden_frames=True)
    except Exception as e:
        return f"the result could not be formatted/summarised: {type(e).__name__}: {e}"
    return None


class C05(PropCheck):
    pid = "C05"
    real_time_limit = 8.0
    rule = ("A: random hook environments with statically raising hooks (compared with the Lean model, errors in order); "
            "B: per environment, a fault at the k-th dynamic hook invocation for every k, plus sampled pairs; "
            "C: real scenarios (async chain with nested generator-based managers and exit stacks, thread, greenlet, custom "
            "yields_frames item) x every hook kind x every k; non-trivial = a fault actually fired; distinct = (scenario, kind, k)")
    manifest = {
        "text": "Lean: runX performs extract_iter's partial operations (popleft/pop/[-1]/assert) explicitly and C05_total proves it never fails for any environment, item and fuel (C05_elabStep_total uses that the unwrap phase empties the queue); C05_unwrap_fail / C05_iter_fail / C05_elaborate_fail give the exact state after each kind of hook failure (exception recorded in order, frame kept and un-hidden, only callees pruned); C05_outer_frames_kept (emitted frames and recorded errors are prefixes of the final ones); C05_single_or_group. Tie: statically faulty environments are diffed against the model; dynamic faults at every k-th hook invocation and real scenarios are judged by the oracle on the real code.",
        "note": "The dynamic k-th-invocation sweep (legs B, C) has no Lean counterpart: the model's hooks are static tables, so those legs are decided by the oracle (no raise, injected exception retrievable, emitted frames kept identical, result formats). Exotic Sequence subclasses returned by hooks and warnings-as-errors are outside the model.",
    }
    assumptions = ["hooks are pure tables in the model; the k-th-invocation fault sweep is checked on the implementation only"]

    def setup(self):
        from ..core import load_known

        self.f13_known = any(k["id"] == "F13" and k.get("status") == "known" for k in load_known())

    def known_witnesses(self):
        return [{"id": "F13", "case": {"k": "scenario", "name": "gcm_exiting", "kind": "elaborate_frame", "witness": "F13"}}]

    def cases(self, rng, tier):
        out = []
        nA = 400 if tier == "quick" else 5000
        envs = []
        tries = 0
        while len(envs) < nA and tries < nA * 3:
            tries += 1
            c = rand_faulty_env(rng)
            try:
                C10.reference(c, budget=4000)
            except C10.SpecDiverges:
                continue
            envs.append(c)
        out += envs
        nB = 60 if tier == "quick" else 500
        for c in envs[:nB]:
            out.append({"k": "sweep", "env": c, "pairs": 3 if tier == "quick" else 10, "seed": rng.randrange(1 << 30)})
        for name in ("async_chain", "thread", "greenlet", "custom", "gcm_active", "gcm_exiting", "gcm_pruned"):
            for m, kind in HOOKS:
                out.append({"k": "scenario", "name": name, "kind": kind})
        out.append({"k": "objects"})
        # a failing callback registered through customize(), under every flag combination and both forms
        for hide in (False, True):
            for hide_line in (False, True):
                for prune in (False, True):
                    for form in ("direct", "decorator"):
                        out.append({"k": "custfault", "hide": hide, "hide_line": hide_line, "prune": prune, "form": form})
        return out

    def model_line(self, case):
        if case["k"] != "env":
            return None
        d = dict(case)
        d["p"] = "C10"  # same model entry point: SS.Extract.extract
        return json.dumps(d)

    def run_real(self, case):
        import stackscope

        if case["k"] == "env":
            w = World(case)
            st = stackscope.extract(w.obj(case["x"]), with_contexts=case.get("wc", False))
            self._last = (w, st)
            self._twin = None
            if any(d.get("uw") and d["uw"][0] == "iter" and d["uw"][2] is not None for d in case["items"]):
                # a frame source that raises after the items it produced: everything it had produced lies outward of the
                # failure, so the frames are those of the same world in which the source simply ends there
                twin = json.loads(json.dumps(case))
                for d in twin["items"]:
                    if d.get("uw") and d["uw"][0] == "iter":
                        d["uw"][2] = None
                tw = World(twin)
                try:
                    self._twin = tw.show_stack(stackscope.extract(tw.obj(twin["x"]), with_contexts=twin.get("wc", False)))
                except Exception as e:  # noqa: BLE001
                    self._twin = f"twin raised {type(e).__name__}"
            return w.show_stack(st)
        if case["k"] == "sweep":
            return self.run_sweep(case)
        if case["k"] == "scenario":
            return self.run_scenario(case)
        if case["k"] == "custfault":
            return self.run_custfault(case)
        if case["k"] == "objects":
            res = []
            class Array:          # numpy / pandas style: a comparison has no truth value
                def __eq__(self, other):
                    raise ValueError("The truth value of an array with more than one element is ambiguous")

                __ne__ = __eq__
                __hash__ = object.__hash__

            class Column:         # SQL-expression style: == / != build an expression object that refuses bool()
                class Expr:
                    def __bool__(self):
                        raise TypeError("Boolean value of this clause is not defined")

                def __eq__(self, other):
                    return Column.Expr()

                __ne__ = __eq__
                __hash__ = object.__hash__

            class Falsy:
                def __bool__(self):
                    return False

            class Sized:
                def __len__(self):
                    return 0

            for o in (None, 0, "str", 3.5, object(), [1, 2], (sys._getframe(0),), {"a": 1}, type, lambda: 0, Exception("x"), b"b",
                      Array(), Column(), Falsy(), Sized(), [], "", 0.0, ()):
                try:
                    st = stackscope.extract(o)
                    f = common_checks(st, None)
                    res.append(f or "ok")
                except Exception as e:
                    res.append(f"RAISED {type(e).__name__}: {e}")
            return {"objects": res}
        raise ValueError(case["k"])

    def run_custfault(self, case):
        import stackscope

        exc = exc_type(3)(4242)
        fired = []

        def cb(frame, next_inner):
            fired.append(1)
            raise exc

        def inner():
            yield 1

        def mid():
            yield from inner()

        def outer():
            yield from mid()

        flags = {k: case[k] for k in ("hide", "hide_line", "prune")}
        if case["form"] == "direct":
            stackscope.customize(mid, elaborate=cb, **flags)
        else:
            stackscope.customize(elaborate=cb, **flags)(mid)
        g = outer()
        next(g)
        problems = []
        try:
            st = stackscope.extract(g, with_contexts=False)
        except BaseException as e:  # noqa: BLE001
            return {"problems": [f"customize({flags}, {case['form']}) with a failing callback: extract raised {type(e).__name__}: {e}"]}
        names = [f.funcname for f in st.frames]
        if not fired:
            problems.append("harness: the callback never ran")
        if not any(e is exc for e in errors_in(st)):
            problems.append(f"customize({flags}, {case['form']}) with a failing callback: the injected exception is not retrievable from "
                            f"Stack.error ({st.error!r}); frames {names}")
        if names[:2] != ["outer", "mid"]:
            problems.append(f"customize({flags}, {case['form']}) with a failing callback: frames outward of the failure are {names}")
        f = common_checks(st, None)
        if f:
            problems.append(f)
        g.close()
        return {"fired": len(fired), "problems": problems}

    def run_sweep(self, case):
        import stackscope

        env = case["env"]
        w = World(env)
        base = stackscope.extract(w.obj(env["x"]), with_contexts=env.get("wc", False))
        total = w.ticks
        base_sig = [frame_sig(f) for f in base.frames]
        problems = []
        fired = 0
        rng = random.Random(case["seed"])
        plans = [(k,) for k in range(1, total + 1)]
        for _ in range(case["pairs"]):
            if total >= 2:
                a = rng.randint(1, total - 1)
                plans.append((a, rng.randint(a + 1, total)))
        for plan in plans:
            w = World(env)
            faults = list(plan)
            injected = []
            emitted_at = []
            failing_frames = set()

            def tick(what, w=w):
                w.ticks += 1
                if faults and w.ticks == faults[0]:
                    faults.pop(0)
                    ex = exc_type(w.ticks + len(injected))(900 + len(injected))
                    injected.append(ex)
                    if not emitted_at:
                        emitted_at.append(sum(1 for c in w.calls if c[0] == "elab") - (1 if what == "elab" else 0))
                    if what == "elab" and w.calls:
                        # (the frame whose own hook fails has its hide flag reset, as documented; a hook table can make one Frame
                        # object come round twice, and then that object is also an earlier entry of the list)
                        failing_frames.add(w.calls[-1][1])
                    raise ex

            w.tick = tick
            try:
                st = stackscope.extract(w.obj(env["x"]), with_contexts=env.get("wc", False))
            except Exception as e:
                problems.append(f"fault at invocation {plan}: extract raised {type(e).__name__}: {e}")
                continue
            if injected:
                fired += 1
            f = common_checks(st, None)
            if f:
                problems.append(f"fault at {plan}: {f}")
                continue
            errs = errors_in(st)
            for ex in injected:
                if not any(e is ex for e in errs):
                    problems.append(f"fault at {plan}: injected exception not in Stack.error")
            if emitted_at:
                n = emitted_at[0]
                # frames whose elaboration completed before the first fault were emitted: they must be
                # present, in place, identical to the fault-free run (object, line, flags)
                got = [frame_sig(f)[:1] + frame_sig(f)[1:] for f in st.frames[:n]]
                want = base_sig[:n]
                # frame objects differ between worlds: compare by world-independent id
                got_ids = [w.ids.get(id(f.pyframe)) for f in st.frames[:n]]
                # recompute base ids lazily
                if not hasattr(self, "_tmp"):
                    pass
                if len(st.frames) < n:
                    problems.append(f"fault at {plan}: only {len(st.frames)} frames kept, {n} had been emitted")
                else:
                    self._cmp_prefix(env, base, st, n, w, plan, problems, failing_frames)
        return {"sweep": total, "plans": len(plans), "fired": fired, "problems": problems[:5]}

    def _cmp_prefix(self, env, base, st, n, w, plan, problems, failing_frames=()):
        # ids of base frames: rebuild the id map of the base world through positions (deterministic construction)
        bw = World(env)
        import stackscope

        b2 = stackscope.extract(bw.obj(env["x"]), with_contexts=env.get("wc", False))
        want = [(bw.ids.get(id(f.pyframe)), f.hide, f.lineno, len(f.contexts)) for f in b2.frames[:n]]
        got = [(w.ids.get(id(f.pyframe)), f.hide, f.lineno, len(f.contexts)) for f in st.frames[:n]]
        want = [(a, None if a in failing_frames else h, l, c) for a, h, l, c in want]
        got = [(a, None if a in failing_frames else h, l, c) for a, h, l, c in got]
        if want != got:
            problems.append(f"fault at {plan}: frames outward of the failure differ from the fault-free extraction: {got} vs {want}")

    def run_scenario(self, case):
        import stackscope

        name, kind = case["name"], case["kind"]
        sc, target = build_scenario(name)
        problems = []
        try:
            with Patcher(None, None) as p0:
                base = stackscope.extract(target, recurse_child_tasks=True)
            total = p0.counts[kind]
            base_sig = [frame_sig(f) for f in base.frames]
            if base.error is not None and name != "custom":
                problems.append(f"fault-free extraction already has an error: {base.error!r}")
            fired = 0
            for k, flavour in [(k, fl) for k in range(1, total + 1) for fl in range(case.get("flavours", 10))]:
                with Patcher(kind, k, flavour) as p:
                    try:
                        st = stackscope.extract(target, recurse_child_tasks=True)
                    except Exception as e:
                        problems.append(f"{kind}#{k} ({type(p.fired).__name__}): extract raised {type(e).__name__}: {e}")
                        continue
                if p.fired is None:
                    continue
                fired += 1
                f = common_checks(st, p.fired)
                if f:
                    # F13 (known): a fault met inside the glue's nested extract_outermost() call is dropped once that call has its
                    # FRAME.  When the call ends without a frame it re-raises the recorded fault, which then is reported -- unless
                    # its type is RuntimeError, which the glue takes for "no frames" (round-5 observation, same mechanism)
                    f13 = p.fired_in_outermost and ("frame" in p.outermost_ended or isinstance(p.fired, RuntimeError))
                    tag = " [fault fired inside a nested extract_outermost call]" if f13 else ""
                    problems.append(f"{kind}#{k} ({type(p.fired).__name__}): {f}{tag}")
                    continue
                if kind in ("contexts_active_in_frame", "elaborate_context", "unwrap_context", "unwrap_context_generator") and not p.fired_in_outermost \
                        and [g[0] for g in map(frame_sig, st.frames)] != [b[0] for b in base_sig]:
                    # a fault in the analysis or the hooks of a frame's CONTEXTS costs context information, never frames: the frame
                    # itself and everything inward of it are still there
                    problems.append(f"{kind}#{k}: a fault at the context level changed the frame series: {len(st.frames)} frames, "
                                    f"fault-free {len(base.frames)}")
                    continue
                n = len(p.emitted_at_fault)
                got = [frame_sig(f) for f in st.frames[:n]]
                if [g[0] for g in got] != p.emitted_at_fault or got != base_sig[:n]:
                    problems.append(f"{kind}#{k}: frames outward of the failure are not kept identical "
                                    f"({len(st.frames)} frames, {n} emitted before the fault)")
            # pairs: a fault of this kind, then a fault of elaborate_frame at each later invocation -- both must be retrievable
            if case.get("pairs", True) and kind != "elaborate_frame":
                with Patcher(None, None) as pz:
                    stackscope.extract(target, recurse_child_tasks=True)
                n_el = pz.counts["elaborate_frame"]
                for k in range(1, min(total, 12) + 1):
                    for k2 in range(1, n_el + 1):
                        with Patcher(kind, k, 0) as p1:
                            p2 = Patcher("elaborate_frame", k2, 2)
                            # second patcher shares the wrapped entry points: chain it by hand
                            orig_tick = p1.tick

                            def tick(attr, p1=p1, p2=p2, orig_tick=orig_tick):
                                p2.counts[attr] = p2.counts.get(attr, 0) + 1
                                if attr == "elaborate_frame" and p2.counts[attr] == p2.k and p2.fired is None and p1.fired is not None:
                                    # (same type and same text as the first one, but another exception object: two failures
                                    # that look alike are still two failures)
                                    p2.fired = exc_type(0)(777)
                                    p2.fired_in_outermost = p1.in_outermost > 0
                                    p2.ended_mark = len(p1.outermost_ended)
                                    raise p2.fired
                                return orig_tick(attr)

                            p1.tick = tick
                            try:
                                st = stackscope.extract(target, recurse_child_tasks=True)
                            except Exception as e:
                                problems.append(f"{kind}#{k} + elaborate_frame#{k2}: extract raised {type(e).__name__}: {e}")
                                continue
                        if p1.fired is None or p2.fired is None:
                            continue
                        fired += 1
                        errs = errors_in(st)
                        lost = [nm for nm, ex in (("first", p1.fired), ("second", p2.fired)) if not any(e is ex for e in errs)]
                        f13a = p1.fired_in_outermost and ("frame" in p1.outermost_ended or isinstance(p1.fired, RuntimeError))
                        f13b = p2.fired_in_outermost and ("frame" in p1.outermost_ended[p2.ended_mark:] or isinstance(p2.fired, RuntimeError))
                        lost = [nm for nm in lost if not ((nm == "first" and f13a) or (nm == "second" and f13b))]
                        if lost:
                            problems.append(f"pair {kind}#{k} then elaborate_frame#{k2}: the {' and '.join(lost)} injected exception is not "
                                            f"retrievable from any Stack.error of the result")
            return {"scenario": name, "kind": kind, "invocations": total, "fired": fired,
                    "base_frames": len(base.frames), "problems": problems[:40]}
        finally:
            sc.close()

    def canon(self, case, real):
        return real if isinstance(real, str) else json.dumps(real, sort_keys=True)

    def oracle(self, case, real):
        if case["k"] == "env":
            if not isinstance(real, str) or not real.startswith("frames="):
                return f"extract did not return a Stack: {real!r}"[:300]
            w, st = self._last
            f = common_checks(st, None)
            if f is None and self._twin is not None:
                cut = lambda t: t[:t.index(" errors=[")] if " errors=[" in t else t
                if cut(real) != cut(self._twin):
                    f = ("a frame source raised after producing items: frames outward of the failure differ from the extraction "
                         f"in which the source just ends there: {cut(real)} vs {cut(self._twin)}")
            return f
        if isinstance(real, dict):
            probs = real.get("problems") or []
            f13 = [p for p in probs if "not retrievable" in p and "inside a nested extract_outermost" in p]
            if case.get("witness") == "F13":
                return f13[0] if f13 else None
            if self.f13_known:
                probs = [p for p in probs if p not in f13]   # listed known finding, replayed by its own witness
            if probs:
                return "; ".join(probs[:5])[:700]
            if "objects" in real:
                bad = [r for r in real["objects"] if r != "ok"]
                if bad:
                    return "arbitrary non-stack object: " + bad[0]
        return None

    def nontrivial_key(self, case, real):
        if case["k"] == "env":
            return json.dumps(case, sort_keys=True) if isinstance(real, str) and "errors=[]" not in real else None
        if isinstance(real, dict) and real.get("fired"):
            return json.dumps(case, sort_keys=True)
        return None

    def stats(self, cases, reals):
        d = {"static_envs": 0, "sweeps": 0, "sweep_faults_fired": 0, "scenario_runs": 0, "scenario_faults_fired": 0,
             "by_hook": {}}
        for c, r in zip(cases, reals):
            if c["k"] == "env":
                d["static_envs"] += 1
            elif c["k"] == "sweep" and isinstance(r, dict):
                d["sweeps"] += 1
                d["sweep_faults_fired"] += r.get("fired", 0)
            elif c["k"] == "scenario" and isinstance(r, dict):
                d["scenario_runs"] += 1
                d["scenario_faults_fired"] += r.get("fired", 0)
                d["by_hook"][c["kind"]] = d["by_hook"].get(c["kind"], 0) + r.get("fired", 0)
        return d


CHECK = C05()
