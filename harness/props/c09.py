"""C09 — generator-based managers and exit stacks unfold into the exact nested tree.

Generated trees of plain managers, @contextmanager / @asynccontextmanager managers (with or without
`yield from`, holding further managers in their bodies) and ExitStack / AsyncExitStack objects populated
by random sequences of the eight registration calls; held by a coroutine suspended in the body (and,
for async generator-based roots, suspended while exiting).  The real Context tree is compared with a
Python unfolding of the tree description (oracle); every exit stack's children are also compared with
the Lean model `SS.ExitStack.elaborate ∘ register`.
"""
from __future__ import annotations

import contextlib
import json
import random
import types
from typing import Any, Dict, List, Optional, Tuple

from ..core import PropCheck

SYNC_OPS = ["enter_context", "push_mgr", "push_fn", "push_bound", "push_builtin_bound", "push_builtin_fn", "callback"]
ASYNC_OPS = ["enter_async_context", "push_async_exit_mgr", "push_async_exit_fn", "push_async_callback"]


@types.coroutine
def trap():
    yield "trap"


def rand_node(rng: random.Random, depth: int, want_async: Optional[bool] = None) -> dict:
    kinds = ["plain", "gcm", "stack"] if depth > 0 else ["plain", "gcm"]
    k = rng.choice(kinds)
    is_async = rng.random() < 0.5 if want_async is None else want_async
    if k == "plain":
        # style 0: methods named __exit__/__aexit__; 1: the exit is an alias of a differently named method (__exit__ = close);
        # 2: a decorator (without functools.wraps) around it
        return {"kind": "plain", "async": is_async, "falsy": rng.random() < 0.2, "style": rng.choice([0, 0, 1, 2])}
    if k == "gcm":
        nbody = rng.choice([0, 0, 1, 2]) if depth > 0 else 0
        return {"kind": "gcm", "async": is_async, "yield_from": (0 if is_async or rng.random() < 0.5 else rng.randint(1, 3)),
                "body": [rand_node(rng, depth - 1, want_async=False) for _ in range(nbody)]}
    ops = []
    for _ in range(rng.randint(0, 5)):
        op = rng.choice(SYNC_OPS + (ASYNC_OPS if is_async else []))
        if op == "push_bound" and depth > 1 and rng.random() < 0.5:
            # the bound method of an object that is itself an exit stack with registrations of its own
            sub = {"kind": "stack", "async": False, "tx": True,
                   "ops": [["enter_context", rand_node(rng, depth - 2, want_async=False)], ["callback", None]]}
            ops.append(["push_bound_stack", sub])
            continue
        if op in ("enter_context", "push_mgr"):
            ops.append([op, rand_node(rng, depth - 1, want_async=False)])
        elif op in ("enter_async_context", "push_async_exit_mgr"):
            ops.append([op, rand_node(rng, depth - 1, want_async=True)])
        else:
            ops.append([op, None])
    return {"kind": "stack", "async": is_async, "ops": ops}


class Builder:
    def __init__(self):
        self.ids: Dict[int, str] = {}
        self.keep: List[Any] = []
        self.n = 0

    def tag(self, obj, prefix: str) -> str:
        self.n += 1
        t = f"{prefix}{self.n}"
        self.ids[id(obj)] = t
        self.keep.append(obj)
        return t

    def drive(self, coro):
        try:
            coro.send(None)
        except StopIteration as e:
            return e.value
        raise RuntimeError("registration coroutine suspended")

    def build(self, node: dict):
        """Returns the manager object; fills node['_tag'] (and op tags)."""
        b = self
        k = node["kind"]
        if k == "plain":
            falsy = node.get("falsy")
            if node["async"]:
                block = node.get("block")

                style = 0 if block else int(node.get("style") or 0)

                def deco(fn):
                    def wrapper(*a):
                        return fn(*a)
                    return wrapper

                class APlain:
                    async def __aenter__(s):
                        return s

                    async def aclose(s, *a):
                        if block:
                            await trap()        # the holder is observed suspended here, while the stack is exiting
                        return False

                    __aexit__ = aclose if style == 1 else deco(aclose)
                    if style == 0:
                        async def __aexit__(s, *a):
                            if block:
                                await trap()
                            return False

                    def __bool__(s):
                        return not falsy
                m: Any = APlain()
            else:
                style = int(node.get("style") or 0)

                def deco(fn):
                    def wrapper(*a):
                        return fn(*a)
                    return wrapper

                class Plain(list if falsy else object):     # an empty list subclass is falsy
                    def __enter__(s):
                        return s

                    def close(s, *a):
                        return False

                    __exit__ = close if style == 1 else deco(close)
                    if style == 0:
                        def __exit__(s, *a):
                            return False
                m = Plain()
            node["_tag"] = self.tag(m, "m")
            return m
        if k == "gcm":
            body = [self.build(c) for c in node["body"]]
            exiting = node.get("exiting", False)
            if node["async"]:
                if len(body) == 0:
                    async def agen():
                        try:
                            yield 1
                        finally:
                            if exiting:
                                await trap()
                elif len(body) == 1:
                    async def agen():
                        with body[0]:
                            try:
                                yield 1
                            finally:
                                if exiting:
                                    await trap()
                else:
                    async def agen():
                        with body[0], body[1]:
                            try:
                                yield 1
                            finally:
                                if exiting:
                                    await trap()
                m = contextlib.asynccontextmanager(agen)()
            else:
                if len(body) == 0:
                    def inner():
                        yield 1
                elif len(body) == 1:
                    def inner():
                        with body[0]:
                            yield 1
                else:
                    def inner():
                        with body[0], body[1]:
                            yield 1
                gen = inner
                for lvl in range(int(node.get("yield_from") or 0)):
                    def mk(prev, lvl):
                        def deleg():
                            yield from prev()
                        deleg.__name__ = "gen" if lvl == int(node["yield_from"]) - 1 else f"lvl{lvl}"
                        deleg.__qualname__ = deleg.__name__
                        deleg.__code__ = deleg.__code__.replace(co_name=deleg.__name__, co_qualname=deleg.__name__)
                        return deleg
                    gen = mk(gen, lvl)
                m = contextlib.contextmanager(gen)()
            node["_tag"] = self.tag(m, "m")
            return m
        # exit stack
        st: Any = contextlib.AsyncExitStack() if node["async"] else contextlib.ExitStack()
        if node.get("tx"):
            # an exit stack of the application's own (a unit of work) whose clean-up method is not called __exit__
            class Tx(contextlib.ExitStack):
                def rollback(s, *a):
                    return False
            st = Tx()
        node["_tag"] = self.tag(st, "m")
        for op in node["ops"]:
            name, child = op[0], op[1]
            if name == "enter_context":
                st.enter_context(self.build(child))
            elif name == "push_mgr":
                st.push(self.build(child))
            elif name == "enter_async_context":
                self.drive(st.enter_async_context(self.build(child)))
            elif name == "push_async_exit_mgr":
                st.push_async_exit(self.build(child))
            elif name in ("push_fn", "push_async_exit_fn"):
                if name == "push_fn":
                    def exit_fn(*a):
                        return False
                else:
                    async def exit_fn(*a):
                        return False
                op.append(self.tag(exit_fn, "f"))
                (st.push if name == "push_fn" else st.push_async_exit)(exit_fn)
            elif name == "push_bound_stack":
                tx = self.build(child)
                st.push(tx.rollback)
            elif name == "push_bound":
                class Holder:
                    def my_exit(s, *a):
                        return False
                h = Holder()
                op.append(self.tag(h, "m"))
                st.push(h.my_exit)
            elif name == "push_builtin_bound":
                # the __exit__ of a C-implemented manager (a lock): a bound method with __self__ but no __func__
                import threading as _th

                lk = _th.Lock()
                lk.acquire()
                op.append(self.tag(lk, "m"))
                st.push(lk.__exit__)
            elif name == "callback_probe":
                # a plain synchronous callback that takes the observation: it runs while the stack's __aexit__ is EXECUTING
                def probe_cb(b=self):
                    b.probe_result = b.on_probe()
                op.append(self.tag(probe_cb, "w"))
                st.callback(probe_cb)
            elif name == "push_builtin_fn":
                # a builtin function: it has a __self__ (its module) without being bound to any manager
                op.append(self.ids.get(id(print)) or self.tag(print, "f"))     # (the same object every time)
                st.push(print)
            elif name in ("callback", "push_async_callback"):
                if name == "callback":
                    def cb(*a, **kw):
                        return None
                else:
                    async def cb(*a, **kw):
                        return None
                op.append(self.tag(cb, "w"))
                (st.callback if name == "callback" else st.push_async_callback)(cb, 1, x=2)
        return st


METHOD = {"callback_probe": "callback", "enter_context": "enter_context", "push_mgr": "enter_context", "push_fn": "push", "push_bound": "push", "push_bound_stack": "push", "push_builtin_bound": "push", "push_builtin_fn": "push",
          "callback": "callback",
          "enter_async_context": "enter_async_context", "push_async_exit_mgr": "enter_async_context",
          "push_async_exit_fn": "push_async_exit", "push_async_callback": "push_async_callback"}


def expected(node: dict, exiting_root: bool = False, entered: bool = True) -> tuple:
    """The Context tree the property demands for this node (spec unfolding).  `entered`: the manager's
    __enter__ has run (push(manager) registers a manager without entering it)."""
    k = node["kind"]
    if k == "plain":
        return ("C", node["_tag"], node["async"], None, [])
    if k == "gcm":
        if exiting_root:
            inner = None
        elif not entered:
            # the generator exists but has not started: one frame, nothing active in it
            first = "gen" if node.get("yield_from") else ("agen" if node["async"] else "inner")
            inner = [(first, [])]
        else:
            body_ctxs = [expected(c) for c in node["body"]]
            yf = int(node.get("yield_from") or 0)
            frames = (["gen"] + [f"lvl{i}" for i in range(yf - 2, -1, -1)] + ["inner"]) if yf else ["inner" if not node["async"] else "agen"]
            inner = [(fn, body_ctxs if i == len(frames) - 1 else []) for i, fn in enumerate(frames)]
        return ("C", node["_tag"], node["async"], inner, [])
    kids = []
    for idx, op in enumerate(node["ops"]):
        name, child = op[0], op[1]
        is_async = name in ASYNC_OPS
        if child is not None:
            sub = expected(child, entered=name in ("enter_context", "enter_async_context"))
            kids.append(("K", idx, sub[1], is_async, METHOD[name], sub[3], sub[4]))
        else:
            kids.append(("K", idx, op[2], is_async, METHOD[name], None, []))
    return ("C", node["_tag"], node["async"], None, kids)


def observe_ctx(c, ids: Dict[int, str], child_idx=None) -> tuple:
    import stackscope

    obj = c.obj
    tag = ids.get(id(obj))
    if tag is None and hasattr(obj, "__wrapped__"):
        tag = ids.get(id(obj.__wrapped__))         # callback(): obj is contextlib's _exit_wrapper around the function
    inner = None
    if c.inner_stack is not None:
        inner = [(f.funcname, [observe_ctx(x, ids) for x in f.contexts]) for f in c.inner_stack.frames]
    kids = []
    for i, ch in enumerate(c.children):
        if isinstance(ch, stackscope.Context):
            o = observe_ctx(ch, ids)
            desc = ch.description or ""
            method = desc.split("(")[0].split(".")[-1] if "(" in desc else "?"
            pre = desc.split(".")[0]
            kids.append(("K", int((ch.varname or "?[-1]").rsplit("[", 1)[1].rstrip("]")), o[1], ch.is_async, method, o[3], o[4]))
        else:
            kids.append(("S",))
    if child_idx is None:
        return ("C", tag, c.is_async, inner, kids)
    return ("C", tag, c.is_async, inner, kids)


class C09(PropCheck):
    pid = "C09"
    real_time_limit = 30.0
    rule = ("trees of depth <= 3 (quick) / <= 5 (thorough): plain managers (sync/async, some falsy), generator-based managers "
            "(sync/async, with or without yield from, 0-2 managers in their body), ExitStack / AsyncExitStack with 0-5 random "
            "registration calls out of the eight (push also with a builtin function and a builtin bound method; managers also with an aliased or decorated exit method); observed suspended in the body, (async generator-based roots) while "
            "exiting, and (async exit stacks) while the stack is exiting with earlier registrations still pending; non-trivial = the tree has an exit stack with children or a generator-based manager with a body")
    manifest = {
        "text": "Lean: C09_children (for any sequence of the eight registration calls, the exit stack's context gets exactly one child per callback, in registration order, identifying the manager or callable, its sync/async kind, the method and the position — classify ∘ register = specOf), C09_one_child_per_callback, C09_order, C09_kind, C09_manager_is_obj (whatever the manager's truthiness: the repaired F10), C09_F22_repaired (a pushed builtin is not taken for a manager because it has a __self__; a manager whose exit method goes by another name is still reported as entered), C09_exiting (the generator-based glue sets inner_stack exactly when the manager is not exiting), C09_history (after ANY history of registrations, pop_all() calls and unwinding pops the stack's children are exactly the still-pending registrations in order, and the stack pop_all() returned shows exactly those pending when it was called), C09_stable_under_registration, C09_stable_under_unwinding (children already shown keep identity and [index]), C09_pop_all. Tie: real ExitStack driven through random registration / pop_all() histories and observed while unwinding from inside the running callback vs the model's runEvs; real ExitStack / AsyncExitStack children vs the model; the full nested tree (inner stacks, their frames' contexts, children of children) is compared with a Python unfolding of the generated tree description on every run.",
        "note": "What contextlib stores in _exit_callbacks for each registration method is CPython behaviour: assumed by the model (register), exercised by every stack in the corpus. The recursive unfolding of the whole tree is checked by the oracle, not proved.",
    }
    assumptions = ["contextlib's _exit_callbacks entries are as in CPython 3.12", "push(manager) and enter_context(manager) store identical entries"]

    def cases(self, rng, tier):
        out = []
        n = 200 if tier == "quick" else 2500
        dmax = 3 if tier == "quick" else 5
        for _ in range(n):
            node = rand_node(rng, rng.randint(1, dmax))
            if node["kind"] == "gcm" and node["async"] and rng.random() < 0.5:
                node["exiting"] = True
                node["exit_by"] = rng.choice(["fallthrough", "exception"])
            if node["kind"] == "stack" and node["async"] and rng.random() < 0.5:
                # observed while the stack itself is exiting: suspended in the cleanup of the last registration, the earlier
                # ones still pending
                node["ops"].append(["enter_async_context", {"kind": "plain", "async": True, "falsy": False, "block": True}])
                node["stack_exiting"] = True
                node["exit_by"] = rng.choice(["fallthrough", "exception"])
            case = {"k": "tree", "node": node}
            if (node.get("exiting") or node.get("stack_exiting")) and node.get("exit_by") == "fallthrough":
                case["body"] = rng.choice([None, "try_raise", "try_return"])
            if (node.get("exiting") or node.get("stack_exiting")) and not case.get("body") and rng.random() < 0.4:
                case["wrapped"] = True
            if not node.get("exiting") and not node.get("stack_exiting") and rng.random() < 0.3:
                # the same unfolding when the bytecode analysis is unavailable (gc-referents fallback): which managers are active in
                # each generator frame is then read off the generator object
                case["mode"] = "referents"
            out.append(case)
            if not node.get("exiting") and not node.get("stack_exiting") and "mode" not in case and len(out) % 4 == 0:
                # observed from the __enter__ of the NEXT manager the holder enters (nested statement, or next item of the same one)
                out.append({"k": "tree", "node": json.loads(json.dumps(node)), "enter_probe": rng.choice(["nested", "item"])})
            if node["kind"] == "stack" and node["async"] and not node.get("stack_exiting") and len(out) % 3 == 0:
                # observed from a synchronous callback that the exiting stack is running: the `async with` is exiting while its
                # __aexit__ is executing, not suspended
                n2 = json.loads(json.dumps(node))
                n2["ops"].append(["callback_probe", None])
                n2["stack_exiting_running"] = True
                n2["exit_by"] = rng.choice(["fallthrough", "exception"])
                out.append({"k": "tree", "node": n2})
        # the stack over time (Lean: runEvs / C09_history): registrations interleaved with pop_all(), then 0..k callbacks already popped
        # by the unwinding stack (observed from the callback that is running)
        for _ in range(40 if tier == "quick" else 600):
            evs = []
            for _i in range(rng.randint(0, 8)):
                r = rng.random()
                if r < 0.2:
                    evs.append(["pop_all"])
                else:
                    evs.append([rng.choice(["enter_context", "callback", "push_fn", "push_mgr"]), 0])
            out.append({"k": "hist", "evs": evs, "unwind": rng.choice([0, 0, 1, 2, 3]), "node": {"kind": "hist", "async": False}})
        # generator-based managers that reach their yield through a delegation chain longer than any loop guard of the traversal
        for yf, nbody in ((105, 1), (130, 2), (101, 0)):
            out.append({"k": "tree", "node": {"kind": "gcm", "async": False, "yield_from": yf,
                                              "body": [{"kind": "plain", "async": False, "falsy": False, "style": 0}
                                                       for _ in range(nbody)]}})
        return out

    def run_real(self, case):
        import stackscope

        node = json.loads(json.dumps(case["node"]))     # fresh copy: tags are filled in by the builder
        b = Builder()
        root = b.build(node)
        exiting = node.get("exiting", False)
        running = node.get("stack_exiting_running", False)
        stack_exiting = node.get("stack_exiting", False) or running

        enter_probe = bool(case.get("enter_probe")) and not (exiting or stack_exiting)

        class Prober:
            """Observes from inside its own __enter__: the holder's frame is executing, in the middle of entering the next with."""

            def __enter__(s):
                b.probe_result = stackscope.extract(co)
                return s

            def __exit__(s, *a):
                return False

        body = case.get("body")
        if node["async"] and body in ("try_raise", "try_return") and (exiting or stack_exiting) and node.get("exit_by") != "exception":
            # the block is left normally and its last statement is a try/except all of whose handlers leave by raise / return
            if body == "try_raise":
                async def holder():
                    async with root as st:
                        try:
                            b.touched = 1
                        except OSError as ex:
                            raise KeyError("wrapped") from ex
            else:
                async def holder():
                    async with root as st:
                        try:
                            b.touched = 1
                        except OSError:
                            return
                        except KeyError:
                            return
        elif node["async"] and case.get("wrapped") and (exiting or stack_exiting):
            # the same frame holds another manager around the one under observation
            import contextlib as _clw

            outer_cm = _clw.nullcontext()

            async def holder():
                with outer_cm:
                    async with root as st:
                        if node.get("exit_by") == "exception":
                            raise KeyError("leaving the block by exception")
        elif node["async"]:
            async def holder():
                async with root as st:
                    if enter_probe:
                        with Prober():
                            await trap()
                    elif not (exiting or stack_exiting):
                        await trap()
                    elif node.get("exit_by") == "exception":
                        raise KeyError("leaving the block by exception")
        elif enter_probe and case.get("enter_probe") == "item":
            async def holder():
                with root as st, Prober():          # the second item of the same statement
                    await trap()
        elif enter_probe:
            async def holder():
                with root as st:
                    with Prober():
                        await trap()
        else:
            async def holder():
                with root as st:
                    await trap()

        co = holder()
        if running:
            b.on_probe = lambda: stackscope.extract(co)
            import contextlib as _cl
            import io as _io

            try:
                with _cl.redirect_stdout(_io.StringIO()):       # (a pushed `print` is called when the stack unwinds)
                    co.send(None)
            except Exception:
                pass      # the probe ran first (last registered, first called); what the other registrations do while unwinding is theirs
            if not hasattr(b, "probe_result"):
                self._probs = ["the probing callback never ran"]
                return "?"
        else:
            co.send(None)
        if case.get("mode") == "referents":
            stackscope.lowlevel.set_trickery_enabled(False)
        try:
            try:
                s = b.probe_result if (running or enter_probe) else stackscope.extract(co)
            finally:
                stackscope.lowlevel.set_trickery_enabled(None)
            f0 = s.frames[0]
            probs = []
            if s.error is not None:
                probs.append(f"error {s.error!r}")
            nwrap = 1 if (node["async"] and case.get("wrapped") and (exiting or stack_exiting)) else 0
            if len(f0.contexts) != 1 + nwrap:
                probs.append(f"holder frame has {len(f0.contexts)} contexts")
                self._probs = probs
                return "?"
            ctx = f0.contexts[nwrap]
            got = observe_ctx(ctx, b.ids)
            if stack_exiting:
                node["ops"] = node["ops"][:-1]          # the blocker has been popped: every earlier registration is still pending
            want = expected(node, exiting_root=exiting)
            if ctx.is_exiting != (exiting or stack_exiting):
                probs.append(f"is_exiting={ctx.is_exiting}, expected {exiting or stack_exiting}")
            if got != want:
                probs.append(f"context tree differs from the unfolding of the registered managers: observed {got} expected {want}")
            if exiting:
                names = [f.funcname for f in s.frames]
                if "agen" not in names:
                    probs.append(f"exiting generator-based manager: its generator frame is not in the main frame series {names}")
            self._probs = probs
            # for the Lean leg: the root's children, if it is a stack
            if node["kind"] == "stack":
                case["_ops"] = []
                for op in node["ops"]:
                    t = (op[1]["_tag"] if op[1] is not None else op[2])
                    name = op[0]
                    if op[1] is not None and op[1]["kind"] == "plain" and op[1].get("style") and not op[1].get("block"):
                        # what contextlib stores is a method object whose __func__ goes by another name
                        name = "enter_async_context_aliased" if name in ASYNC_OPS else "enter_context_aliased"
                    if name == "push_bound_stack":
                        name = "push_bound"          # (for the registration model: a bound method of some object)
                    case["_ops"].append([name, int(t[1:])])
                kids = []
                for k in got[4]:
                    if k[0] != "K":
                        kids.append("?")
                        continue
                    desc_ctx = ctx.children[len(kids)]
                    aw = "await " if (desc_ctx.description or "").startswith("await ") else ""
                    kids.append(f"{k[1]}:{k[2]}:{'async' if k[3] else 'sync'}:{aw}{k[4]}")
                return " ".join(kids)
            return "tree-only"
        finally:
            import contextlib as _cl
            import io as _io

            with _cl.redirect_stdout(_io.StringIO()):      # (a pushed `print` is called when the stack unwinds)
                co.close()

    def model_line(self, case):
        if case.get("k") == "hist":
            return json.dumps({"p": "C09", "evs": case.get("_evs", []), "nomoved": bool(case.get("_moved_gone"))})
        if "_ops" not in case:
            return None
        return json.dumps({"p": "C09", "ops": case["_ops"]})

    def canon(self, case, real):
        return real

    def oracle(self, case, real):
        return self._oracles.get(id(case))

    def nontrivial_key(self, case, real):
        if case.get("k") == "hist":
            return json.dumps([case["evs"], case["unwind"]]) if any(e[0] != "pop_all" for e in case["evs"]) else None
        s = json.dumps(case["node"])
        if '"ops": [[' in s or '"body": [{' in s:
            return s
        return None

    def stats(self, cases, reals):
        d = {"trees": len(cases), "root_stack": 0, "root_gcm": 0, "exiting": 0, "ops_total": 0, "by_op": {}}
        d["histories"] = sum(c.get("k") == "hist" for c in cases)
        d["histories_unwinding"] = sum(c.get("k") == "hist" and bool(c.get("unwind")) for c in cases)
        d["history_events"] = sum(len(c.get("_evs", [])) for c in cases if c.get("k") == "hist")
        d["history_pop_all"] = sum(sum(e[0] == "pop_all" for e in c["evs"]) for c in cases if c.get("k") == "hist")
        for c in cases:
            n = c["node"]
            d["root_stack"] += n["kind"] == "stack"
            d["root_gcm"] += n["kind"] == "gcm"
            d["exiting"] += bool(n.get("exiting"))
            s = json.dumps(n)
            for op in SYNC_OPS + ASYNC_OPS:
                k = s.count(f'["{op}"')
                d["by_op"][op] = d["by_op"].get(op, 0) + k
                d["ops_total"] += k
        return d


_orig = C09.run_real


def run_hist(self, case):
    """A real ExitStack driven through registrations and pop_all(), then unwound; observed (k callbacks popped) from inside the
    callback the unwinding stack is running.  Returns the children of the stack and of the stack pop_all() returned, in the driver's
    notation; case["_evs"] gets the events as the model is to replay them."""
    import contextlib
    import stackscope

    n = [0]
    seen = {}

    class _Tags(dict):
        """id -> tag; every tagged object is kept alive for the whole run, so that no id is ever reused by a later object
        (stacks dropped by a second pop_all() free their callbacks, and contextlib's wrapper of a later one can get such an id)"""
        keep: list = []

        def __setitem__(s, k, v):
            super().__setitem__(k, v)

    tags = _Tags()
    keep = []

    class M:
        def __enter__(s):
            return s

        def __exit__(s, *a):
            return False

    def kids(ctx):
        out = []
        for ch in ctx.children:
            o = ch.obj
            t = tags.get(id(o)) or tags.get(id(getattr(o, "__wrapped__", None))) or "?"
            desc = ch.description or ""
            method = desc.split("(")[0].split(".")[-1] if "(" in desc else "?"
            idx = int((ch.varname or "?[-1]").rsplit("[", 1)[1].rstrip("]"))
            out.append(f"{idx}:{t}:{'async' if ch.is_async else 'sync'}:{method}")
        return " ".join(out)

    evs_model = []
    box = []

    def holder():
        with contextlib.ExitStack() as stack:
            moved = contextlib.ExitStack()
            for ev in case["evs"]:
                if ev[0] == "pop_all":
                    keep.append(moved)
                    moved = stack.pop_all()
                    evs_model.append(["pop_all"])
                    continue
                n[0] += 1
                k = n[0]
                if ev[0] in ("enter_context", "push_mgr"):
                    m = M()
                    tags[id(m)] = f"m{k}"
                    keep.append(m)
                    (stack.enter_context if ev[0] == "enter_context" else stack.push)(m)
                elif ev[0] == "callback":
                    def cb():
                        pass
                    tags[id(cb)] = f"w{k}"
                    keep.append(cb)
                    stack.callback(cb)
                else:
                    def fn(*a):
                        return False
                    tags[id(fn)] = f"f{k}"
                    keep.append(fn)
                    stack.push(fn)
                evs_model.append([ev[0], k])
            # the probe: registered `unwind` positions from the end, so that it runs after `unwind`-1 later callbacks were popped
            nu = case["unwind"]
            if nu:
                def probe():
                    seen["st"] = stackscope.extract(box[0])
                n[0] += 1
                tags[id(probe)] = f"w{n[0]}"
                keep.append(probe)
                stack.callback(probe)
                evs_model.append(["callback", n[0]])
                for _ in range(nu - 1):
                    n[0] += 1
                    def later():
                        pass
                    tags[id(later)] = f"w{n[0]}"
                    keep.append(later)
                    stack.callback(later)
                    evs_model.append(["callback", n[0]])
                evs_model.extend([["pop_one"]] * nu)
            with moved:
                yield "ready"

    g = holder()
    box.append(g)
    next(g)
    if case["unwind"]:
        # leave the inner `with moved` and let the stack unwind; the probe extracts the running generator from inside
        try:
            next(g)
        except StopIteration:
            pass
        st = seen.get("st")
        if st is None:
            self._probs.append("the probing callback never ran")
            return "?"
        ctxs = st.frames[0].contexts
        case["_evs"] = evs_model
        if len(ctxs) != 1 or not ctxs[0].is_exiting:
            self._probs.append(f"unwinding stack: holder frame has {len(ctxs)} contexts / is_exiting={[c.is_exiting for c in ctxs]}")
            return "?"
        # (the stack that pop_all() returned has been exited and is gone: the model's `moved` column is not observable any more)
        case["_moved_gone"] = True
        return f"{kids(ctxs[0])} | -"
    st = stackscope.extract(g)
    case["_evs"] = evs_model
    ctxs = st.frames[0].contexts
    g.close()
    if len(ctxs) != 2:
        self._probs.append(f"holder frame has {len(ctxs)} contexts, expected the stack and the one pop_all() returned")
        return "?"
    return f"{kids(ctxs[0])} | {kids(ctxs[1])}"


def _canon_hist(self, case, real):
    return real


def _run(self, case):
    if not hasattr(self, "_oracles"):
        self._oracles = {}
    self._probs = []
    if case.get("k") == "hist":
        r = run_hist(self, case)
        self._oracles[id(case)] = "; ".join(self._probs[:2])[:1200] if self._probs else None
        return r
    r = _orig(self, case)
    self._oracles[id(case)] = "; ".join(self._probs[:2])[:1200] if self._probs else None
    return r


C09.run_real = _run  # type: ignore[assignment]
CHECK = C09()
