"""C20 — fallback analysis is a sound ordered over-approximation; failures only warn.

  referents  the C01 program space observed at every suspension point with trickery disabled: every truly active
             manager is present, in order, with the right obj and is_async; any other entry is the manager being
             entered or exited right now; an is_exiting entry exists exactly when an exit call is in progress;
  faults     an exception injected at the k-th call of each helper inside the trickery analysis, for every k:
             exactly one InspectionWarning, no exception, the referents result;
  modes      random sequences of set_trickery_enabled(True/False/None) and queries, from 1-3 threads in a forced
             order, compared with the Lean model `SS.Trickery.run`.
"""
from __future__ import annotations

import contextlib
import io
import json
import random
import sys
import threading
import warnings
from typing import Any, Dict, List, Optional

from .. import progs
from ..core import PropCheck


def observe_referents(w: progs.World, problems: List[str], records: List[dict]):
    from stackscope import _lowlevel as ll

    truth = w.truth()
    entering = w.entering()
    ids = {id(m): k for k, m in w.mgrs.items()}
    with warnings.catch_warnings(record=True) as caught, contextlib.redirect_stderr(io.StringIO()):
        warnings.simplefilter("always")
        ctxs = ll.contexts_active_in_frame(w.frame, getattr(w, "origin", w.target))
    got = [(ids.get(id(c.obj), None if c.obj is None else "?"), c.is_async, c.is_exiting) for c in ctxs]
    records.append({"lasti": w.frame.f_lasti, "got": got})
    judge_referents(w, got, truth, entering, problems, "")
    if [x for x in caught if "trickery" in str(x.message).lower()]:
        problems.append("a warning was issued although trickery is disabled")
    # the same through extract(): the frame that the program's frame is calling is then known, and the exiting entry's obj is
    # inferred from it
    import stackscope

    with warnings.catch_warnings(record=True), contextlib.redirect_stderr(io.StringIO()):
        warnings.simplefilter("always")
        st = stackscope.extract(w.target)
    fr = [f for f in st.frames if f.pyframe is w.frame]
    if st.error is not None or not fr:
        problems.append(f"f_lasti={w.frame.f_lasti}: extract() in referents mode: error {st.error!r}, program frame present: {bool(fr)}")
    else:
        got2 = [(ids.get(id(c.obj), None if c.obj is None else "?"), c.is_async, c.is_exiting) for c in fr[0].contexts]
        judge_referents(w, got2, truth, entering, problems, "via extract(): ")


def judge_referents(w, got, truth, entering, problems, label):
    is_async = lambda mid: type(w.mgrs[mid]).__name__.endswith("AMgr")
    active = [(mid, is_async(mid)) for mid, ex in truth if not ex]
    exiting = [mid for mid, ex in truth if ex]
    # ordered sub-list
    it = iter([(g[0], g[1]) for g in got if not g[2]])
    for a in active:
        for g in it:
            if g == a:
                break
        else:
            problems.append(f"{label}f_lasti={w.frame.f_lasti}: referents mode lost or reordered active manager {a}: got {got}, active {active}")
            break
    extras = [g for g in got if not g[2] and (g[0], g[1]) not in active]
    for g in extras:
        if g[0] not in ([entering] + exiting):
            problems.append(f"{label}f_lasti={w.frame.f_lasti}: extra entry {g} is neither being entered ({entering}) nor exited ({exiting}); got {got}")
    ex_entries = [g for g in got if g[2]]
    if bool(ex_entries) != bool(exiting):
        problems.append(f"{label}f_lasti={w.frame.f_lasti}: is_exiting entries {ex_entries} but exit in progress: {exiting}")
    if ex_entries and (got[-1] != ex_entries[0] or len(ex_entries) != 1 or ex_entries[0][1] != is_async(exiting[0])):
        problems.append(f"{label}f_lasti={w.frame.f_lasti}: the is_exiting entry is not the single last entry with the right is_async: {got}")


class C20(PropCheck):
    pid = "C20"
    real_time_limit = 60.0
    rule = ("referents: the C01 program generator (generator / coroutine / async generator) x choice lists, every suspension point, "
            "trickery disabled; faults: 12 programs x each of analyze_with_blocks / inspect_frame / currently_exiting_context raising "
            "at the k-th call for every k; modes: random op sequences (length <= 14) on 1-3 threads; non-trivial = a manager active "
            "/ a fault fired / a set op present")
    manifest = {
        "text": "Lean: C20_mode (for every sequence of set_trickery_enabled calls and queries each query sees the latest set value, auto-detection after None), C20_set_takes_effect, C20_fail_warns (any exception inside the trickery analysis: referents result, exactly one warning, nothing raised) with C20_no_spurious_warning, C20_sound_ordered (any sub-sequence of the frame's exit-method references appears, in order, with the same obj and is_async), C20_exiting_iff (an is_exiting entry exactly when an exit is in progress, and last), C20_extras_are_referenced; C20_fast_path_source (the unlocked fast path of _check_trickery_available loads the setting once: count re-read from the source on every run) and C20_fast_path_atomic (with that fast path, whatever other threads do to the setting between any two steps of the call, it returns a Boolean that one of the settings it saw stands for, never None) with C20_F55_old_code_witness (the two-read fast path before F55 returns None when set_trickery_enabled(None) lands between the reads); tied to the real function by forcing set_trickery_enabled(v1) into the second step of a call made under setting v0, for all nine (v0, v1). That the truly active managers' exit methods ARE such a sub-sequence of gc.get_referents (CPython's frame traversal order) and that extras can only be the manager being entered or exited is measured on generated programs at every suspension point.",
        "note": "Partial as C01 for the compiler/runtime half. The mode switch is modelled sequentially (lock = atomic steps); threads are exercised in a forced order.",
    }
    assumptions = ["gc.get_referents(generator) yields locals then value-stack slots bottom to top"]

    def setup(self):
        import stackscope

        self.ss = stackscope

    def teardown(self):
        self.ss.lowlevel.set_trickery_enabled(None)

    def cases(self, rng, tier):
        out = []
        n = 150 if tier == "quick" else 2000
        dmax = 3 if tier == "quick" else 4
        for _ in range(n):
            out.append({"k": "referents", "kind": rng.choice(["gen", "coro", "agen", "agen_in_coro"]), "pseed": rng.randrange(1 << 30),
                        "depth": rng.randint(1, dmax), "choices": [rng.randrange(6) for _ in range(rng.randint(0, 14))],
                        "traced": rng.random() < 0.25})
        for ci, (kind, _src) in enumerate(progs.CORPUS):
            if kind != "sync":
                for ch in ([], [1], [0, 1], [1, 0, 1], [0, 0, 1, 1], [1, 1, 0, 1, 0]):
                    out.append({"k": "referents", "kind": kind, "corpus": ci, "pseed": 0, "depth": 0, "choices": ch})
                    if kind == "agen":
                        out.append({"k": "referents", "kind": "agen_in_coro", "corpus": ci, "pseed": 0, "depth": 0, "choices": ch})
        for _ in range(12 if tier == "quick" else 80):
            out.append({"k": "faults", "kind": rng.choice(["gen", "coro"]), "pseed": rng.randrange(1 << 30), "depth": 2,
                        "choices": [rng.randrange(6) for _ in range(8)]})
        for _ in range(60 if tier == "quick" else 600):
            ops: List[Any] = []
            for _ in range(rng.randint(1, 14)):
                ops.append("query" if rng.random() < 0.55 else ["set", rng.choice([True, False, None])])
            out.append({"k": "modes", "ops": ops, "threads": rng.randint(1, 3), "tseed": rng.randrange(1 << 30)})
        for v0 in (False, True, None):
            for v1 in (False, True, None):
                out.append({"k": "fastpath", "v0": v0, "v1": v1})
        for exc in ("RuntimeError", "OSError", "ZeroDivisionError", "KeyError", "AssertionError", "NotImplementedError", "SystemError", "OverflowError"):
            for helper in ("analyze_with_blocks", "inspect_frame"):
                out.append({"k": "selftest_fault", "exc": exc, "helper": helper})
        for v in (False, True, None):
            out.append({"k": "race", "value": v})
            out.append({"k": "race", "value": v, "shape": "set_before_lock"})
        out.append({"k": "race", "value": None, "shape": "query_during_detection"})
        return out

    def run_real(self, case):
        ll = self.ss.lowlevel
        self._probs: List[str] = []
        if case["k"] == "referents":
            ll.set_trickery_enabled(False)
            try:
                gk = "agen" if case["kind"] == "agen_in_coro" else case["kind"]
                src = progs.CORPUS[case["corpus"]][1] if "corpus" in case else progs.gen_program(random.Random(case["pseed"]), gk, case["depth"])
                recs: List[dict] = []
                traced = bool(case.get("traced"))
                if traced:
                    # the program runs under a debugger / coverage tool: its frames carry a trace function (f_trace)
                    def _local(frame, event, arg):
                        return _local

                    def _tracer(frame, event, arg):
                        return _local if frame.f_code.co_filename == "<prog>" else None

                    sys.settrace(_tracer)
                try:
                    progs.run_program(src, case["kind"], case["choices"],
                                      lambda w, label: observe_referents(w, self._probs, recs) if label == "suspended" else None)
                finally:
                    if traced:
                        sys.settrace(None)
                case["_obs"] = len(recs)
                return json.dumps([[r["lasti"], r["got"]] for r in recs])
            finally:
                ll.set_trickery_enabled(None)
        if case["k"] == "faults":
            return self.run_faults(case)
        if case["k"] == "race":
            return self.run_race(case)
        if case["k"] == "fastpath":
            return self.run_fastpath(case)
        if case["k"] == "selftest_fault":
            return self.run_selftest_fault(case)
        return self.run_modes(case)

    def run_selftest_fault(self, case):
        """Auto-detection is pending (mode None) and the self-test that the first inspection triggers fails with an exception of the
        given type: a warning and the referents analysis, never an exception out of contexts_active_in_frame."""
        from stackscope import _lowlevel as L

        excs = {"RuntimeError": RuntimeError("injected"), "OSError": OSError("injected"), "ZeroDivisionError": ZeroDivisionError(),
                "KeyError": KeyError(3), "AssertionError": AssertionError(), "NotImplementedError": NotImplementedError(),
                "SystemError": SystemError("injected"), "OverflowError": OverflowError()}
        ex = excs[case["exc"]]

        class M:
            def __enter__(s):
                return s

            def __exit__(s, *a):
                return False

        m = M()

        def gen():
            with m:
                yield

        g = gen()
        next(g)
        L.set_trickery_enabled(None)
        orig = getattr(L, case["helper"])
        calls = [0]

        def wrapper(*a, **kw):
            calls[0] += 1
            if calls[0] == 1:
                raise ex
            return orig(*a, **kw)

        setattr(L, case["helper"], wrapper)
        out = "?"
        try:
            with warnings.catch_warnings(record=True) as caught, contextlib.redirect_stderr(io.StringIO()):
                warnings.simplefilter("always")
                try:
                    res = L.contexts_active_in_frame(g.gi_frame, g)
                    nwarn = sum(issubclass(x.category, L.InspectionWarning) for x in caught)
                    objs = [c.obj for c in res]
                    out = f"contexts={len(res)} warnings={min(nwarn, 1)}"
                    if objs != [m]:
                        self._probs.append(f"self-test failing with {case['exc']} in {case['helper']}: contexts {objs}, the active manager is {m}")
                    if calls[0] and nwarn == 0:
                        self._probs.append(f"self-test failing with {case['exc']} in {case['helper']}: no InspectionWarning")
                except Exception as e:  # noqa: BLE001
                    out = f"raised {type(e).__name__}"
                    self._probs.append(f"auto-detection pending and the self-test fails with {case['exc']} (in {case['helper']}): "
                                       f"contexts_active_in_frame raised {type(e).__name__} instead of warning and falling back")
        finally:
            setattr(L, case["helper"], orig)
            L.set_trickery_enabled(None)
        return out

    def run_fastpath(self, case):
        """One call of _check_trickery_available() while another thread's set_trickery_enabled(v1) completes between two steps of
        its fast path (forced with a line hook on the second line the call executes); the setting before the call is v0."""
        from stackscope import _lowlevel as L

        v0, v1 = case["v0"], case["v1"]
        L.set_trickery_enabled(v0)
        code = L._check_trickery_available.__code__
        state = {"lines": 0, "ran": False}

        def local(frame, event, arg):
            if event == "line":
                state["lines"] += 1
                if state["lines"] == 2 and not state["ran"]:
                    state["ran"] = True
                    t = threading.Thread(target=L.set_trickery_enabled, args=(v1,))
                    t.start()
                    t.join()
            return local

        def tracer(frame, event, arg):
            return local if frame.f_code is code else None

        with warnings.catch_warnings():
            warnings.simplefilter("ignore")
            sys.settrace(tracer)
            try:
                r = L._check_trickery_available()
            finally:
                sys.settrace(None)
        if not state["ran"]:
            self._probs.append("harness: the fast-path window was not reached")
        explained = {True if v is None else v for v in (v0, v1)}          # (auto-detection yields True on this interpreter)
        if r not in explained or r is None:
            self._probs.append(f"setting {v0!r} before the call, set_trickery_enabled({v1!r}) completing inside its fast path: the call "
                               f"returned {r!r}; the settings it can have seen stand for {sorted(explained)}")
        L.set_trickery_enabled(None)
        return "N" if r is None else ("T" if r else "F")

    def run_race(self, case):
        """set_trickery_enabled(v) issued by another thread while auto-detection is in progress: once the set call
        has returned, every later query must see v."""
        from stackscope import _lowlevel as L

        if case.get("shape") == "set_before_lock":
            return self.run_race_before_lock(case)
        if case.get("shape") == "query_during_detection":
            return self.run_query_during_detection()
        L.set_trickery_enabled(None)
        in_detect, go = threading.Event(), threading.Event()
        orig = L._contexts_active_by_trickery
        first = [True]

        def slow(frame):
            if first[0] and threading.current_thread().name == "detector":
                first[0] = False
                in_detect.set()
                go.wait(3)
            return orig(frame)

        L._contexts_active_by_trickery = slow
        try:
            a = threading.Thread(target=lambda: self.probe_mode(), name="detector")
            a.start()
            if not in_detect.wait(3):
                go.set()
                a.join(5)
                return "no-detection-window"
            b = threading.Thread(target=lambda: L.set_trickery_enabled(case["value"]), name="setter")
            b.start()
            b.join(0.3)          # with the lock it waits for the detection to finish; without it, it returns at once
            go.set()
            a.join(5)
            b.join(5)
        finally:
            L._contexts_active_by_trickery = orig
        with warnings.catch_warnings():
            warnings.simplefilter("ignore")
            seen = self.probe_mode()
        want = True if case["value"] is None else case["value"]
        L.set_trickery_enabled(None)
        if seen != want:
            self._probs.append(f"set_trickery_enabled({case['value']}) issued during another thread's auto-detection was lost: "
                               f"a later query sees trickery={'on' if seen else 'off'}")
        return "T" if seen else "F"

    def run_race_before_lock(self, case):
        """A thread has seen 'not decided yet' on the fast path of _check_trickery_available and is about to take the lock; before it
        does, set_trickery_enabled(v) runs to completion on another thread.  The first thread must honour that decision (it looks
        again under the lock), and so must everybody afterwards."""
        import linecache

        from stackscope import _lowlevel as L

        L.set_trickery_enabled(None)
        code = L._check_trickery_available.__code__
        at_lock, setter_done = threading.Event(), threading.Event()
        fired = [False]
        seen_b: List[Any] = []

        def local(frame, event, arg):
            if event == "line" and not fired[0] and "with _trickery_lock" in linecache.getline(code.co_filename, frame.f_lineno):
                fired[0] = True
                at_lock.set()
                setter_done.wait(3)
            return local

        def tracer(frame, event, arg):
            return local if frame.f_code is code else None

        def body():
            sys.settrace(tracer)
            try:
                with warnings.catch_warnings():
                    warnings.simplefilter("ignore")
                    seen_b.append(self.probe_mode())
            finally:
                sys.settrace(None)

        b = threading.Thread(target=body, name="late-locker")
        b.start()
        if not at_lock.wait(3):
            setter_done.set()
            b.join(5)
            L.set_trickery_enabled(None)
            return "no-window"
        L.set_trickery_enabled(case["value"])
        setter_done.set()
        b.join(5)
        with warnings.catch_warnings():
            warnings.simplefilter("ignore")
            seen = self.probe_mode()
        want = True if case["value"] is None else case["value"]
        L.set_trickery_enabled(None)
        if seen != want or seen_b != [want]:
            self._probs.append(f"set_trickery_enabled({case['value']}) completed while another thread stood between its fast-path test and the "
                               f"lock: that thread then saw trickery={seen_b}, a later query {'on' if seen else 'off'}; both must be "
                               f"{'on' if want else 'off'}")
        return "T" if seen else "F"

    def run_query_during_detection(self):
        """While one thread is inside the one-off self-test, another thread asks: it gets the final answer (it waits), never a
        provisional one."""
        from stackscope import _lowlevel as L

        L.set_trickery_enabled(None)
        in_detect, go = threading.Event(), threading.Event()
        orig = L._contexts_active_by_trickery
        first = [True]

        def slow(frame):
            if first[0] and threading.current_thread().name == "detector":
                first[0] = False
                in_detect.set()
                go.wait(3)
            return orig(frame)

        L._contexts_active_by_trickery = slow
        seen_c: List[Any] = []
        try:
            a = threading.Thread(target=lambda: self.probe_mode(), name="detector")
            a.start()
            if not in_detect.wait(3):
                go.set()
                a.join(5)
                return "no-detection-window"
            c = threading.Thread(target=lambda: seen_c.append(self.probe_mode()), name="asker")
            c.start()
            c.join(0.3)
            early = list(seen_c)
            go.set()
            a.join(5)
            c.join(5)
        finally:
            L._contexts_active_by_trickery = orig
        L.set_trickery_enabled(None)
        if seen_c != [True]:
            self._probs.append(f"a query made while another thread was inside the self-test saw trickery={seen_c} (before the test ended: "
                               f"{early}); the self-test passes on this interpreter, so every query must see it on")
        return "T" if seen_c == [True] else "F"

    def run_faults(self, case):
        from stackscope import _lowlevel as L

        src = progs.gen_program(random.Random(case["pseed"]), case["kind"], case["depth"])
        fired = 0
        probs = self._probs
        helpers = ["analyze_with_blocks", "inspect_frame", "currently_exiting_context"]

        def observer(w, label):
            nonlocal fired
            if label != "suspended":
                return
            L.set_trickery_enabled(False)
            ref = [(id(c.obj), c.is_async, c.is_exiting) for c in L.contexts_active_in_frame(w.frame, w.target)]
            L.set_trickery_enabled(True)
            for h in helpers:
                orig = getattr(L, h)
                k = 1
                while k < 4:
                    count = [0]
                    hit = [False]

                    def wrapper(*a, **kw):
                        count[0] += 1
                        if count[0] == k:
                            hit[0] = True
                            # every shape of exception: with a message, with a key, and with NO arguments at all (what the
                            # inspectors' own bare `assert`s and a plain `raise ValueError` produce)
                            kinds = [lambda: ZeroDivisionError(f"injected into {h}#{k}"), lambda: AssertionError(), lambda: KeyError(k),
                                     lambda: ValueError(), lambda: IndexError("tuple index out of range"), lambda: RuntimeError()]
                            raise kinds[(k + len(h) + fired) % len(kinds)]()
                        return orig(*a, **kw)

                    setattr(L, h, wrapper)
                    try:
                        with warnings.catch_warnings(record=True) as caught, contextlib.redirect_stderr(io.StringIO()):
                            warnings.simplefilter("always")
                            try:
                                res = L.contexts_active_in_frame(w.frame, w.target)
                            except Exception as e:
                                probs.append(f"fault in {h}#{k}: contexts_active_in_frame raised {type(e).__name__}")
                                res = None
                    finally:
                        setattr(L, h, orig)
                    if not hit[0]:
                        break
                    fired += 1
                    if res is not None:
                        got = [(id(c.obj), c.is_async, c.is_exiting) for c in res]
                        nwarn = sum(issubclass(x.category, L.InspectionWarning) for x in caught)
                        # currently_exiting_context is also called by the referents fallback itself (call #2 on that path)
                        if nwarn != 1:
                            probs.append(f"fault in {h}#{k}: {nwarn} InspectionWarnings (expected exactly one)")
                        if got != ref:
                            probs.append(f"fault in {h}#{k}: result {got} is not the referents result {ref}")
                    k += 1
            L.set_trickery_enabled(None)

        progs.run_program(src, case["kind"], case["choices"], observer, max_steps=12)
        case["_fired"] = fired
        return f"fired={fired}"

    def probe_mode(self) -> bool:
        """Is the trickery analysis in use?  (start_line is only known to it.)"""
        from stackscope import _lowlevel as L

        if not hasattr(self, "_pg"):
            @contextlib.contextmanager
            def cm():
                yield

            def g():
                with cm():
                    yield

            self._pg = g()
            next(self._pg)
        c = L.contexts_active_in_frame(self._pg.gi_frame, self._pg)
        return bool(c) and c[0].start_line is not None

    def run_modes(self, case):
        from stackscope import _lowlevel as L

        L.set_trickery_enabled(None)
        L._can_use_trickery = None
        ops = case["ops"]
        nthreads = case["threads"]
        rng = random.Random(case["tseed"])
        owner = [rng.randrange(nthreads) for _ in ops]
        results: List[Optional[bool]] = [None] * len(ops)
        turn = [0]
        cond = threading.Condition()

        def worker(t):
            for i, op in enumerate(ops):
                if owner[i] != t:
                    continue
                with cond:
                    while turn[0] != i:
                        cond.wait(5)
                    if op == "query":
                        with warnings.catch_warnings():
                            warnings.simplefilter("ignore")
                            results[i] = self.probe_mode()
                    else:
                        L.set_trickery_enabled(op[1])
                    turn[0] += 1
                    cond.notify_all()

        ths = [threading.Thread(target=worker, args=(t,)) for t in range(nthreads)]
        for t in ths:
            t.start()
        for t in ths:
            t.join(20)
        L.set_trickery_enabled(None)
        out = [("T" if r else "F") for r, op in zip(results, ops) if op == "query"]
        # oracle: last set before each query, auto (True on CPython) after None
        last = None
        want = []
        for op in ops:
            if op == "query":
                want.append("T" if (True if last is None else last) else "F")
            else:
                last = op[1]
        if out != want:
            self._probs.append(f"mode sequence {ops} on {nthreads} threads: queries saw {out}, expected {want}")
        return " ".join(out)

    def model_line(self, case):
        if case["k"] == "fastpath":
            return json.dumps({"p": "C20", "mode": "fastpath", "v0": case["v0"], "v1": case["v1"]})
        if case["k"] != "modes":
            return None
        return json.dumps({"p": "C20", "ops": case["ops"]})

    def canon(self, case, real):
        return real

    def oracle(self, case, real):
        probs = self._all.get(id(case)) or []
        return "; ".join(probs[:2])[:900] if probs else None

    def nontrivial_key(self, case, real):
        if case["k"] == "referents" and isinstance(real, str) and "false" in real.lower() and real.count("[") > 3:
            return json.dumps({k: v for k, v in case.items() if not k.startswith("_")}, sort_keys=True)
        if case["k"] == "faults" and case.get("_fired", 0) > 0:
            return json.dumps({k: v for k, v in case.items() if not k.startswith("_")}, sort_keys=True)
        if case["k"] == "modes" and any(op != "query" for op in case["ops"]):
            return json.dumps(case, sort_keys=True)
        if case["k"] in ("fastpath", "selftest_fault"):
            return json.dumps(case, sort_keys=True)
        return None

    def stats(self, cases, reals):
        d = {"referents_runs": 0, "observations": 0, "fault_runs": 0, "faults_fired": 0, "mode_sequences": 0}
        for c in cases:
            if c["k"] == "referents":
                d["referents_runs"] += 1
                d["observations"] += c.get("_obs", 0)
            elif c["k"] == "faults":
                d["fault_runs"] += 1
                d["faults_fired"] += c.get("_fired", 0)
            else:
                d["mode_sequences"] += 1
        return d


_orig = C20.run_real


def _run(self, case):
    if not hasattr(self, "_all"):
        self._all = {}
    r = _orig(self, case)
    self._all[id(case)] = list(self._probs)
    return r


C20.run_real = _run  # type: ignore[assignment]
CHECK = C20()
