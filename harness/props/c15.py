"""C15 — greenlet stacks: suspended, current, dead, foreign-thread, and greenback bridges.

Greenlet leg: chains of nested greenlets (each the parent of the next), an arbitrary call depth inside
each, the innermost either asking itself (inside / from a child / from a descendant) or switching back to
the main greenlet which then asks (outside); plus unstarted, dead and other-thread greenlets.  The real
extract(greenlet) is compared with the Lean model (`unwrapGreenlet` then `unwrapSlice`) and with a hand
walk of gr_frame / f_back (oracle).
Greenback leg (oracle only; real trio + greenback): a task alternating sync frames and coroutines through
await_ bridges M times, extracted from outside the task and from inside it.
"""
from __future__ import annotations

import json
import random
import sys
import threading
from typing import Any, Dict, List, Optional

from ..core import PropCheck
from .c04 import manual_walk


def chain_of(gr_frame) -> List[Any]:
    out = []
    f = gr_frame
    seen = 0
    while f is not None and seen < 10000:
        out.append(f)
        f = f.f_back
        seen += 1
    return out


def run_greenlet_case(case) -> dict:
    import greenlet
    import stackscope

    depths: List[int] = case["depths"]        # call depth inside each greenlet of the chain
    asker = case["asker"]                     # "outside" | "inside" (asks about itself / ancestors)
    gl: List[Any] = []
    results: Dict[str, Any] = {}
    main = greenlet.getcurrent()

    def ask(tag_targets):
        """Called as the innermost frame of the asker."""
        full, segs = manual_walk()
        ids: Dict[int, int] = {id(f): i for i, f in enumerate(full)}
        nxt = [len(full)]

        def fid(f):
            if id(f) not in ids:
                ids[id(f)] = nxt[0]
                nxt[0] += 1
            return ids[id(f)]

        out = []
        for name, g in tag_targets:
            if g.gr_frame is not None:
                ch = chain_of(g.gr_frame)
                state, gframes = "suspended", [fid(f) for f in ch]
                want = gframes[::-1]
            elif not g:
                state, gframes, want = ("dead" if g.dead else "notstarted"), [], []
            elif g is greenlet.getcurrent():
                state, gframes = "current", []
                want = [ids[id(f)] for f in segs[0]][::-1]
            else:
                state, gframes, want = "other", [], None
            if call_extract is not None:
                # the application code that calls extract() lives in a module whose name merely begins with "stackscope"
                st = call_extract(stackscope, g)
            else:
                st = stackscope.extract(g, with_contexts=False)
            fr = [ids.get(id(f.pyframe), -1) for f in st.frames]
            if call_extract is not None and state == "current":
                # the true caller is that module's frame: it must be there, as the innermost one (it is not part of the walk
                # made from this function, so it is taken off before the comparison)
                if st.frames and st.frames[-1].pyframe.f_code is call_extract.__code__:
                    fr = fr[:-1]
                else:
                    fr = fr + [-2]
            err = ""
            if st.error is not None:
                err = " error=otherthread" if "running in another thread" in str(st.error) else \
                      (" error=notrunning" if "Couldn't find where" in str(st.error) else f" error={st.error!r}")
            obs = "frames=[" + ",".join(map(str, fr)) + "]" + err
            q = {"state": state, "gframes": gframes, "hasparent": g.parent is not None,
                 "segs": [[ids[id(f)] for f in s] for s in segs],
                 "others": [gframes] if state == "suspended" and gframes and gframes[0] >= len(full) else []}
            prob = None
            if want is None:
                if "otherthread" not in err or fr:
                    prob = f"{name}: a greenlet running in another thread must give an error and no frames, got {obs}"
            elif fr != want or err:
                prob = f"{name} ({state}, asked from {asker}): extract gave {obs}, the greenlet's own frames are {want}"
            out.append((name, obs, q, prob))
        return out

    import functools

    call_extract = None
    if case.get("caller_module"):
        ns: Dict[str, Any] = {"__name__": case["caller_module"]}
        exec("def call_extract(ss, g):\n    return ss.extract(g, with_contexts=False)\n", ns)
        call_extract = ns["call_extract"]

    def body(k, d):
        if d > 0:
            return body(k, d - 1)
        if k + 1 < len(depths):
            # (a partial as run function: with depth 0 the greenlet's entry function is itself the frame that switches)
            child = greenlet.greenlet(functools.partial(body, k + 1, depths[k + 1]) if case.get("direct", True) else
                                      (lambda: body(k + 1, depths[k + 1])))
            gl.append(child)
            child.switch()
            return
        # innermost greenlet of the chain
        if asker == "inside":
            unstarted = greenlet.greenlet(lambda: None)
            results["r"] = ask([(f"G{i}", g) for i, g in enumerate(gl)] + [("unstarted", unstarted), ("main", main)])
        else:
            main.switch()

    g0 = greenlet.greenlet(functools.partial(body, 0, depths[0]) if case.get("direct", True) else (lambda: body(0, depths[0])))
    gl.append(g0)
    g0.switch()
    if asker == "outside":
        dead = greenlet.greenlet(lambda: None)
        dead.switch()
        unstarted = greenlet.greenlet(lambda: None)

        def outer_ask(n):
            if n > 0:
                return outer_ask(n - 1)
            return ask([(f"G{i}", g) for i, g in enumerate(gl)] + [("dead", dead), ("unstarted", unstarted), ("main", main)])

        results["r"] = outer_ask(case.get("outer_depth", 0))
    if asker == "sibling":
        # asked from a greenlet of its own (a non-main greenlet that is no ancestor or descendant of the parked ones)
        dead = greenlet.greenlet(lambda: None)
        dead.switch()
        unstarted = greenlet.greenlet(lambda: None)

        def sib_ask(n):
            if n > 0:
                return sib_ask(n - 1)
            return ask([(f"G{i}", g) for i, g in enumerate(gl)] + [("dead", dead), ("unstarted", unstarted), ("main", main)])

        greenlet.greenlet(lambda: results.__setitem__("r", sib_ask(case.get("outer_depth", 0)))).switch()
    # let everything finish
    for g in reversed(gl):
        try:
            while g and not g.dead:
                g.switch()
        except Exception:
            break
    return results["r"]


def run_other_thread() -> List[tuple]:
    import greenlet
    import stackscope

    ready, release = threading.Event(), threading.Event()
    box: Dict[str, Any] = {}

    def thread_body():
        def run():
            ready.set()
            release.wait(10)
        g = greenlet.greenlet(run)
        box["g"] = g
        box["main"] = greenlet.getcurrent()
        g.switch()

    t = threading.Thread(target=thread_body, daemon=True)
    t.start()
    ready.wait(5)
    out = []
    # a second thread that keeps running in its *main* greenlet
    ready2, box2 = threading.Event(), {}

    def thread2_body():
        box2["main"] = greenlet.getcurrent()
        ready2.set()
        release.wait(10)

    t2 = threading.Thread(target=thread2_body, daemon=True)
    t2.start()
    ready2.wait(5)
    try:
        st = stackscope.extract(box2["main"], with_contexts=False)
        err = st.error is not None and "running in another thread" in str(st.error)
        prob = None
        if not err or st.frames:
            prob = (f"main greenlet of another thread, running there: expected an error and no frames, got "
                    f"{[f.funcname for f in st.frames]} error={st.error!r}")
        out.append(("other-thread running main", f"frames={len(st.frames)} err={bool(st.error)}", None, prob))
        for name in ("g", "main"):
            g = box[name]
            st = stackscope.extract(g, with_contexts=False)
            err = st.error is not None and "running in another thread" in str(st.error)
            prob = None
            if name == "g" and (not err or st.frames):
                prob = f"greenlet running in another thread: expected an error and no frames, got {len(st.frames)} frames, error={st.error!r}"
            if name == "main" and st.frames and not err:
                # the foreign thread's main greenlet is suspended (its child runs): its own frames are fine, ours are not
                mine = {id(f) for f in chain_of(sys._getframe(0))}
                if any(id(f.pyframe) in mine for f in st.frames):
                    prob = "extract(main greenlet of another thread) returned the caller's own stack"
            out.append((f"other-thread {name}", f"frames={len(st.frames)} err={bool(st.error)}", None, prob))
    finally:
        release.set()
        t.join(5)
        t2.join(5)
    return out


def run_selfparent(case) -> dict:
    """A greenlet inspecting itself whose direct parent never started, or is already dead: exactly its own frames."""
    import functools

    import greenlet
    import stackscope

    res: Dict[str, Any] = {"names": None, "problems": []}

    def body(n):
        if n:
            return body(n - 1)
        st = stackscope.extract(greenlet.getcurrent(), with_contexts=False)
        res["names"] = [f.funcname for f in st.frames]
        res["err"] = repr(st.error) if st.error is not None else None
        return None

    def idle(*a):
        return None

    def spawn(level):
        # run at the bottom of `level` further greenlets, each with a live parent, the last one with the odd parent
        if level > 1:
            g = greenlet.greenlet(functools.partial(spawn, level - 1))
            g.switch()
            return
        p = greenlet.greenlet(idle)
        if case["state"] == "dead":
            p.switch()
        g = greenlet.greenlet(functools.partial(body, case["depth"]), parent=p)
        g.switch()

    spawn(case["chain"])
    want = ["body"] * (case["depth"] + 1)
    if res["names"] != want:
        res["problems"].append(f"extract(getcurrent()) from a greenlet whose parent is {case['state']} gave {res['names']}, its own frames are {want}")
    if res.get("err"):
        res["problems"].append(f"error {res['err']}")
    return res


def run_asyncio_cancel(case) -> dict:
    """greenback under asyncio: a cancellation is *thrown* into the task (Trio only ever sends values), a coroutine below a
    bridge catches it and goes on through `depth` further await_ bridges; the plumbing that delivered it must stay hidden."""
    import asyncio

    import greenback
    import stackscope

    res: Dict[str, Any] = {"problems": []}
    depth = case["depth"]

    async def leaf():
        await asyncio.sleep(3600)

    def mk_sync(k):
        def sync_fn():
            greenback.await_(mk_async(k)())
        sync_fn.__code__ = sync_fn.__code__.replace(co_name=f"sync{k}")
        return sync_fn

    def mk_async(k):
        async def async_fn():
            if k == 0:
                await leaf()
            else:
                mk_sync(k - 1)()
        async_fn.__code__ = async_fn.__code__.replace(co_name=f"async{k}")
        return async_fn

    async def catcher():
        try:
            await asyncio.sleep(3600)
        except asyncio.CancelledError:
            mk_sync(depth)()

    def entry():
        greenback.await_(catcher())

    async def task_body():
        await greenback.ensure_portal()
        entry()

    async def main():
        t = asyncio.create_task(task_body())
        await asyncio.sleep(0.05)
        t.cancel()
        await asyncio.sleep(0.05)
        st = stackscope.extract(t.get_coro(), with_contexts=False)
        res["visible"] = [f"{(f.modname or '').split('.')[0]}:{f.funcname}" for f in st.frames if not f.hide]
        res["error"] = repr(st.error) if st.error is not None else None
        t.cancel()
        try:
            await t
        except BaseException:
            pass

    asyncio.run(main())
    vis = res.get("visible", [])
    bad = [v for v in vis if v.split(":")[0] in ("outcome", "greenlet") or (v.split(":")[0] == "greenback" and not v.endswith(("greenback_shim", "adapt_awaitable")))]
    if bad:
        res["problems"].append(f"bridging internals visible in the task's stack after a caught cancellation: {bad} (all visible: {vis})")
    want = []
    k = depth
    while k >= 0:
        want += [f"sync{k}", f"async{k}"]
        k -= 1
    mine = [v.split(":")[1] for v in vis if v.split(":")[1].startswith(("sync", "async")) and v[-1].isdigit()]
    if mine != want:
        res["problems"].append(f"bridge frames {mine}, expected {want} (all visible: {vis})")
    if res.get("error"):
        res["problems"].append(f"error {res['error']}")
    return res


def run_greenback(case) -> dict:
    import greenback
    import stackscope
    import trio

    m = case["alternations"]
    where = case["where"]
    res: Dict[str, Any] = {}

    def call_in(fn):
        """Where the asking code runs: in the task's own (greenback) greenlet, or in a greenlet the task's synchronous code made
        itself, whose parent may be alive, finished, never started, or running a C function."""
        import greenlet

        via = case.get("via", "direct")
        if via == "direct":
            return fn()
        if via == "ugl":
            return greenlet.greenlet(fn).switch()
        if via == "ugl_dead":
            box = {}

            def spawner():
                box["g"] = greenlet.greenlet(fn)          # its parent is the spawner, which then finishes

            greenlet.greenlet(spawner).switch()
            return box["g"].switch()
        if via == "ugl_unstarted":
            return greenlet.greenlet(fn, parent=greenlet.greenlet(lambda *a: None)).switch()
        if via == "ugl_c":
            inner = greenlet.greenlet(fn)
            mid = greenlet.greenlet(inner.switch)          # alive, an ancestor of the asker, holding no Python frame
            inner.parent = mid
            return mid.switch()
        raise ValueError(via)

    def mk_sync(k):
        def sync_fn():
            if k == 0 and where == "inside":
                call_in(lambda: res.__setitem__("st", stackscope.extract(trio.lowlevel.current_task(), with_contexts=False)))
                return
            co = mk_async(k)()
            aw = case.get("aw", "coro")
            if k == 0 and case.get("worker_parent") == "bystander":
                # the innermost await_ is made from a worker greenlet whose parent was given explicitly: a greenlet parked
                # outside the task, which has nothing to do with what the task is doing
                import greenlet

                starter = greenlet.getcurrent()

                def worker_body():
                    try:
                        greenback.await_(co)
                    except BaseException:      # (cancellation at the end of the scenario: hand control back, stay parked)
                        pass
                    starter.switch()

                greenlet.greenlet(worker_body, parent=res["bystander"]).switch()
                return
            if aw == "abc" and k != 0:
                # every bridge but the innermost awaits a hand-written coroutine object (collections.abc.Coroutine, delegating to the real one):
                # not a native coroutine, nothing stackscope could look into -- the frames that follow are on the greenlet's stack
                import collections.abc

                class DelegCoro(collections.abc.Coroutine):
                    def __init__(s, inner):
                        s.inner = inner

                    def send(s, v):
                        return s.inner.send(v)

                    def throw(s, *a):
                        return s.inner.throw(*a)

                    def close(s):
                        return s.inner.close()

                    def __await__(s):
                        return s.inner.__await__()

                greenback.await_(DelegCoro(co))
            elif aw in ("coro", "abc") or k != 0:
                greenback.await_(co)
            elif aw == "wrapper":
                # the innermost bridge awaits an object that is not a coroutine: await_ adapts it
                class W:
                    def __await__(s):
                        return co.__await__()
                greenback.await_(W())
            else:
                class G:
                    def __await__(s):
                        return (yield from co.__await__())
                greenback.await_(G())
        sync_fn.__name__ = f"sync{k}"
        sync_fn.__qualname__ = f"sync{k}"
        sync_fn.__code__ = sync_fn.__code__.replace(co_name=f"sync{k}")
        return sync_fn

    def mk_async(k):
        async def async_fn():
            if k == 0:
                await trio.sleep_forever()
            else:
                mk_sync(k - 1)()
        async_fn.__code__ = async_fn.__code__.replace(co_name=f"async{k}")
        return async_fn

    async def task_body():
        await greenback.ensure_portal()
        if m == 0:
            if where == "inside":
                call_in(lambda: res.__setitem__("st", stackscope.extract(trio.lowlevel.current_task(), with_contexts=False)))
            else:
                await trio.sleep_forever()
        else:
            mk_sync(m - 1)() if where == "inside" else await mk_async(m)()

    async def main():
        async with trio.open_nursery() as nursery:
            nursery.start_soon(task_body)
            await trio.sleep(0.01)
            if where == "outside":
                task = [t for t in nursery.child_tasks][0]
                res["st"] = stackscope.extract(task, with_contexts=False)
            nursery.cancel_scope.cancel()

    if case.get("worker_parent") == "bystander":
        import greenlet

        def sync99():                     # (named like the task's own functions: if it shows up, the comparison sees it)
            greenlet.getcurrent().parent.switch()

        res["bystander"] = greenlet.greenlet(sync99)
        res["bystander"].switch()
    trio.run(main)
    st = res["st"]
    visible = [f.funcname for f in st.frames if not f.hide]
    mine = [n for n in visible if n.startswith(("sync", "async")) and n[-1].isdigit()]
    # the bridging internals (await_, trampoline, _greenback_shim, greenlet switch) sit between the task's own frames:
    # from the task body inward, no visible frame may belong to greenback
    seen_body = False
    hidden_ok = True
    for f in st.frames:
        if f.funcname == "task_body":
            seen_body = True
        elif seen_body and not f.hide and (f.modname or "").startswith(("greenback", "greenlet")) and f.funcname != "adapt_awaitable":
            # (adapt_awaitable, the coroutine await_ wraps a non-coroutine awaitable in, is shown: upstream's own test expects it)
            hidden_ok = False
    if where == "inside":
        want = []
        k = m - 1
        while k >= 0:
            want.append(f"sync{k}")
            if k > 0:
                want.append(f"async{k}")
            k -= 1
    else:
        want = []
        k = m
        while k >= 1:
            want.append(f"async{k}")
            want.append(f"sync{k - 1}")
            k -= 1
        want.append("async0") if m >= 1 else None
    return {"visible": visible, "mine": mine, "want": want, "hidden_ok": hidden_ok, "error": repr(st.error) if st.error else None}


class C15(PropCheck):
    pid = "C15"
    real_time_limit = 60.0
    rule = ("greenlet parent chains of length 1..5 with call depth 0..6 in each, asked from outside (main, at outer depth 0..3) "
            "and from the innermost greenlet (itself = current, its ancestors = suspended-from-descendant), plus dead / unstarted / "
            "other-thread greenlets; greenback alternation depth 0..3 from outside and inside the task; non-trivial = chain "
            "length >= 2 or alternations >= 1")
    manifest = {
        "text": "Lean: C15_suspended (for a suspended greenlet the slice handed on is bounded by its own entry frame and its switch point, so extract returns exactly its own frames whoever asks — main, sibling, child or descendant; this is the repaired F8), C15_current (the calling greenlet's own segment), C15_dead_unstarted (no frames), C15_other_thread (an error, not a stack) — all for parent chains and call depths of any length, on top of the slice theorems of C04. Tie: real greenlets vs the model; hand walk of gr_frame/f_back as oracle. The greenback half is decided by the oracle on real trio+greenback runs only.",
        "note": "Partial for greenback: its trampoline / shim / await_ internals are third-party state read by the glue; no Lean model is given for them, the alternation is checked on real runs (depth 0..3).",
    }
    assumptions = ["greenlet.gr_frame / parent / dead as documented by greenlet", "greenback and trio internals are as installed in /venv"]

    def cases(self, rng, tier):
        out = []
        n = 60 if tier == "quick" else 600
        for _ in range(n):
            k = rng.randint(1, 5)
            out.append({"k": "greenlet", "depths": [rng.choice([0, 0, 1, 2, 3, 6]) for _ in range(k)], "asker": rng.choice(["outside", "inside", "sibling"]),
                        "outer_depth": rng.randint(0, 3), "direct": rng.random() < 0.7,
                        "caller_module": rng.choice([None, None, "stackscope_jobs", "stackscopex.dump"])})
        out.append({"k": "otherthread"})
        for depth in (0, 1, 2):
            out.append({"k": "asyncio_cancel", "depth": depth})
        for state in ("unstarted", "dead"):
            for depth in (0, 2):
                for chain in (1, 2):
                    out.append({"k": "selfparent", "state": state, "depth": depth, "chain": chain})
        for m in range(0, 4):
            for where in ("outside", "inside"):
                out.append({"k": "greenback", "alternations": m, "where": where})
                if where == "outside" and m >= 1:
                    out.append({"k": "greenback", "alternations": m, "where": where, "worker_parent": "bystander"})
                if where == "inside":
                    for via in ("ugl", "ugl_dead", "ugl_unstarted", "ugl_c"):
                        out.append({"k": "greenback", "alternations": m, "where": where, "via": via})
                if m >= 1:
                    for aw in ("wrapper", "gen", "abc"):
                        out.append({"k": "greenback", "alternations": m, "where": where, "aw": aw})
        return out

    def run_real(self, case):
        self._probs = []
        if case["k"] == "greenlet":
            r = run_greenlet_case(case)
            case["_queries"] = [q for _, _, q, _ in r]
            self._probs = [p for _, _, _, p in r if p]
            return "§".join(obs for _, obs, _, _ in r)
        if case["k"] == "asyncio_cancel":
            r = run_asyncio_cancel(case)
            self._probs = r["problems"]
            return json.dumps(r.get("visible"))
        if case["k"] == "selfparent":
            r = run_selfparent(case)
            self._probs = r["problems"]
            return json.dumps(r["names"])
        if case["k"] == "otherthread":
            r = run_other_thread()
            self._probs = [p for _, _, _, p in r if p]
            return "§".join(obs for _, obs, _, _ in r)
        r = run_greenback(case)
        if r["error"]:
            self._probs.append(f"greenback ({case}): error {r['error']}")
        if r["mine"] != r["want"]:
            self._probs.append(f"greenback {case['where']} depth {case['alternations']}: visible bridge frames {r['mine']}, expected {r['want']} (all visible: {r['visible']})")
        if not r["hidden_ok"]:
            self._probs.append("a greenback-internal frame is not hidden")
        return json.dumps(r["mine"])

    def model_lines(self, case):
        if case["k"] != "greenlet":
            return None
        out = []
        for q in case["_queries"]:
            st = q["state"]
            out.append(json.dumps({"p": "C15", "k": "greenlet", "state": st, "gframes": q["gframes"], "hasparent": q["hasparent"],
                                   "segs": q["segs"], "others": q["others"]}))
        return out

    def model_line(self, case):
        return None

    def canon(self, case, real):
        return real

    def oracle(self, case, real):
        return self._oracles.get(id(case))

    def nontrivial_key(self, case, real):
        if case["k"] == "greenlet" and len(case["depths"]) < 2:
            return None
        if case["k"] == "greenback" and case["alternations"] < 1:
            return None
        return json.dumps({k: v for k, v in case.items() if not k.startswith("_")}, sort_keys=True)

    def stats(self, cases, reals):
        d = {"greenlet_cases": 0, "queries": 0, "inside": 0, "outside": 0, "sibling": 0, "greenback": 0}
        for c in cases:
            if c["k"] == "greenlet":
                d["greenlet_cases"] += 1
                d["queries"] += len(c.get("_queries", []))
                d[c["asker"]] += 1
            elif c["k"] == "greenback":
                d["greenback"] += 1
        return d


_orig = C15.run_real


def _run(self, case):
    if not hasattr(self, "_oracles"):
        self._oracles = {}
    r = _orig(self, case)
    self._oracles[id(case)] = "; ".join(self._probs[:3])[:900] if self._probs else None
    return r


C15.run_real = _run  # type: ignore[assignment]
CHECK = C15()
