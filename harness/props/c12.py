"""C12 — customizations bind to exactly the code that runs; every customize option works.

Legs (each compared with the Lean model through the driver, and judged by an oracle on the real objects):
  tower     get_code through real towers of functools.partial / bound method / classmethod / staticmethod /
            functools.wraps, and through nested definitions by name;
  dispatch  code_dispatch registrations on distinct-but-equal code objects (the same source compiled twice),
            latest registration wins;
  customize all 2^3 flags x {no elaborate, returns None, returns a replacement} x {direct, decorator}, run for real;
  idict     random IdentityDict operation sequences over keys that are equal but not identical.
"""
from __future__ import annotations

import functools
import itertools
import json
import random
import types
from typing import Any, Dict, List, Optional

from ..core import PropCheck

LAYERS = ["partial", "method", "classmethod", "staticmethod", "wraps", "wraps_obj", "lru_cache"]


def build_tower(layers: List[str], base: Any) -> Any:
    """Apply layers innermost-last; raises if Python refuses the construction."""
    t = base
    for l in reversed(layers):
        if l == "partial":
            t = functools.partial(t)
        elif l == "method":
            t = types.MethodType(t, object())
        elif l == "classmethod":
            t = classmethod(t)
        elif l == "staticmethod":
            t = staticmethod(t)
        elif l == "wraps":
            def wrapper(*a, **kw):
                return None
            t = functools.update_wrapper(wrapper, t, assigned=(), updated=())
        elif l == "wraps_obj":
            # a class-based decorator: the wrapping layer is a callable object, not a function
            class Deco:
                def __call__(self, *a, **kw):
                    return None
            t = functools.update_wrapper(Deco(), t, assigned=(), updated=())
        elif l == "lru_cache":
            t = functools.lru_cache(maxsize=None)(t)          # a C-implemented wrapper object carrying __wrapped__
        else:
            raise ValueError(l)
    return t


NEST_SRC = """
def outer0(a):
    def inner0(b):
        def deep0(c):
            return c
        def deep1(c):
            return c
        return deep0, deep1
    class K0:
        def meth0(self):
            def local0():
                return 1
            return local0
        def meth1(self):
            return 2
    def inner1(b):
        return b
    return inner0, inner1, K0
"""


def code_tree(code, ids: Dict[int, Any], names: Dict[str, int], tree: List[list]) -> int:
    """Number code objects and names; returns the id of `code`."""
    cid = len(ids)
    ids[cid] = code
    for const in code.co_consts:
        if isinstance(const, types.CodeType):
            n = names.setdefault(const.co_name, len(names))
            child = code_tree(const, ids, names, tree)
            tree.append([cid, n, child])
    return cid


class C12(PropCheck):
    pid = "C12"
    rule = ("towers: all layer sequences up to depth 3 (quick) / 4 (thorough) plus random up to depth 6 over "
            "{partial, method, classmethod, staticmethod, wraps} x bases {function, code, non-callable}; all name paths of a "
            "nested source (valid and invalid); dispatch on same-source-compiled-twice code objects with repeated "
            "registrations; all 72 customize combinations run for real; IdentityDict op sequences (<=200 ops) over "
            "equal-but-distinct keys; non-trivial = not the empty tower / empty op list; distinct = distinct case")
    manifest = {
        "text": "Lean: C12_tower / C12_tower_code (get_code through a wrapper tower of any height reaches the bottom function's code object; non-code bottoms are a TypeError), C12_nested (with distinct sibling names, any name path resolves to the code object at that path), C12_identity / C12_same_identity / C12_refines (IdentityDict set/del/setdefault/pop behave as a map keyed by identity, whatever the key contents), C12_dispatch / C12_equal_but_distinct (after any registration sequence the latest registration for that very code object wins, an equal but distinct code object is unaffected), C12_customize (all flags x all elaborate outcomes) and C12_forms (decorator form = direct form) — the last two over facts regenerated from the source on every run (which options customize() forwards, which flags customize_it sets), so dropping hide_line again breaks the build. Tie: real towers, nested sources, equal-but-distinct code objects, all customize combinations and IdentityDict op sequences vs the model.",
        "note": "inspect.unwrap's cycle detection and objects whose __wrapped__ is set but are not functions are outside the model; singledispatch-style type lookup is not involved here.",
    }
    assumptions = ["functools.partial.func, method.__func__, __wrapped__ are as documented by CPython"]

    def cases(self, rng, tier):
        out: List[dict] = []
        depth = 3 if tier == "quick" else 4
        for n in range(depth + 1):
            for layers in itertools.product(LAYERS, repeat=n):
                for base in ("func", "code", "other"):
                    if base != "func" and n > 2:
                        continue
                    out.append({"k": "tower", "layers": list(layers), "base": base, "names": []})
        for _ in range(100 if tier == "quick" else 1500):
            out.append({"k": "tower", "layers": [rng.choice(LAYERS) for _ in range(rng.randint(4, 6))], "base": "func", "names": []})
        # nested names: every path (valid or not) up to length 3 over the names in NEST_SRC, under small towers
        nm = ["inner0", "inner1", "K0", "deep0", "deep1", "meth0", "meth1", "local0", "nope"]
        paths = [[]] + [[a] for a in nm] + [[a, b] for a in ("inner0", "K0", "inner1") for b in nm] + \
                [["K0", "meth0", c] for c in nm] + [["inner0", "deep0", "x"]]
        for p in paths:
            for layers in ([], ["partial"], ["wraps", "partial"], ["method"]):
                out.append({"k": "tower", "layers": layers, "base": "nested", "names_str": p})
        for _ in range(40 if tier == "quick" else 400):
            nreg = rng.randint(1, 8)
            regs = [[rng.randrange(4), rng.randrange(1, 6)] for _ in range(nreg)]     # [which twin (0..3), impl]
            out.append({"k": "dispatch", "regs": regs})
        for hide, hl, prune in itertools.product([False, True], repeat=3):
            for el in ("absent", "none", "repl"):
                for form in ("direct", "decorator"):
                    out.append({"k": "customize", "hide": hide, "hide_line": hl, "prune": prune, "elab": el, "form": form})
                    for prior in ("tbhide", "customize", "register"):
                        out.append({"k": "customize", "hide": hide, "hide_line": hl, "prune": prune, "elab": el, "form": form, "prior": prior})
        for _ in range(60 if tier == "quick" else 600):
            nops = rng.randint(1, 200 if tier == "thorough" else 60)
            ops = []
            for _ in range(nops):
                key = [rng.randrange(6), 0]        # ident 0..5; contents: 3 equal pairs (set below)
                key[1] = key[0] // 2               # idents 2k and 2k+1 have equal content
                tag = rng.choice(["set", "set", "get", "del", "pop", "popdefault", "setdefault", "contains", "len", "keys",
                                  "popitem", "clear"] if rng.random() < 0.9 else ["clear"])
                if tag == "popdefault":
                    ops.append([tag, key, None if rng.random() < 0.4 else rng.randrange(100)])
                elif tag in ("set", "setdefault"):
                    ops.append([tag, key, rng.randrange(100)])
                elif tag in ("len", "keys", "popitem", "clear"):
                    ops.append([tag])
                else:
                    ops.append([tag, key])
            out.append({"k": "idict", "ops": ops})
        return out

    def setup(self):
        ns: Dict[str, Any] = {}
        exec(compile(NEST_SRC, "<c12-nested>", "exec"), ns)
        self.outer0 = ns["outer0"]
        self.ids: Dict[int, Any] = {}
        self.names: Dict[str, int] = {}
        self.tree: List[list] = []
        code_tree(self.outer0.__code__, self.ids, self.names, self.tree)
        self.names.setdefault("nope", len(self.names))
        self.names.setdefault("x", len(self.names))

    def model_line(self, case):
        if case.get("_unbuildable"):
            return None
        d = dict(case)
        d["p"] = "C12"
        if case["k"] == "tower":
            # (for the model every layer that is followed through __wrapped__ is the same kind of layer)
            d["layers"] = ["wraps" if l in ("wraps_obj", "lru_cache") else l for l in case["layers"]]
            if case["base"] == "nested":
                d["base"] = "func"
                d["children"] = self.tree
                d["names"] = [self.names[n] for n in case["names_str"]]
            else:
                d["children"] = []
        if case["k"] == "dispatch":
            d["regs"] = [[[twin, 0], impl] for twin, impl in case["regs"]]     # all twins have equal content
            d["queries"] = [[t, 0] for t in range(4)]
        return json.dumps(d)

    # ------------------------------------------------------------------------------------------
    def run_real(self, case):
        import stackscope
        from stackscope.lowlevel import get_code

        self._oracle = None
        k = case["k"]
        if k == "tower":
            def base_fn(x=1):
                return x

            if case["base"] == "nested":
                base, names = self.outer0, case["names_str"]
            else:
                base = {"func": base_fn, "code": base_fn.__code__, "other": 12345}[case["base"]]
                names = []
            try:
                t = build_tower(case["layers"], base)
            except Exception as e:
                case["_unbuildable"] = True      # Python itself refuses this tower (e.g. partial of a non-callable)
                return f"UNBUILDABLE {type(e).__name__}"
            try:
                c = get_code(t, *names)
            except TypeError:
                if case["base"] in ("func", "nested"):
                    self._oracle = f"get_code raised TypeError on a tower {case['layers']} over a plain function"
                return "TypeError"
            except ValueError as e:
                # which name failed: "... named 'x' in outer0.inner0"
                msg = str(e)
                depth = msg.split(" in ")[-1].count(".")
                if self.real_nested(names) is not None:
                    self._oracle = f"get_code raised ValueError for the existing nested definition {names}"
                return f"ValueError@{depth}"
            if case["base"] == "nested":
                cid = [i for i, co in self.ids.items() if co is c]
                # oracle: the code object that really executes at that path
                want = self.real_nested(names)
                if want is not None and want is not c:
                    self._oracle = f"get_code{tuple(names)} returned {c.co_name} which is not the code object executing there"
                return f"code{cid[0]}" if cid else "code?"
            if c is not base_fn.__code__:
                self._oracle = "get_code did not reach the code object of the function at the bottom of the tower"
            return "code0"
        if k == "dispatch":
            return self.run_dispatch(case)
        if k == "customize":
            return self.run_customize(case)
        if k == "idict":
            return self.run_idict(case)
        raise ValueError(k)

    def real_nested(self, names):
        """The code object that executes for the nested definition at `names` (by actually obtaining the object)."""
        try:
            inner0, inner1, K0 = self.outer0(0)
            cur = {"inner0": inner0, "inner1": inner1, "K0": K0}
            obj: Any = None
            for i, n in enumerate(names):
                if obj is None:
                    obj = cur[n]
                elif obj is inner0:
                    d0, d1 = inner0(0)
                    obj = {"deep0": d0, "deep1": d1}[n]
                elif obj is K0:
                    obj = K0.__dict__[n]
                elif getattr(obj, "__name__", "") == "meth0":
                    obj = {"local0": obj(None)}[n]
                else:
                    return None
            if obj is None:
                return self.outer0.__code__
            if isinstance(obj, type):
                return None          # the code object of a class body is not reachable from the class
            return obj.__code__
        except Exception:
            return None

    def run_dispatch(self, case):
        from stackscope.lowlevel import code_dispatch

        src = "def twin(x):\n    return x\n"
        twins = []
        for _ in range(4):
            ns: Dict[str, Any] = {}
            exec(compile(src, "<twin>", "exec"), ns)
            twins.append(ns["twin"])
        assert twins[0].__code__ == twins[1].__code__ and twins[0].__code__ is not twins[1].__code__

        @code_dispatch(lambda fn: fn.__code__)
        def disp(fn):
            return 0

        class CallableImpl:
            """A hook that is a callable object (a class-based hook, a functools.partial): not a function, method or builtin."""

            def __init__(s, v):
                s.v = v

            def __call__(s, fn):
                return s.v

        for n, (twin, impl) in enumerate(case["regs"]):
            hook = [(lambda v: (lambda fn: v))(impl), CallableImpl(impl), functools.partial(lambda v, fn: v, impl)][n % 3]
            disp.register(twins[twin], hook)
        res = [disp(t) for t in twins]
        # oracle: latest registration for that identity, else default
        want = []
        for t in range(4):
            mine = [impl for twin, impl in case["regs"] if twin == t]
            want.append(mine[-1] if mine else 0)
        if res != want:
            self._oracle = f"dispatch results {res}, expected (latest registration per identical code object) {want}"
        # every way of naming a nested function registers on that nested function's code object
        nsrc = "def outer():\n    def inner():\n        def innermost():\n            return 0\n        return innermost\n    return inner\n"
        for form in ("func+names", "code+names", "code+names+kw", "deco+code+names", "inner-code"):
            ns2: Dict[str, Any] = {}
            exec(compile(nsrc, "<nest>", "exec"), ns2)
            outer = ns2["outer"]
            inner = outer()
            innermost = inner()

            @code_dispatch(lambda fn: fn.__code__)
            def disp2(fn):
                return "default"

            impl = lambda fn: "hit"
            if form == "func+names":
                disp2.register(outer, "inner", "innermost", impl)
            elif form == "code+names":
                disp2.register(outer.__code__, "inner", "innermost", impl)
            elif form == "code+names+kw":
                disp2.register(outer.__code__, "inner", "innermost", func=impl)
            elif form == "deco+code+names":
                disp2.register(outer.__code__, "inner", "innermost")(impl)
            else:
                disp2.register(inner.__code__, "innermost", impl)
            got = [disp2(outer), disp2(inner), disp2(innermost)]
            if got != ["default", "default", "hit"]:
                self._oracle = (f"register({form}) of outer -> inner -> innermost: dispatch on (outer, inner, innermost) gives {got}, "
                                f"expected the hook on innermost only")
        # a hook registered on a generator-based manager's function applies to that manager wherever its generator is
        # suspended — also inside helpers it delegates to with `yield from`
        import contextlib

        import stackscope

        for depth in (0, 1, 2, 3):
            for form in ("func", "code"):
                ns3: Dict[str, Any] = {}
                src3 = "def h0():\n    yield 1\n" + "".join(f"def h{i}():\n    yield from h{i-1}()\n" for i in range(1, depth + 1)) + \
                       f"def mgr():\n    yield from h{depth}()\n" if depth else "def mgr():\n    yield 1\n"
                exec(compile(src3, "<gcm>", "exec"), ns3)
                fn = ns3["mgr"]
                called = []

                class Inner:
                    def __enter__(s):
                        return s

                    def __exit__(s, *a):
                        return False

                inner = Inner()

                def hook(frame, ctx):
                    called.append(frame.funcname)
                    return inner

                stackscope.unwrap_context_generator.register(fn if form == "func" else fn.__code__, hook)
                m = contextlib.contextmanager(fn)()
                m.__enter__()
                try:
                    ctx = stackscope.Context(obj=m, is_async=False)
                    stackscope.fill_context(ctx)
                    if called != ["mgr"] or ctx.obj is not inner:
                        self._oracle = (f"unwrap_context_generator registered on a generator-based manager ({form}) whose generator delegates "
                                        f"{depth} level(s) deep: hook calls {called}, Context.obj replaced: {ctx.obj is inner}")
                finally:
                    m.__exit__(None, None, None)
        return " ".join(str(r) for r in res)

    def run_customize(self, case):
        import stackscope

        marker = object()

        def callee():
            yield

        def replacement_gen():
            yield

        rep = replacement_gen()
        next(rep)

        def target():
            yield from callee()

        prior = case.get("prior")
        if prior == "tbhide":
            def target():            # noqa: F811  (a frame the default hook would hide)
                __tracebackhide__ = True
                yield from callee()
        elif prior == "customize":
            # an earlier customization of the same code: the later one replaces it entirely
            stackscope.customize(target, hide=True, hide_line=True, prune=True)
        elif prior == "register":
            rep2 = replacement_gen()
            next(rep2)

            @stackscope.elaborate_frame.register(target)
            def _earlier(frame, nxt):
                frame.hide = True
                return rep2

        kwargs: Dict[str, Any] = {"hide": case["hide"], "hide_line": case["hide_line"], "prune": case["prune"]}
        if case["elab"] == "none":
            kwargs["elaborate"] = lambda frame, nxt: None
        elif case["elab"] == "repl":
            kwargs["elaborate"] = lambda frame, nxt: rep
        if case["form"] == "direct":
            r = stackscope.customize(target, **kwargs)
        else:
            r = stackscope.customize(**kwargs)(target)
        if r is not target:
            self._oracle = "customize did not return the target unchanged"
        g = target()
        next(g)
        st = stackscope.extract(g)
        f0 = st.frames[0]
        names = [f.funcname for f in st.frames]
        rest = "keep" if names == ["target", "callee"] else "prune" if names == ["target"] else \
               "replace" if names == ["target", "replacement_gen"] else f"?{names}"
        out = f"hide={'T' if f0.hide else 'F'} hide_line={'T' if f0.hide_line else 'F'} rest={rest}"
        want_rest = "replace" if case["elab"] == "repl" else ("prune" if case["prune"] else "keep")
        want = f"hide={'T' if case['hide'] else 'F'} hide_line={'T' if case['hide_line'] else 'F'} rest={want_rest}"
        if out != want:
            self._oracle = f"customize({kwargs.keys()}) in {case['form']} form: observed {out}, documented {want}"
        # and no other code object is affected
        def bystander():
            yield
        b = bystander()
        next(b)
        sb = stackscope.extract(b)
        if sb.frames[0].hide or sb.frames[0].hide_line or len(sb.frames) != 1:
            self._oracle = "a frame running another code object was affected by the customization"
        return out

    def run_idict(self, case):
        from stackscope.lowlevel import IdentityDict

        # idents 2k and 2k+1: equal, hashable, but distinct objects
        keys = [(k // 2, "content") for k in range(6)]
        keys = [tuple(list(k)) for k in keys]
        assert keys[0] == keys[1] and keys[0] is not keys[1]
        kid = {id(o): i for i, o in enumerate(keys)}
        d = IdentityDict()
        shadow: Dict[int, int] = {}           # reference: plain dict keyed by identity index (insertion ordered)
        outs = []
        for op in case["ops"]:
            tag = op[0]
            key = keys[op[1][0]] if len(op) > 1 else None
            ki = op[1][0] if len(op) > 1 else None
            try:
                if tag == "set":
                    d[key] = op[2]; shadow[ki] = op[2]; outs.append("ok")
                elif tag == "get":
                    outs.append(str(d[key]))
                elif tag == "del":
                    del d[key]; outs.append("ok")
                elif tag == "pop":
                    outs.append(str(d.pop(key)))
                elif tag == "popdefault":
                    outs.append(str(d.pop(key, op[2])))
                elif tag == "setdefault":
                    outs.append(str(d.setdefault(key, op[2])))
                elif tag == "contains":
                    outs.append("T" if key in d else "F")
                elif tag == "len":
                    outs.append(str(len(d)))
                elif tag == "keys":
                    outs.append("[" + ",".join(str(kid[id(k)]) for k in d) + "]")
                elif tag == "popitem":
                    k2, v2 = d.popitem()
                    outs.append(f"{kid[id(k2)]}:{v2}")
                elif tag == "clear":
                    d.clear(); outs.append("ok")
            except KeyError:
                outs.append("KeyError")
            # reference map: what the same operation answers on a plain dict keyed by identity
            try:
                if tag in ("set", "clear"):
                    want = "ok"
                elif tag == "get":
                    want = str(shadow[ki])
                elif tag == "del":
                    shadow[ki]; want = "ok"
                elif tag == "pop":
                    want = str(shadow[ki])
                elif tag == "popdefault":
                    want = str(shadow.get(ki, op[2]))
                elif tag == "setdefault":
                    want = str(shadow.get(ki, op[2]))
                elif tag == "contains":
                    want = "T" if ki in shadow else "F"
                elif tag == "len":
                    want = str(len(shadow))
                elif tag == "keys":
                    want = "[" + ",".join(str(i) for i in shadow) + "]"
                elif tag == "popitem":
                    if not shadow:
                        raise KeyError
                    lk = list(shadow)[-1]
                    want = f"{lk}:{shadow[lk]}"
            except KeyError:
                want = "KeyError"
            if outs[-1] != want and not self._oracle:
                self._oracle = (f"IdentityDict answered {outs[-1]} to {op} where a map keyed by identity answers {want} "
                                f"(contents then: {shadow})")
            if tag == "del" or tag == "pop" or tag == "popdefault":
                shadow.pop(ki, None)
            elif tag == "setdefault":
                shadow.setdefault(ki, op[2])
            elif tag == "popitem" and shadow:
                shadow.popitem()
            elif tag == "clear":
                shadow.clear()
            if [kid[id(k)] for k in d] != list(shadow.keys()) or [d[keys[i]] for i in shadow] != list(shadow.values()):
                self._oracle = f"IdentityDict diverged from a map keyed by identity after {op}: {[(kid[id(k)], d[k]) for k in d]} vs {shadow}"
        return " ".join(outs)

    def canon(self, case, real):
        return real

    def oracle(self, case, real):
        return self._oracles.get(id(case))

    def nontrivial_key(self, case, real):
        if case["k"] == "tower" and not case["layers"] and not case.get("names_str"):
            return None
        return json.dumps(case, sort_keys=True)

    def stats(self, cases, reals):
        d: Dict[str, int] = {}
        for c, r in zip(cases, reals):
            d[c["k"]] = d.get(c["k"], 0) + 1
            if c["k"] == "tower" and isinstance(r, str):
                key = "tower_" + r.split("@")[0].rstrip("0123456789").split()[0]
                d[key] = d.get(key, 0) + 1
        return d


_orig = C12.run_real


def _run(self, case):
    if not hasattr(self, "_oracles"):
        self._oracles = {}
    r = _orig(self, case)
    self._oracles[id(case)] = self._oracle
    return r


C12.run_real = _run  # type: ignore[assignment]
CHECK = C12()
