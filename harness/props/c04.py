"""C04 — running-stack extraction and StackSlice slicing equal slices of the true stack.

Real stacks are built from a list of level kinds: plain function, running generator, running
coroutine, or "start a new greenlet here"; the innermost level walks the true stack by hand (f_back and
greenlet.parent.gr_frame — the oracle) and then asks stackscope for every (outer, inner, limit)
combination through extract(StackSlice(...)), extract_since and extract_until.  Frames are reported as
indices into the hand-walked stack and compared with the Lean model `SS.Slice.unwrapSlice`.
"""
from __future__ import annotations

import functools
import itertools
import json
import random
import sys
from typing import Any, List, Optional

from ..core import PropCheck

KINDS = ["f", "g", "c", "gl", "glc", "gld"]


def manual_walk():
    """The calling thread's true stack, outermost first, and the greenlet segments (current first,
    innermost first) — by following f_back and greenlet parents only."""
    import greenlet

    cur = sys._getframe(1)
    g = greenlet.getcurrent()
    segs = []
    while g is not None:
        seg = []
        f = cur
        while f is not None:
            seg.append(f)
            f = f.f_back
        segs.append(seg)
        g = g.parent
        cur = g.gr_frame if g is not None else None
    full = [f for seg in segs for f in seg][::-1]
    return full, segs


def run_scenario(levels: List[str], queries_fn):
    """Build the stack and run queries_fn(my_frames) as the innermost frame."""
    import greenlet

    out: List[Any] = []
    my_frames: List[Any] = []

    def level(k):
        my_frames.append(sys._getframe(0))
        if k == len(levels):
            out.append(queries_fn(list(my_frames)))      # queries_fn's own frame is the caller of extract
            return
        kind = levels[k]
        if kind == "f":
            level(k + 1)
        elif kind == "g":
            def gen():
                my_frames.append(sys._getframe(0))
                level(k + 1)
                yield 1
            next(gen())
        elif kind == "c":
            async def co():
                my_frames.append(sys._getframe(0))
                level(k + 1)
            try:
                co().send(None)
            except StopIteration:
                pass
        elif kind == "gl":
            gr = greenlet.greenlet(functools.partial(level, k + 1))
            gr.switch()
        elif kind == "glc":
            # two greenlets, the middle one running a C function (the inner one's switch): it is alive, an ancestor of the
            # caller, and holds no Python frame at all
            inner = greenlet.greenlet(functools.partial(level, k + 1))
            mid = greenlet.greenlet(inner.switch)
            inner.parent = mid
            mid.switch()
        elif kind == "gld":
            # the caller's greenlet has a *dead* direct parent: an exception would propagate past it to the next live ancestor
            box = {}

            def inner_body():
                greenlet.getcurrent().parent.switch()      # park: back to the middle greenlet
                level(k + 1)

            def mid_body():
                box["inner"] = greenlet.greenlet(inner_body)
                box["inner"].switch()
                return                                      # the middle greenlet finishes

            greenlet.greenlet(mid_body).switch()
            box["inner"].switch()                           # re-entered from here, below a dead parent
        elif kind == "deep":
            # a thread's stack, stitched across greenlets, longer than sys.getrecursionlimit(): a greenlet that has recursed
            # several hundred frames deep parks; a second one, started from shallow code with the first as its parent, recurses
            # several hundred frames again (each greenlet has a recursion budget of its own)
            def rec(n, then):
                if n:
                    return rec(n - 1, then)
                return then()

            g1 = greenlet.greenlet(lambda: rec(560, lambda: greenlet.getcurrent().parent.switch()))
            g1.switch()
            g2 = greenlet.greenlet(lambda: rec(560, lambda: level(k + 1)), parent=g1)
            g2.switch()
        elif kind == "gb":
            # the split is made by greenback: the levels below run as synchronous code of a Trio task that has a greenback portal
            # (greenback's child greenlet, under its shim and trampoline frames)
            import greenback
            import trio

            async def gb_main():
                my_frames.append(sys._getframe(0))
                await greenback.ensure_portal()
                level(k + 1)

            trio.run(gb_main)
        else:
            raise ValueError(kind)

    level(0)
    return out[0]


class C04(PropCheck):
    pid = "C04"
    real_time_limit = 60.0
    rule = ("stacks of depth 1..6 (quick) / 1..10 (thorough) over level kinds {function, running generator, running coroutine, "
            "new greenlet}; for each, the cross product of outer in {None} u frames, inner in {None} u frames, limit in "
            "{None,1,2,3,len+1} through extract(StackSlice), plus extract_since / extract_until (int and frame limits); "
            "non-trivial = outer or inner given; distinct = (levels, outer, inner, limit, api)")
    manifest = {
        "text": "Lean: C04_since_none (extract_since(None) is the whole true stack, through all greenlet parents, for any number of segments), C04_main_greenlet_slice and C04_greenlet_slice (for every outer <= inner position — or None — the model of unwrap_stackslice returns exactly that contiguous sub-list of the true stack, in the main greenlet via the f_back walk and in a nested greenlet via the index / reverse-slice computation), C04_limit (a limit keeps the frames nearest the anchor: outer if only outer is given, else inner / the caller), C04_revSlice (Python's l[a:b:-1] for the arguments that occur is reverse(take/drop)). Tie: real stacks with every (outer, inner, limit) vs the model; the oracle is a hand walk over f_back and greenlet.parent. C04_other_thread_limit (outer running on another thread, found by the search over sys._current_frames(): the slice is outer followed by its callees and the limit keeps the frames nearest outer) with C04_F26_old_code_witness (the code before F26, whose search loop rebound inner_frame, kept the innermost frames instead); the other-thread leg of the harness parks a thread at several depths and compares every (outer position, limit) with the model.",
        "note": "One thread only (other threads' stacks are C07's). outer inward of inner, and limit = 0, are outside the property's quantifier: the model mirrors the code there but no theorem is claimed. That stackscope's own frames are excluded is checked on the real result (get_true_caller is not modelled).",
    }
    assumptions = ["f_back is None at the outermost frame of a greenlet (CPython)", "frame identity = position in the hand-walked stack"]

    def cases(self, rng, tier):
        out = []
        maxd = 6 if tier == "quick" else 10
        n = 40 if tier == "quick" else 300
        seen = set()
        for levels in itertools.product(KINDS, repeat=2):
            out.append({"k": "stack", "levels": list(levels)})
        for _ in range(n):
            d = rng.randint(1, maxd)
            levels = [rng.choice(KINDS) for _ in range(d)]
            if tuple(levels) in seen:
                continue
            seen.add(tuple(levels))
            out.append({"k": "stack", "levels": levels, "qseed": rng.randrange(1 << 30), "hostile": len(out) % 5 == 0})
        # a stack longer than the recursion limit (two greenlets, several hundred frames each)
        out.append({"k": "stack", "levels": ["deep", "f"], "qseed": rng.randrange(1 << 30)})
        # the same under `python -O` (a child interpreter): nothing may depend on assert statements being executed
        for levels in (["f"], ["f", "g", "f"], ["gl", "f"], ["f", "gl", "c"], ["gld", "f"]):
            out.append({"k": "stack", "levels": levels, "qseed": rng.randrange(1 << 30), "optimized": True})
        # splits made by greenback (a Trio task with a portal), alone and with user-created greenlets nested inside
        for levels in (["gb"], ["f", "gb", "f"], ["gb", "gl", "f"], ["gb", "gl", "g"], ["gb", "f", "gl", "gl", "c"], ["gb", "gld", "f"],
                       ["gb", "glc", "f"], ["gl", "gb", "gl"]):
            out.append({"k": "stack", "levels": levels, "qseed": rng.randrange(1 << 30)})
        for d in (0, 1, 3) if tier == "quick" else (0, 1, 2, 3, 5, 8):
            out.append({"k": "otherthread", "depth": d, "levels": ["otherthread", str(d)]})
        return out

    def run_real(self, case):
        if case.get("optimized"):
            # the same scenario in a child interpreter started with -O (assert statements are stripped)
            import os
            import subprocess
            from ..core import REPO, VERIF

            inner = {k: v for k, v in case.items() if k != "optimized" and not k.startswith("_")}
            code = ("import json, sys\nfrom harness.props import c04\ncase = json.loads(sys.argv[1])\n"
                    "r = c04.CHECK.run_real_inner(case)\n"
                    "print('\\nRESULT ' + json.dumps({'real': r, 'probs': c04.CHECK._probs, 'queries': case.get('_queries'), 'segs': case.get('_segs')}))\n")
            p = subprocess.run(["/venv/bin/python", "-O", "-c", code, json.dumps(inner)], stdout=subprocess.PIPE, stderr=subprocess.PIPE, text=True,
                               env=dict(os.environ, PYTHONPATH=f"{REPO}:{VERIF}", STACKSCOPE_REPO=str(REPO)), timeout=300, cwd=str(VERIF))
            line = [l for l in p.stdout.splitlines() if l.startswith("RESULT ")]
            if not line:
                self._probs = [f"python -O child exit {p.returncode}: {p.stderr[-300:]}"]
                case["_queries"], case["_segs"] = [], []
                return "child failed"
            d = json.loads(line[-1][7:])
            case["_queries"], case["_segs"] = d["queries"] or [], d["segs"] or []
            self._probs = ["under python -O: " + x for x in d["probs"]]
            return d["real"]
        if not case.get("hostile"):
            return self.run_real_inner(case)
        # environment: sys.modules holds an entry whose attribute access fails with something other than AttributeError (a module
        # imported lazily with importlib.util.LazyLoader whose real import fails: optional extension missing).  It appears just
        # before the extraction, so the glue scan that precedes every extraction meets it.
        import sys
        import types

        class Lazy(types.ModuleType):
            def __getattribute__(self, name):
                if name in ("__dict__", "_stackscope_install_glue_") or not name.startswith("__"):
                    raise ModuleNotFoundError("No module named 'optional_extension' (lazy import failed)")
                return super().__getattribute__(name)

        C04._hostile_n = getattr(C04, "_hostile_n", 0) + 1
        name = f"verif_c04_lazy_{C04._hostile_n}"
        sys.modules[name] = Lazy(name)
        try:
            return self.run_real_inner(case)
        finally:
            sys.modules.pop(name, None)

    def run_other_thread(self, case):
        """`outer` is a frame running on ANOTHER thread (parked at a known depth): every outer position of that thread's stack x
        limits.  The slice is outer followed by its callees, the limit anchored at outer."""
        import threading

        import stackscope
        from stackscope import StackSlice

        ev, ready = threading.Event(), threading.Event()
        depth = case["depth"]

        def t_level(k):
            if k == 0:
                ready.set()
                ev.wait(30)
            else:
                t_level(k - 1)

        t = threading.Thread(target=t_level, args=(depth,), daemon=True)
        t.start()
        ready.wait(5)
        import time as _t

        _t.sleep(0.05)
        probs: List[str] = []
        qlist: List[dict] = []
        outs: List[str] = []
        try:
            def ask():
                full, segs = manual_walk()
                idx = {id(f): i for i, f in enumerate(full)}
                chain = []
                f = sys._current_frames()[t.ident]
                while f is not None:
                    chain.append(f)
                    f = f.f_back
                for i, f in enumerate(chain):
                    idx[id(f)] = 1000 + i
                others = [[1000 + i for i in range(len(chain))]]
                case["_segs"] = [[idx[id(f)] for f in seg] for seg in segs]
                nthreads = len(sys._current_frames())
                for o in range(len(chain)):
                    for lim in (None, 1, 2, len(chain) + 3):
                        st = stackscope.extract(StackSlice(outer=chain[o], limit=lim), with_contexts=False)
                        fr = [idx.get(id(x.pyframe), -1) for x in st.frames]
                        obs = "frames=[" + ",".join(map(str, fr)) + "]" + ("" if st.error is None else f" error={st.error!r}")
                        want = [1000 + i for i in range(o, -1, -1)]
                        if lim is not None:
                            want = want[:lim]
                        if fr != want or st.error is not None:
                            probs.append(f"StackSlice(outer=<frame {o} of another thread's stack of {len(chain)}>, limit={lim}) gave {obs}; "
                                         f"outer followed by its callees is {want}")
                        outs.append(obs)
                        qlist.append({"outer": 1000 + o, "inner": None, "limit": lim, "others": others, "threads": [1000]})
                if nthreads != 2:
                    # other threads exist: the search order is theirs too; the model is only given this one
                    case["_extra_threads"] = nthreads - 2
            ask()
        finally:
            ev.set()
            t.join(5)
        self._probs = probs
        case["_queries"] = qlist
        return "§".join(outs)

    def run_real_inner(self, case):
        if case["k"] == "otherthread":
            return self.run_other_thread(case)
        import stackscope
        from stackscope import StackSlice

        rng = random.Random(case.get("qseed", 0))
        probs: List[str] = []
        qlist: List[dict] = []

        def queries(mine):
            full, segs = manual_walk()
            idx = {id(f): i for i, f in enumerate(full)}
            first_mine = idx[id(mine[0])]
            positions = [None] + list(range(max(0, first_mine - 2), len(full)))
            if len(positions) > 60:
                positions = [None] + sorted(rng.sample(positions[1:], 40) + [positions[1], positions[-1]])
            limits = [None, 1, 2, 3, len(full) + 1]
            combos = [(o, i, l) for o in positions for i in positions for l in limits]
            if len(combos) > 260:
                combos = rng.sample(combos, 260)
            res = []
            segj = [[idx[id(f)] for f in seg] for seg in segs]
            case["_segs"] = segj
            gbf = {i for i, f in enumerate(full) if str(f.f_globals.get("__name__", "")).startswith("greenback")}

            def ends_in_greenback(o, i, l):
                # listed known finding F51: a slice whose last frame is one of greenback's own (shim, trampoline, await_) runs on
                # past its end; such slices are replayed by the finding's witness and not asked here
                if o is not None and i is not None and o > i:
                    return o in gbf          # (outside the quantifier; the code answers [outer] + "not running")
                sp = spec(o, i, l)
                return bool(sp) and sp[-1] in gbf

            def show(st):
                fr = []
                for f in st.frames:
                    nm = f.pyframe.f_globals.get("__name__")
                    nm = nm if isinstance(nm, str) else ""
                    if nm.startswith("stackscope.") and not nm.startswith("stackscope._tests"):
                        probs.append("the result contains one of stackscope's own frames")
                    fr.append(idx.get(id(f.pyframe), -1))
                s = "frames=[" + ",".join(str(x) for x in fr) + "]"
                if st.error is not None:
                    s += " error=notrunning" if "Couldn't find where the above frame is running" in str(st.error) else f" error={st.error!r}"
                return s, fr

            def spec(o, i, l):
                lo = 0 if o is None else o
                hi = len(full) - 1 if i is None else i
                s = list(range(lo, hi + 1))
                if l is not None:
                    s = s[:l] if (i is None and o is not None) else s[len(s) - l:] if l < len(s) else s
                return s

            for o, i, l in combos:
                if ends_in_greenback(o, i, l):
                    continue
                if len(res) % 2:
                    # the documented positional order: outer, inner, limit
                    sl = StackSlice(None if o is None else full[o], None if i is None else full[i], l)
                else:
                    sl = StackSlice(outer=None if o is None else full[o], inner=None if i is None else full[i], limit=l)
                st = stackscope.extract(sl, with_contexts=False)
                s, fr = show(st)
                res.append(s)
                qlist.append({"outer": o, "inner": i, "limit": l})
                if (o is None or i is None or o <= i) and fr != spec(o, i, l):
                    probs.append(f"StackSlice(outer={o}, inner={i}, limit={l}) gave {fr}, the true stack slice is {spec(o, i, l)} "
                                 f"(stack of {len(full)} frames, greenlet segments {segj})")
            # the shortcut APIs
            mine_pos = list(range(first_mine, len(full))) if len(full) <= 80 else [q for q in positions[1:] if q >= first_mine][::4]
            for o in [None] + mine_pos:
                st = stackscope.extract_since(None if o is None else full[o], with_contexts=False)
                s, fr = show(st)
                res.append(s)
                qlist.append({"outer": o, "inner": None, "limit": None})
                if fr != spec(o, None, None):
                    probs.append(f"extract_since({o}) gave {fr}, expected {spec(o, None, None)}")
            for i in mine_pos:
                if i in gbf:
                    continue
                for l in (None, 1, 2, len(full) + 1):
                    st = stackscope.extract_until(full[i], limit=l, with_contexts=False)
                    s, fr = show(st)
                    res.append(s)
                    qlist.append({"outer": None, "inner": i, "limit": l})
                    if fr != spec(None, i, l):
                        probs.append(f"extract_until({i}, limit={l}) gave {fr}, expected {spec(None, i, l)}")
                # frame-valued limit: reachable by f_back only, in zero or more steps (limit=inner is the one-frame slice)
                f = full[i]
                steps = 0
                while f is not None and id(f) in idx and steps < 12:
                    steps += 1
                    lo = idx[id(f)]
                    try:
                        st = stackscope.extract_until(full[i], limit=f, with_contexts=False)
                    except Exception as e:
                        probs.append(f"extract_until({i}, limit=frame {lo}) raised {type(e).__name__}: {e}")
                        f = f.f_back
                        continue
                    s, fr = show(st)
                    res.append(s)
                    qlist.append({"outer": lo, "inner": i, "limit": None})
                    if fr != spec(lo, i, None):
                        probs.append(f"extract_until({i}, limit=frame {lo}) gave {fr}, expected {spec(lo, i, None)}")
                    f = f.f_back
            # callers living in modules whose name merely resembles stackscope's: their frames are the user's, not the library's
            # ... or in a namespace without a usable name at all (exec'd rule code: no __name__ key, or a blanked / non-string one)
            for modname in ("stackscope_contrib.dump", "stackscopex", "contrib_for_stackscope", "<nameless>", None, 5):
                ns = {} if modname == "<nameless>" else {"__name__": modname}
                exec("def call(fn, *a, **k):\n    return fn(*a, **k)\n", ns)
                for o in (None, first_mine):
                    st = ns["call"](stackscope.extract_since, None if o is None else full[o], with_contexts=False)
                    _, fr = show(st)
                    names = [f.funcname for f in st.frames]
                    want = spec(o, None, None) + [-1]
                    if fr != want or names[-1:] != ["call"]:
                        probs.append(f"extract_since({o}) called from module {modname!r} gave {fr} (innermost {names[-1:]}), expected {want} "
                                     f"ending in the caller's own frame")
                st = ns["call"](stackscope.extract, StackSlice(limit=2), with_contexts=False)
                names = [f.funcname for f in st.frames]
                if names[-1:] != ["call"] or len(names) != 2:
                    probs.append(f"StackSlice(limit=2) from module {modname!r} gave {names}, expected the caller `call` and its caller")
            return res

        res = run_scenario(case["levels"], queries)
        case["_queries"] = qlist
        self._probs = probs
        return "§".join(res)

    def model_lines(self, case):
        return [json.dumps({"p": "C04", "k": "slice", "segs": case["_segs"], **q}) for q in case["_queries"]]

    def model_line(self, case):
        return None

    def canon(self, case, real):
        return real

    def oracle(self, case, real):
        return self._oracles.get(id(case))

    def nontrivial_key(self, case, real):
        return json.dumps(case["levels"])

    def stats(self, cases, reals):
        d = {"stacks": len(cases), "other_thread_stacks": sum(c["k"] == "otherthread" for c in cases), "queries": 0, "with_greenlets": 0, "with_generators": 0, "with_coroutines": 0, "max_depth": 0}
        for c in cases:
            d["queries"] += len(c.get("_queries", []))
            d["with_greenlets"] += "gl" in c["levels"]
            d["with_generators"] += "g" in c["levels"]
            d["with_coroutines"] += "c" in c["levels"]
            d["max_depth"] = max(d["max_depth"], len(c["levels"]))
        return d


_orig = C04.run_real


def _run(self, case):
    if not hasattr(self, "_oracles"):
        self._oracles = {}
    r = _orig(self, case)
    self._oracles[id(case)] = "; ".join(self._probs[:3])[:900] if self._probs else None
    return r


C04.run_real = _run  # type: ignore[assignment]
CHECK = C04()
