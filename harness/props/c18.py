"""C18 — tree formatting is well-formed; reading it back recovers the Stack's structure.

Generated Stack trees built from real frames (harness/trees.py) are formatted by the real
`Stack.format()` under all 8 option combinations and compared line by line (string equality) with the
Lean model `SS.Format.format`, whose marker table is regenerated from the source on every run.
Oracle, on the real output alone: every line is a single newline-terminated line and str() is their
concatenation; the Unicode output parses back (recursive-descent reader) to the tree's skeleton; the
ASCII output is the Unicode output with each 2-character marker replaced by its fixed counterpart and is
pure ASCII; hidden items appear iff show_hidden_frames; show_contexts=False prints exactly the frame series.
"""
from __future__ import annotations

import itertools
import json
import random
from typing import Any, List, Optional

from .. import trees
from ..core import PropCheck


def esc(lines: List[str]) -> str:
    return "¦".join(l.replace("\n", "⏎") for l in lines)


def prune_hidden(s):
    """The same tree with hidden frames and contexts removed (used for the hidden-iff oracle)."""
    import stackscope

    def st(x):
        return stackscope.Stack(root=x.root, frames=[fr(f) for f in x.frames if not f.hide], leaf=x.leaf, error=x.error)

    def fr(f):
        g = stackscope.Frame(pyframe=f.pyframe, lineno=f.lineno, origin=f.origin, contexts=[cx(c) for c in f.contexts if not c.hide],
                             hide=False, hide_line=f.hide_line)
        return g

    def cx(c):
        return stackscope.Context(obj=c.obj, is_async=c.is_async, is_exiting=c.is_exiting, varname=c.varname, start_line=c.start_line,
                                  description=c.description, inner_stack=None if c.inner_stack is None else st(c.inner_stack),
                                  children=[(cx(ch) if isinstance(ch, stackscope.Context) else st(ch)) for ch in c.children
                                            if not (isinstance(ch, stackscope.Context) and ch.hide)], hide=False)

    return st(s)


def hidden_sensitive(s) -> bool:
    """Pruning hidden items changes something else than their own lines: a hidden last context that is
    exiting (suppresses the code line) or a child stack all of whose frames are hidden (blank-line logic)."""
    import stackscope

    def st(x, child=False):
        if child and x.frames and all(f.hide for f in x.frames):
            return True
        return any(fr(f) for f in x.frames)

    def fr(f):
        if f.contexts and f.contexts[-1].hide and f.contexts[-1].is_exiting:
            return True
        if f.contexts and f.contexts[-1].hide != False and any(c.is_exiting for c in f.contexts):
            return True
        return any(cx(c) for c in f.contexts)

    def cx(c):
        if c.inner_stack is not None and st(c.inner_stack):
            return True
        return any((cx(ch) if isinstance(ch, stackscope.Context) else st(ch, True)) for ch in c.children)

    return st(s)


class C18(PropCheck):
    pid = "C18"
    rule = ("random Stack trees (depth/width <= 3 quick, <= 4 thorough) over real frames (function, method, classmethod, "
            "self-named first arg), contexts with every combination of obj/varname/start_line/description/exiting/hidden, inner "
            "stacks, child contexts, child task stacks (stub or populated, with or without root), leaf, error (plain, "
            "multi-line, with traceback, group, messages with form feed / separators), x all 8 option combinations; error blocks alone for messages over an alphabet containing every str.splitlines() boundary, plain and chained; non-trivial = the tree has a context with an "
            "inner stack or children; distinct = (tree, options)")
    manifest = {
        "text": "Lean: C18_error_lines_single / C18_error_lines_count / C18_error_lines_lossless (SSModel/ErrLines.lean: how _format_error turns one element of traceback.format_exception into elements of format() -- whatever characters the message contains, each element is two spaces, a newline-free payload and one newline; as many elements as the text has newline-separated lines; the payloads joined by newlines are the element) and C18_F21_old_code_witness (str.splitlines(True), the code before F21, yields an element that does not end in a newline for a message with a carriage return). Lean (over the marker table regenerated from _types.py on every run): C18_lines (every formatted line ends in exactly one newline and contains no other, given newline-free payloads), C18_str (str = concatenation of format()), C18_markers_two_wide / C18_markers_decodable (all markers are two characters; the Unicode markers that can start a line at the same grammar position are pairwise distinct) / C18_indicator_is_start_child, C18_ascii (ASCII output = Unicode output with each marker replaced through a fixed map), C18_no_contexts (show_contexts=False prints exactly header, one or two lines per visible frame, leaf, error), C18_hidden_frames (a hidden frame contributes no line unless show_hidden_frames), C18_frame_blocks, C18_context_blocks (one level down: inside a visible frame's block, with the frame marker removed, the lines after the header split at start-of-context markers into exactly the visible contexts' blocks; the frame's source line is not absorbed) and C18_inner_stack_frames (inside a visible context with an inner stack, the lines after the context's own line split into exactly the inner stack's visible frames; its leaf and error lines and all lines of the context's children are not absorbed), (the frame series is recoverable: splitting the body at start-frame markers gives one block per visible frame, in order). The full-depth read-back of contexts / inner stacks / children is executed on the real output by the harness reader on every run (not proved). Tie: real format() lines vs model lines, string equality, 8 option combinations; real _format_error() elements vs the model's sublines, code point by code point, for messages over an alphabet with every str.splitlines() boundary.",
        "note": "Partial: the nesting below the frame level (contexts, inner stacks, children) is read back by an executable reader on the real text, not by a Lean theorem; the child-kind and empty-inner-stack erasures are part of the skeleton (DESIGN §4 C18). Payload strings (names, source lines, reprs, traceback text) are opaque and assumed single-line.",
    }
    assumptions = ["names, source lines and reprs contain no newline", "linecache / traceback.format_exception / repr are used as given"]

    def cases(self, rng, tier):
        out = []
        n = 300 if tier == "quick" else 3000
        dmax = 3 if tier == "quick" else 4
        for i in range(n):
            seed = rng.randrange(1 << 30)
            out.append({"k": "tree", "seed": seed, "depth": rng.randint(2, dmax), "width": rng.randint(2, dmax)})
            if i % 10 == 0:
                # plus a frame whose context has a child context with an inner stack of its own (as an ExitStack entering a
                # generator-based manager gives), below the depth budget of the random part
                out.append({"k": "tree", "seed": rng.randrange(1 << 30), "depth": 2, "width": 2, "graft": True})
        for i in range(150 if tier == "quick" else 1500):
            out.append({"k": "err", "seed": rng.randrange(1 << 30), "chain": i % 5 == 0})
        return out

    ERR_ALPHABET = ["a", "b", " ", ":", "\n", "\n", "\r", "\r\n", "\x0b", "\x0c", "\x1c", "\x1d", "\x1e", "\x85", "\u2028", "\u2029", "é", "\t"]

    def run_err(self, case):
        """The error block alone: an exception (with a real traceback, possibly chained) whose message is drawn from an alphabet
        that contains every str.splitlines() boundary.  Real `_format_error()` elements vs the model's `ErrLines.sublines` of each
        element of traceback.format_exception(); oracle: every element is one newline-terminated line, the count is the number of
        lines of the text, nothing is lost."""
        import traceback

        import stackscope

        rng = random.Random(case["seed"])
        msg = "".join(rng.choice(self.ERR_ALPHABET) for _ in range(rng.randint(0, 12)))

        def lvl(n):
            if n == 0:
                raise RuntimeError(msg)
            lvl(n - 1)

        try:
            try:
                lvl(rng.randint(0, 2))
            except RuntimeError as e1:
                if case.get("chain"):
                    raise ValueError(msg[::-1]) from e1
                raise
        except Exception as e:
            err = e
        st = stackscope.Stack(root=None, frames=[], error=err)
        self._probs = []
        real = list(st._format_error())
        full = st.format()
        elems = [l for l in traceback.format_exception(type(err), err, err.__traceback__) if l != "Traceback (most recent call last):\n"]
        case["_err_elems"] = [[ord(ch) for ch in l] for l in elems]
        for l in full:
            if not l.endswith("\n") or l.count("\n") != 1:
                self._probs.append(f"format() element is not a single newline-terminated line: {l!r} (message {msg!r})")
                break
        text = "".join(full)
        if text != str(st):
            self._probs.append("str(x) is not the concatenation of format()")
        if len(full) != text.count("\n"):
            self._probs.append(f"{len(full)} elements for {text.count(chr(10))} lines of text (message {msg!r})")
        want_payload = "".join(elems)
        got_payload = "".join(l[2:] for l in real[1:])
        if got_payload.replace("\n", "") != want_payload.replace("\n", ""):
            self._probs.append(f"the error block loses or reorders traceback text (message {msg!r})")
        return " ".join("-".join(str(ord(ch)) for ch in l) for l in real[1:])

    def build(self, case):
        rng = random.Random(case["seed"])
        st = trees.rnd_stack(rng, case["depth"], case["width"])
        return trees.graft_deep_child(rng, st) if case.get("graft") else st

    def run_real(self, case):
        if case["k"] == "err":
            return self.run_err(case)
        s = self.build(case)
        self._probs: List[str] = []
        parts = []
        outs = {}
        for ascii_, ctx, hid in itertools.product([False, True], repeat=3):
            lines = s.format(ascii_only=ascii_, show_contexts=ctx, show_hidden_frames=hid)
            outs[(ascii_, ctx, hid)] = lines
            parts.append(esc(lines))
            for l in lines:
                if not l.endswith("\n") or l.count("\n") != 1:
                    self._probs.append(f"line not a single newline-terminated line: {l!r}")
        want_header = ("stackscope.Stack (most recent call last):\n" if s.root is None
                       else f"stackscope.Stack of {s.root!r} (most recent call last):\n")
        if outs[(False, True, False)][:1] != [want_header]:
            self._probs.append(f"header line {outs[(False, True, False)][:1]!r} for root {s.root!r}; expected {want_header!r}")
        # the type shown for a context's manager is its real type, whatever its __class__ attribute claims
        import stackscope as _ss

        def ctx_types(st, acc):
            for f in st.frames:
                for c in f.contexts:
                    ctx_of(c, acc)
            return acc

        def ctx_of(c, acc):
            if c.obj is not None:
                acc.append(type(c.obj).__name__)
            if c.inner_stack is not None:
                ctx_types(c.inner_stack, acc)
            for ch in c.children:
                ctx_of(ch, acc) if isinstance(ch, _ss.Context) else ctx_types(ch, acc)

        tn = ctx_types(s, [])
        full_text = "".join(outs[(False, True, True)])
        for name in ("RProxy",):
            if full_text.count(": " + name) != tn.count(name):
                self._probs.append(f"{tn.count(name)} contexts hold a manager of type {name}; the formatted tree names that type "
                                   f"{full_text.count(': ' + name)} times")
        if str(s) != "".join(s.format()):
            self._probs.append("str(x) is not the concatenation of format()")
        for ctx, hid in itertools.product([False, True], repeat=2):
            uni, asc = outs[(False, ctx, hid)], outs[(True, ctx, hid)]
            if [trees.to_ascii(l) for l in uni] != asc:
                bad = [(u, a) for u, a in zip(uni, asc) if trees.to_ascii(u) != a][:1]
                self._probs.append(f"ascii_only output is not the marker-for-marker image of the Unicode output: {bad}")
            if not all(ord(ch) < 128 for l in asc for ch in l):
                self._probs.append("ascii_only output contains non-ASCII characters although all payloads are ASCII")
            # read back
            body = [l.rstrip("\n") for l in uni][1:]
            try:
                got = trees.parse_stack_body(body)
            except Exception as e:
                got = ("ERR", repr(e))
            exp = trees.erase(trees.sk_stack(s, hid, ctx))
            if got != exp:
                self._probs.append(f"reading the text back (contexts={ctx}, hidden={hid}) gives {got}, the Stack's structure is {exp}")
        # hidden iff show_hidden_frames
        if not trees_hidden_sensitive(s):
            p = prune_hidden(s)
            for ascii_, ctx in itertools.product([False, True], repeat=2):
                # blank separator lines are not part of what the property promises (a hidden child context between two
                # child task stacks resets the formatter's did_blank flag and a second blank line appears): compare the rest
                nb = lambda ls: [l for l in ls if l.strip(" \n\u2551\u2502|:")]     # drop lines made of continuation markers only
                if nb(outs[(ascii_, ctx, False)]) != nb(p.format(ascii_only=ascii_, show_contexts=ctx, show_hidden_frames=True)):
                    self._probs.append("output without hidden items differs from the output of the tree with hidden items removed")
        # show_contexts=False prints exactly the frame series
        for hid in (False, True):
            lines = outs[(False, False, hid)]
            exp = [s._format_header()]
            for f in s.frames:
                if f.hide and not hid:
                    continue
                d = trees.d_frame(f)
                exp.append("╠ " + d["head"] + "\n")
                if d["code"] and not (f.contexts and f.contexts[-1].is_exiting):
                    exp.append("║ └ " + d["code"] + "\n")
            if s.leaf is not None:
                exp.append(f"╚ {s.leaf!r}\n")
            if s.error is not None:
                exp.append("  Error while extracting stack:\n")
                exp += ["  " + l for l in trees.error_lines(s.error)]
            if lines != exp:
                self._probs.append(f"show_contexts=False does not print exactly the frame series: {lines} vs {exp}")
        case["_stack"] = trees.d_stack(s)
        return "§".join(parts)

    def model_line(self, case):
        # one driver line per option combination would be 8x the parsing: the driver is asked 8 times in one go
        return None

    def model_lines(self, case) -> List[str]:
        if case["k"] == "err":
            return [json.dumps({"p": "C18", "k": "errlines", "lines": case["_err_elems"]})]
        out = []
        for ascii_, ctx, hid in itertools.product([False, True], repeat=3):
            out.append(json.dumps({"p": "C18", "k": "format", "stack": case["_stack"], "ascii": ascii_, "contexts": ctx, "hidden": hid},
                                  ensure_ascii=False))
        return out

    def canon(self, case, real):
        return real

    def oracle(self, case, real):
        return self._oracles.get(id(case))

    def nontrivial_key(self, case, real):
        if case["k"] == "err":
            return json.dumps({k: v for k, v in case.items() if not k.startswith("_")}, sort_keys=True) if isinstance(real, str) and " " in real else None
        s = json.dumps(case.get("_stack", {}))
        if '"inner": {' in s or '"children": [{' in s:
            return json.dumps({k: v for k, v in case.items() if not k.startswith("_")}, sort_keys=True)
        return None

    def stats(self, cases, reals):
        d = {"trees": sum(c["k"] == "tree" for c in cases), "lines_total": 0, "with_inner": 0, "with_child_stack": 0, "with_error": 0, "with_hidden": 0,
             "with_exiting": 0}
        d["error_blocks"] = sum(c["k"] == "err" for c in cases)
        for c, r in zip(cases, reals):
            if c["k"] == "err":
                continue
            s = json.dumps(c.get("_stack", {}))
            d["with_inner"] += '"inner": {' in s
            d["with_child_stack"] += '"children": [{"root"' in s or ', {"root"' in s
            d["with_error"] += '"error": [' in s
            d["with_hidden"] += '"hide": true' in s
            d["with_exiting"] += '"exiting": true' in s
            if isinstance(r, str):
                d["lines_total"] += r.count("¦") + r.count("§") + 1
        return d


def trees_hidden_sensitive(s) -> bool:
    return hidden_sensitive(s)


_orig = C18.run_real


def _run(self, case):
    if not hasattr(self, "_oracles"):
        self._oracles = {}
    r = _orig(self, case)
    self._oracles[id(case)] = "; ".join(self._probs[:3])[:900] if self._probs else None
    return r


C18.run_real = _run  # type: ignore[assignment]
CHECK = C18()
