"""C03 — a suspended await / yield-from chain extracts as the path an exception would take.

For every generated chain (harness/chains.py) at every one of its suspension points:
  * correspondence: the heap reachable from x through (own frame, awaited object) links — CPython
    facts read off cr_await / gi_yieldfrom / ag_await and gc.get_referents — is translated to a hook
    environment and extracted by the Lean model (M-D with the built-in glue as environment);
  * oracle (K-throw): Probe is thrown into the same chain and the traceback's (frame object, line)
    list must equal extract(x).frames; leaf / root / error / with_contexts-independence are checked too.
"""
from __future__ import annotations

import gc
import itertools
import json
import random
import types
from typing import Any, Dict, List, Optional

from .. import chains
from ..core import PropCheck

GENLIKE = (types.CoroutineType, types.GeneratorType, types.AsyncGeneratorType)


def heap_env(x) -> (dict, Dict[int, int]):
    """Translate the heap reachable from x into an environment for the Lean model."""
    ids: Dict[int, int] = {}
    items: List[dict] = []
    keep = []

    def ident(o) -> Optional[int]:
        if o is None:
            return None
        if id(o) in ids:
            return ids[id(o)]
        k = len(ids)
        ids[id(o)] = k
        keep.append(o)
        import weakref as _weakref

        if type(o) in (_weakref.ProxyType, _weakref.CallableProxyType):
            # a transparent proxy of a generator: unwrapped like the generator (dispatch goes by __class__), but it cannot be
            # weakly referenced itself, so it is nobody's Frame.origin
            fr = chains.frame_of(o)
            fid = ident(fr) if fr is not None else None
            if fr is not None:
                items.append({"id": fid, "kind": "frame", "el": None, "hide": "__tracebackhide__" in fr.f_locals})
            aw = chains.awaited_of(o)
            parts = [x for x in (fid, ident(aw)) if x is not None]
            items.append({"id": k, "kind": "thingnw", "uw": ["tuple", parts]})
        elif isinstance(o, GENLIKE):
            fr = chains.frame_of(o)
            running = getattr(o, "gi_running", False) or getattr(o, "cr_running", False)
            fid = ident(fr) if fr is not None else None
            if fr is not None:
                items.append({"id": fid, "kind": "frame", "el": None, "hide": "__tracebackhide__" in fr.f_locals})
            aw = chains.awaited_of(o)
            items.append({"id": k, "kind": "gen", "frame": fid, "yf": ident(aw)})
        elif isinstance(o, types.FrameType):
            pass
        else:
            tn = type(o).__name__
            if tn in ("coroutine_wrapper", "async_generator_asend", "async_generator_athrow"):
                ref = [r for r in gc.get_referents(o) if isinstance(r, GENLIKE)]
                items.append({"id": k, "kind": "thingnw", "uw": ["one", ident(ref[0])] if ref else ["raise", 1]})
            elif tn == "anext_awaitable":
                # anext(ait, default): wraps the awaitable ait.__anext__() returned (first referent; the second is the default)
                ref = gc.get_referents(o)
                items.append({"id": k, "kind": "thingnw", "uw": ["one", ident(ref[0])] if ref else None})
            else:
                items.append({"id": k, "kind": "thing", "uw": None})
        return k

    root = ident(x)
    return {"k": "env", "x": root, "wc": False, "items": items}, ids


def show(st, ids) -> str:
    def oid(o):
        return "-" if o is None else str(ids.get(id(o), "?" + type(o).__name__))

    fr = " ".join(f"{ids.get(id(f.pyframe), '?')}:{oid(f.origin)}:{'T' if f.hide else 'F'}" for f in st.frames)
    leaf = st.leaf
    if isinstance(leaf, list):
        ls = "[" + ",".join("i" + oid(o) for o in leaf) + "]"
    else:
        ls = "None" if leaf is None else "i" + oid(leaf)
    err = "" if st.error is None else type(st.error).__name__
    return f"frames=[{fr}] leaf={ls} errors=[{err}]"


class C03(PropCheck):
    pid = "C03"
    real_time_limit = 10.0
    rule = ("chains root in {coroutine, async generator, generator} x links from {await coroutine, await generator-based "
            "coroutine, __await__ -> coroutine wrapper, __await__ -> generator, __anext__, anext(x, default), asend, athrow, aclose, async for, "
            "yield from} x end in {trap, non-frame leaf}; exhaustive up to depth 2 (quick) / 3 (thorough) plus random up to "
            "depth 12 / 40, observed at every suspension point; also exhausted roots; non-trivial = at least one link; "
            "distinct = (spec, suspension point)")
    manifest = {
        "text": "Lean: for chain-shaped environments (each generator-like object unwraps to its own frame and what it awaits; coroutine wrappers and asend/athrow awaitables unwrap to the object they wrap) C03_chain_frames proves by induction on the chain, for any length and any mix of link kinds, that extract yields exactly the frames of the chain in order, each with its owner as origin, the terminal non-frame object as leaf (None when the chain ends in a frame), and no error; C03_exhausted (a finished root yields no frames, no leaf); C03_contexts_irrelevant (with_contexts only adds context errors, never changes frames or leaf). Tie: the real heap of generated chains is translated to such an environment and the model's result is diffed with the real extract; the oracle throws an exception into the same chain and compares the traceback (frame objects and line numbers).",
        "note": "cr_await / gi_yieldfrom / ag_await, gc.get_referents on coroutine_wrapper / asend / athrow objects, and the traceback produced by throw() are CPython facts: read by the harness, assumed by the model (M-F).",
    }
    assumptions = ["the (own frame, awaited object) links are what CPython exposes as cr_await / gi_yieldfrom / ag_await",
                   "gc.get_referents(coroutine_wrapper / asend / athrow awaitable) contains the wrapped object"]

    def cases(self, rng, tier):
        out = []
        maxex = 2 if tier == "quick" else 3
        for root in ("coro", "agen", "gen"):
            pool = chains.GEN_LINKS if root == "gen" else chains.CORO_LINKS
            for end in chains.ENDS:
                for n in range(0, maxex + 1):
                    for links in itertools.product(pool, repeat=n):
                        for two in (False, True):
                            out.append({"k": "chain", "root": root, "links": list(links), "end": end, "two_points": two,
                                        "step": 0})
        if tier == "quick":
            keep = [c for c in out if len(c["links"]) < 2]
            rest = [c for c in out if len(c["links"]) >= 2]
            out = keep + rng.sample(rest, min(len(rest), 250))
        else:
            # (with 19 link kinds the depth-3 product has grown past 100 000 chains: depth <= 2 stays exhaustive, depth 3 is sampled)
            keep = [c for c in out if len(c["links"]) < 3]
            rest = [c for c in out if len(c["links"]) >= 3]
            out = keep + rng.sample(rest, min(len(rest), 25000))
        nrand = 150 if tier == "quick" else 2500
        maxd = 12 if tier == "quick" else 40
        for _ in range(nrand):
            root = rng.choice(chains.ROOTS)
            pool = chains.GEN_LINKS if root == "gen" else chains.CORO_LINKS
            n = rng.randint(1, maxd)
            two = rng.random() < 0.6
            out.append({"k": "chain", "root": root, "links": [rng.choice(pool) for _ in range(n)],
                        "end": rng.choice(chains.ENDS), "two_points": two,
                        "step": rng.randint(0, n + 1) if two else 0})
        # every suspension point of some two-point chains
        for c in [c for c in out if c["two_points"] and 0 < len(c["links"]) <= 3][:60 if tier == "quick" else 600]:
            for s in range(1, len(c["links"]) + 2):
                out.append(dict(c, step=s))
        # long chains: the 100-step guard must count steps *without progress*, not the length of the chain
        for n in ((105, 130, 260) if tier == "quick" else (101, 105, 130, 200, 260, 320)):
            for kind in ("await_coro", "await_wrapper", "agen_asend"):
                out.append({"k": "chain", "root": "coro", "links": [kind] * n, "end": rng.choice(chains.ENDS),
                            "two_points": False, "step": 0})
            out.append({"k": "chain", "root": "coro", "links": [rng.choice(chains.CORO_LINKS) for _ in range(n)],
                        "end": "trap", "two_points": False, "step": 0})
            out.append({"k": "chain", "root": "gen", "links": ["yield_from"] * n, "end": "trap", "two_points": False, "step": 0})
        # chains that end where code running under asyncio really ends: on a pending asyncio.Future (its C iterator is the leaf)
        for n in range(0, 4):
            for links in itertools.product(["await_coro", "await_wrapper", "agen_asend"], repeat=n):
                out.append({"k": "chain", "root": "coro", "links": list(links), "end": "asyncio_future", "two_points": False, "step": 0})
        # the same chains under process-wide settings that must not matter
        for c in [c for c in out if 2 <= len(c["links"]) <= 6][:40 if tier == "quick" else 400]:
            out.append(dict(c, tblimit=rng.choice([0, 1, 2, -1])))
        for root in ("coro", "gen", "agen"):
            out.append({"k": "unstarted", "root": root})
        for root in ("coro", "agen", "gen", "agen_thrown_out", "agen_closed_in_finally", "gen_thrown_out", "coro_thrown_out"):
            out.append({"k": "exhausted", "root": root})
        return out

    def run_real(self, case):
        import stackscope

        if case["k"] == "unstarted":
            # created but never stepped: an exception thrown in now unwinds through its one frame, at the def line
            root = case["root"]
            if root == "coro":
                async def f():
                    await chains.trap()
                x = f()
            elif root == "gen":
                def f():
                    yield 1
                x = f()
            else:
                async def f():
                    yield 1
                x = f()
            st = stackscope.extract(x)
            st_nc = stackscope.extract(x, with_contexts=False)
            fr = chains.frame_of(x)
            env, ids = heap_env(x)
            case["_env"] = env
            self._oracle = None
            at_def = [(fr, fr.f_lineno)]
            try:
                if root == "agen":
                    x.athrow(chains.Probe()).send(None)
                else:
                    x.throw(chains.Probe())
            except chains.Probe as e:
                tb = e.__traceback__
                path = []
                while tb is not None:
                    if tb.tb_frame is fr:
                        path.append((tb.tb_frame, tb.tb_lineno))
                    tb = tb.tb_next
            except BaseException:
                path = []
            if not path:
                path = at_def          # (the interpreter ended it without entering the frame: where it was parked is the def line)
            got = [(f_.pyframe, f_.lineno) for f_ in st.frames]
            if got != path or [(f_.pyframe, f_.lineno) for f_ in st_nc.frames] != path or st.leaf is not None or st.error is not None:
                self._oracle = (f"unstarted {root}: frames/lines {[(a.f_code.co_name, b) for a, b in got]}, leaf {st.leaf!r}, error {st.error!r}; an "
                                f"exception thrown in unwinds through {[(a.f_code.co_name, b) for a, b in path]}")
            if root == "coro":
                x.close()
            return show(st, ids)
        if case["k"] == "exhausted":
            root = case["root"]
            if root == "coro":
                async def f():
                    pass
                x = f()
                try:
                    x.send(None)
                except StopIteration:
                    pass
            elif root == "gen":
                def g():
                    yield
                x = g()
                list(x)
            elif root in ("agen_thrown_out", "agen_closed_in_finally"):
                # finished by an exception thrown into an in-flight aclose()/asend() awaitable while its finally clause was
                # awaiting (CPython 3.12 then leaves ag_running set on the finished generator)
                async def a2():
                    try:
                        yield 0
                    finally:
                        await chains.trap()
                x = a2()
                d0 = x.asend(None)
                try:
                    d0.send(None)
                except StopIteration:
                    pass
                d = x.aclose()
                d.send(None)
                try:
                    if root == "agen_thrown_out":
                        d.throw(chains.Probe2())
                    else:
                        d.send(None)
                except (chains.Probe2, StopIteration, StopAsyncIteration):
                    pass
            elif root == "gen_thrown_out":
                def g2():
                    try:
                        yield 1
                    finally:
                        pass
                x = g2()
                next(x)
                try:
                    x.throw(chains.Probe2())
                except chains.Probe2:
                    pass
            elif root == "coro_thrown_out":
                async def f2():
                    await chains.trap()
                x = f2()
                x.send(None)
                try:
                    x.throw(chains.Probe2())
                except chains.Probe2:
                    pass
            else:
                async def a():
                    yield 1
                x = a()
                try:
                    x.aclose().send(None)
                except StopIteration:
                    pass
            st = stackscope.extract(x)
            env, ids = heap_env(x)
            case["_env"] = env
            self._oracle = None
            if st.frames or st.leaf is not None or st.root is not x or st.error is not None:
                self._oracle = f"exhausted {root}: frames={len(st.frames)} leaf={st.leaf!r} root-is-x={st.root is x} error={st.error!r}"
            return show(st, ids)
        ch = chains.build(case)
        try:
            # advance to the requested suspension point
            for _ in range(case.get("step", 0)):
                try:
                    ch.driver.send(None)
                except (StopIteration, StopAsyncIteration, chains.Probe2):
                    break          # (the thrown-into generator re-raises what was thrown once its cleanup is done)
            static_exit = "with_static_exit" in case.get("links", [])
            import contextlib as _cl
            import io as _io
            import warnings as _w

            from stackscope._lowlevel import InspectionWarning

            import sys as _sys
            if "tblimit" in case:
                # a process-wide setting that limits how tracebacks are *printed*; the path an exception takes does not depend on it
                _sys.tracebacklimit = case["tblimit"]
            try:
                with _w.catch_warnings(), _cl.redirect_stderr(_io.StringIO()):
                    if static_exit:
                        # half of these chains are extracted by an application that runs with InspectionWarning as an error
                        _w.simplefilter("error" if len(case["links"]) % 2 else "ignore", InspectionWarning)
                    st = stackscope.extract(ch.x)
                st_nc = stackscope.extract(ch.x, with_contexts=False)
            finally:
                if "tblimit" in case:
                    del _sys.tracebacklimit
            env, ids = heap_env(ch.x)
            case["_env"] = env
            out = show(st, ids)
            dropped_self = "with_del_self" in case.get("links", []) or static_exit
            if dropped_self:
                # with contexts on, the one thing that cannot be determined (the exiting manager whose __aexit__ deleted its
                # `self`) is reported as a contained KeyError; everything else must be as without contexts
                out = show(st_nc, ids)
            # ---- oracle -----------------------------------------------------------------------
            prob = None
            if st.root is not ch.x:
                prob = "root is not x"
            elif [f.pyframe for f in st.frames] != [f.pyframe for f in st_nc.frames] or \
                    [f.lineno for f in st.frames] != [f.lineno for f in st_nc.frames]:
                prob = "with_contexts on/off give different frames"
            elif st.error is not None and not (dropped_self and all(isinstance(e, (KeyError, InspectionWarning)) for e in getattr(st.error, "exceptions", [st.error]))):
                prob = f"error {st.error!r}"
            elif st_nc.error is not None:
                prob = f"error without contexts {st_nc.error!r}"
            frames = [(f.pyframe, f.lineno) for f in st.frames]
            leaf = st.leaf
            finished = chains.frame_of(ch.x) is None
            aw_end = self._terminal(ch) if not finished else None     # before the probe destroys the chain
            if prob is None and not finished:
                tp = chains.throw_path(ch)
                if tp is not None:
                    if [a for a, _ in tp] != [a for a, _ in frames]:
                        prob = ("frames are not the frames an exception thrown into x unwinds through: extract "
                                f"{[f.f_code.co_name for f, _ in frames]} vs traceback {[f.f_code.co_name for f, _ in tp]}")
                    elif [b for _, b in tp] != [b for _, b in frames]:
                        prob = f"line numbers differ from the traceback: {[b for _, b in frames]} vs {[b for _, b in tp]}"
            if prob is None and not finished:
                if aw_end is None and leaf is not None:
                    prob = f"leaf should be None (frames tell the whole story) but is {leaf!r}"
                elif aw_end is not None and leaf is not aw_end:
                    prob = f"leaf should be the non-frame object ending the chain, got {leaf!r}"
            self._oracle = prob
            return out
        finally:
            chains.close(ch)

    @staticmethod
    def _terminal(ch):
        """Follow the interpreter's own links from x to the object that ends the chain (None if a frame does)."""
        o = ch.x
        seen = 0
        while seen < 20000:
            seen += 1
            if isinstance(o, GENLIKE):
                nxt = chains.awaited_of(o)
                if nxt is None:
                    return None
                o = nxt
                continue
            tn = type(o).__name__
            if tn in ("coroutine_wrapper", "async_generator_asend", "async_generator_athrow"):
                ref = [r for r in gc.get_referents(o) if isinstance(r, GENLIKE)]
                if not ref:
                    return o
                o = ref[0]
                continue
            if tn == "anext_awaitable":
                ref = gc.get_referents(o)
                if not ref:
                    return o
                o = ref[0]
                continue
            return o
        return None

    def model_line(self, case):
        env = case.get("_env")
        if env is None:
            return None
        d = dict(env)
        d["p"] = "C03"
        return json.dumps(d)

    def canon(self, case, real):
        return real

    def oracle(self, case, real):
        return self._oracle_for.get(id(case)) if hasattr(self, "_oracle_for") else None

    def nontrivial_key(self, case, real):
        if case["k"] == "chain" and case["links"]:
            return json.dumps({k: v for k, v in case.items() if k != "_env"}, sort_keys=True)
        return None

    def stats(self, cases, reals):
        d: Dict[str, Any] = {"chains": 0, "max_depth": 0, "by_link": {}, "by_root": {}, "by_end": {}, "later_points": 0}
        for c in cases:
            if c["k"] != "chain":
                continue
            d["chains"] += 1
            d["max_depth"] = max(d["max_depth"], len(c["links"]))
            d["by_root"][c["root"]] = d["by_root"].get(c["root"], 0) + 1
            d["by_end"][c["end"]] = d["by_end"].get(c["end"], 0) + 1
            d["later_points"] += c.get("step", 0) > 0
            for l in c["links"]:
                d["by_link"][l] = d["by_link"].get(l, 0) + 1
        return d


# the oracle verdict is computed inside run_real (it needs the live chain); remember it per case object
_orig_run_real = C03.run_real


def _run_real(self, case):
    if not hasattr(self, "_oracle_for"):
        self._oracle_for = {}
    self._oracle = None
    r = _orig_run_real(self, case)
    self._oracle_for[id(case)] = self._oracle
    return r


C03.run_real = _run_real  # type: ignore[assignment]

CHECK = C03()
