"""C01 — contexts of a suspended frame are exactly the entered-but-not-exited managers.

Generated programs (harness/progs.py) are run as generators, coroutines and async generators under recorded
choice lists; at every suspension point the real analysis (Frame.contexts through extract, and
lowlevel.contexts_active_in_frame directly) is compared with the event log of the instrumented managers,
and no InspectionWarning may be emitted.  The Lean leg: the exception table of every program's code
object is decoded by the model (`SS.ExcTable.parseTable`) and the handler walk (`walk`) is compared with
`inspect_frame(...).blocks` at every suspension point.
"""
from __future__ import annotations

import json
import sys
import os
import random
import warnings
from typing import Any, Dict, List, Optional

from .. import progs
from ..core import PropCheck


def observe_suspended(w: progs.World, problems: List[str], records: List[dict], mode: str = "trickery"):
    from stackscope._lowlevel import InspectionWarning as _IW

    import stackscope
    from stackscope import lowlevel

    truth = w.truth()
    ids = {id(m): k for k, m in w.mgrs.items()}
    import contextlib
    import io

    with warnings.catch_warnings(record=True) as caught, contextlib.redirect_stderr(io.StringIO()):
        warnings.simplefilter("always")
        st = stackscope.extract(w.target)
        direct = lowlevel.contexts_active_in_frame(w.frame, w.target)
    fr = [f for f in st.frames if f.pyframe is w.frame]
    if not fr:
        problems.append("the program's frame is not in the extracted stack")
        return
    ctxs = fr[0].contexts
    got = [(ids.get(id(c.obj), "?" if c.obj is not None else None), c.is_async, c.is_exiting) for c in ctxs]
    want = [(mid, type(w.mgrs[mid]).__name__.endswith("AMgr"), ex) for mid, ex in truth]
    ws = [str(x.message)[:160] for x in caught if issubclass(x.category, _IW)]
    try:
        blocks = [[b.handler, b.level] for b in lowlevel.inspect_frame(w.frame).blocks]
    except Exception as e:
        blocks = None
        problems.append(f"inspect_frame raised {type(e).__name__}: {e}")
    rec = {"lasti": w.frame.f_lasti, "got": got, "want": want, "warnings": ws, "blocks": blocks}
    records.append(rec)
    # metadata: the `as` target recorded by the generated source (None when the item has none) — also for an exiting context
    if not ws:
        tof = getattr(w, "target_of", {})
        for c in ctxs:
            if c.obj is not None and id(c.obj) in tof and type(c.obj).__name__ in ("Mgr", "AMgr") and c.varname != tof[id(c.obj)]:
                problems.append(f"at f_lasti={w.frame.f_lasti}: varname {c.varname!r} for manager "
                                f"{ids.get(id(c.obj))} (exiting={c.is_exiting}), the source says {tof[id(c.obj)]!r}")
    if mode == "trickery":
        if got != want:
            problems.append(f"at f_lasti={w.frame.f_lasti}: contexts {got} but the managers entered and not exited are {want}")
        dgot = [(ids.get(id(c.obj), None), c.is_async, c.is_exiting) for c in direct]
        dwant = [(None if ex else mid, a, ex) for mid, a, ex in want]
        if dgot != dwant:
            problems.append(f"at f_lasti={w.frame.f_lasti}: contexts_active_in_frame gave {dgot}, expected {dwant}")
        if ws:
            problems.append(f"InspectionWarning at f_lasti={w.frame.f_lasti}: {ws[0]}")


class C01(PropCheck):
    pid = "C01"
    real_time_limit = 60.0
    rule = ("random programs of nesting depth <= 3 (quick) / <= 4 (thorough) over with / async with (1-3 items, various `as` targets), "
            "try/except/else/finally, for/while(+else), if, match, return of constant / value, break, continue, raise, swallowed "
            "exceptions; as generator, coroutine and async generator; 3 (quick) / 8 (thorough) choice lists each; every suspension "
            "point observed; non-trivial = some manager active at some observation; distinct = (program, choices)")
    manifest = {
        "text": "Lean (SSModel/Localsplus.lean): C01_nlocalsplus_source (the slot-count expression of inspect_frame, re-read from the source on every run), C01_nlocalsplus_layout (that expression is CPython's layout -- one slot per local, one per cell that is not also a local, one per free variable -- for duplicate-free co_varnames / co_cellvars) and C01_nlocalsplus_rewrites_wrong (two plausible rewrites differ from it on shapes 3.12 produces); tied to CPython by comparing the model's count with the number of slots the interpreter itself reports (code._varname_from_oparg) on every code object of the corpus and of a slice of the standard library. Lean (M-A, SSModel/ExcTable.lean): C01_varint_roundtrip / C01_varint_msb / C01_table_roundtrip (the decoder of co_exceptiontable inverts the assembler's encoding for every entry list and any sizes), C01_truncated_tail, C01_cpython_encoder (CPython's five-case assembler routine is that encoder below 2^30), C01_bisect_partition (the standard library's binary search, transcribed, finds the partition point on sorted disjoint tables), C01_walk_chain (on a table with sorted, disjoint ranges inspect_frame's bisect walk is the same function as iterating the interpreter's own handler lookup from each handler's target: same blocks, same order), C01_walk_terminates (when handlers lie after the ranges they protect the loop ends within |table|+1 iterations) and C01_walk_cycle (a handler inside its own range makes the unguarded loop spin), C01_join_exact (the context list is one entry per with-handler of the chain, in chain order, exiting one last) and C01_join_fails_closed (a missing slot or a slot without __self__ fails the whole analysis: never a shorter or shifted list). Tie: every program's real co_exceptiontable bytes go through the model's decoder, re-encoder, walk at every observed f_lasti, and are compared with _parse_exception_table and inspect_frame(...).blocks; sortedness/disjointness (the theorems' hypothesis) is checked on every table. That CPython's compiler only emits code on which this chain equals the set of entered-not-exited managers is NOT proved: it is measured on every run by executing generated programs under recorded choices and comparing with instrumented managers' event logs at every suspension point.",
        "note": "Partial: the compiler-output half of the property is measured, not proved; bisect.bisect_left is transcribed as a fuel-bounded binary search; CPython 3.12 only. F2 (with bodies ending in try/except, try/finally or a conditional return, being exited) was repaired in /repo; its witness still runs on every check.",
    }
    assumptions = ["co_exceptiontable format and the ceval handler lookup as in CPython 3.11/3.12", "the ctypes layout of _PyInterpreterFrame (checked by the module's own import-time asserts)"]

    def setup(self):
        from ..core import load_known

        self.f2_known = any(k["id"] == "F2" and k.get("status") == "known" and k.get("property") == "C01" for k in load_known())

    def cases(self, rng, tier):
        out = []
        n = 220 if tier == "quick" else 2500
        dmax = 3 if tier == "quick" else 4
        reps = 3 if tier == "quick" else 8
        for _ in range(n):
            kind = rng.choice(["gen", "coro", "agen"])
            seed = rng.randrange(1 << 30)
            depth = rng.randint(1, dmax)
            for _ in range(reps):
                out.append({"k": "prog", "kind": kind, "pseed": seed, "depth": depth,
                            "choices": [rng.randrange(6) for _ in range(rng.randint(0, 14))]})
        # the same under `python -O` (asserts compiled out: the analysis must not depend on an assert statement for its effects)
        out.append({"k": "optimized", "n": 25 if tier == "quick" else 150, "oseed": rng.randrange(1 << 30)})
        # where the value stack starts: the slot count used by inspect_frame (tied to the source through the generated constant
        # nlocalsplusExpr) against CPython's own layout, on every code object of the corpus and of a slice of the standard library
        from .c08 import stdlib_files

        files = stdlib_files()
        rng.shuffle(files)
        out.append({"k": "slots", "files": [], "corpus": True})
        step = 25
        for i in range(0, 100 if tier == "quick" else len(files), step):
            out.append({"k": "slots", "files": files[i:i + step]})
        for ci, (kind, _src) in enumerate(progs.CORPUS):
            if kind != "sync":
                for ch in ([], [1], [0, 1], [1, 0, 1], [0, 0, 1, 1], [1, 1, 0, 1, 0], [0, 1, 1, 0, 1, 1]):
                    out.append({"k": "prog", "kind": kind, "corpus": ci, "pseed": 0, "depth": 0, "choices": ch})
        return out

    def known_witnesses(self):
        return [{"id": "F2", "case": {"k": "f2"}}, {"id": "F12", "case": {"k": "f12"}}]

    def run_slots(self, case):
        import types

        from ..translate_consts import extract as _extract_consts
        from ..core import REPO
        from stackscope import _lowlevel_cpython_311 as impl

        if not hasattr(self, "_slot_expr"):
            self._slot_expr = _extract_consts(REPO)[0].get("nlocalsplusExpr")
        codes = []

        def walk(co):
            codes.append(co)
            for c in co.co_consts:
                if isinstance(c, types.CodeType):
                    walk(c)

        if case.get("corpus"):
            for kind, src in progs.CORPUS + progs.CORPUS_ODD:
                walk(compile(src, "<corpus>", "exec"))
        for f in case["files"]:
            try:
                walk(compile(open(f, "rb").read(), f, "exec"))
            except (SyntaxError, ValueError, OSError):
                pass
        reals = []
        bad = 0
        for co in codes:
            n = 0
            while True:
                try:
                    co._varname_from_oparg(n)
                    n += 1
                except IndexError:
                    break
            reals.append(n)
            # what the library's own expression gives on this code object, evaluated in the library module's namespace
            try:
                lib = eval(self._slot_expr, dict(vars(impl)), {"co": co}) if self._slot_expr else None
            except Exception:
                lib = None
            if lib is not None and lib != n and bad < 3:
                bad += 1
                self._probs.append(f"code object {co.co_name!r} of {co.co_filename}:{co.co_firstlineno} has {n} localsplus slots (varnames "
                                   f"{co.co_varnames}, cellvars {co.co_cellvars}, freevars {co.co_freevars}); the expression inspect_frame "
                                   f"uses ({self._slot_expr}) gives {lib}: the value stack would be read {lib - n:+d} slots off")
        case["_codes"] = [[list(co.co_varnames), list(co.co_cellvars), list(co.co_freevars)] for co in codes]
        case["_shared"] = sum(bool(set(co.co_varnames) & (set(co.co_cellvars) | set(co.co_freevars))) for co in codes)
        return " ".join(map(str, reals))

    def run_optimized(self, case):
        import subprocess

        from ..core import REPO, VERIF

        code = ("import sys, json, random\n"
                "assert_on = False\n"
                "try:\n    assert False\nexcept AssertionError:\n    assert_on = True\n"
                "from harness import progs\nfrom harness.props.c01 import observe_suspended\n"
                "n, seed = int(sys.argv[1]), int(sys.argv[2])\nrng = random.Random(seed)\nprobs, obs = [], 0\n"
                "jobs = [(k, s, [1, 0, 1, 1, 0, 1]) for k, s in progs.CORPUS if k != 'sync']\n"
                "for _ in range(n):\n    k = rng.choice(['gen', 'coro', 'agen'])\n"
                "    jobs.append((k, progs.gen_program(random.Random(rng.randrange(1 << 30)), k, rng.randint(1, 3)), [rng.randrange(6) for _ in range(10)]))\n"
                "for k, src, ch in jobs:\n    recs = []\n    p = []\n"
                "    progs.run_program(src, k, ch, lambda w, label: observe_suspended(w, p, recs) if label == 'suspended' else None)\n"
                "    obs += len(recs)\n    probs += [x for x in p if 'exception table entry' not in x][:2]\n"
                "print(json.dumps({'asserts_enabled': assert_on, 'observations': obs, 'problems': probs[:6]}))\n")
        env = dict(os.environ, PYTHONPATH=f"{REPO}:{VERIF}")
        p = subprocess.run([sys.executable, "-O", "-c", code, str(case["n"]), str(case["oseed"])], capture_output=True, text=True, env=env, timeout=600)
        try:
            d = json.loads(p.stdout.strip().splitlines()[-1])
        except Exception:
            raise RuntimeError(f"-O worker failed: rc={p.returncode} {p.stderr[-400:]}")
        if d["asserts_enabled"]:
            raise RuntimeError("-O worker ran with asserts enabled")
        self._probs = [f"under python -O: {x}" for x in d["problems"]]
        case["_obs"] = d["observations"]
        return f"observations={d['observations']} problems={len(d['problems'])}"

    def run_real(self, case):
        self._probs = []
        if case["k"] == "optimized":
            return self.run_optimized(case)
        if case["k"] == "slots":
            return self.run_slots(case)
        if case["k"] == "f2":
            return self.run_f2()
        if case["k"] == "f12":
            return self.run_f12()
        src = progs.CORPUS[case["corpus"]][1] if "corpus" in case else progs.gen_program(random.Random(case["pseed"]), case["kind"], case["depth"])
        case["_src"] = src
        probs: List[str] = []
        recs: List[dict] = []
        w = progs.run_program(src, case["kind"], case["choices"], lambda w, label: observe_suspended(w, probs, recs) if label == "suspended" else None)
        self._probs = probs
        self._recs = recs
        case["_obs"] = len(recs)
        if w is not None and getattr(w, "frame", None) is not None:
            case["_facts"] = progs.table_facts(w.frame.f_code)
            seen = {}
            for r in recs:
                if r["blocks"] is not None:
                    seen.setdefault(r["lasti"], r["blocks"])
            case["_points"] = [(l, False, bl, None) for l, bl in sorted(seen.items())]
            if not case["_facts"]["disjoint"]:
                probs.append("the code object's exception table is not sorted / disjoint: the hypothesis of C01_walk_chain is not met")
        return json.dumps([[r["lasti"], r["got"]] for r in recs])

    def run_f12(self):
        import stackscope

        async def helper(tag):
            await progs.trap()
            return False

        class Mgr:
            async def __aenter__(self):
                return self

            def __aexit__(self, *exc):
                return helper("notself")

        async def prog():
            async with Mgr():
                pass

        c = prog()
        c.send(None)
        try:
            st = stackscope.extract(c)
            ctx = st.frames[0].contexts
            if ctx and ctx[-1].is_exiting and not isinstance(ctx[-1].obj, Mgr):
                self._probs.append(f"F12: the exiting context's obj is {ctx[-1].obj!r}, not the manager")
            return repr([(type(x.obj).__name__, x.is_exiting) for x in ctx])
        finally:
            c.close()

    def run_f2(self):
        src = ("async def prog(W, ns, d):\n    async with W.AM():\n        try:\n            pad = 1\n        except Boom:\n            pad = 2\n")
        probs: List[str] = []
        recs: List[dict] = []
        progs.run_program(src, "coro", [0, 1, 0], lambda w, label: observe_suspended(w, probs, recs) if label == "suspended" else None)
        self._probs = probs
        self._recs = recs
        return json.dumps([[r["lasti"], r["got"], r["warnings"]] for r in recs])

    def model_line(self, case):
        if case.get("k") == "slots":
            return json.dumps({"p": "C01", "k": "nlocalsplus", "codes": case["_codes"]})
        if "_facts" not in case:
            return None
        return progs.table_model_line(case["_facts"], [(l, r) for l, r, _, _ in case["_points"]])

    def canon(self, case, real):
        if "_facts" not in case:
            return real
        return progs.table_expected(case["_facts"], case["_points"])

    def is_f2(self, p: str) -> bool:
        return ("couldn't find an exception table entry" in p or ("Inspection trickery failed" in p and "KeyError" in p))

    def oracle(self, case, real):
        probs = self._all.get(id(case)) or []
        if case.get("k") == "f2":
            f2 = [p for p in probs if self.is_f2(p)]
            return f2[0] if f2 else None
        if case.get("k") == "f12":
            return probs[0] if probs else None
        if case.get("k") in ("slots", "optimized"):
            return "; ".join(probs[:2])[:900] if probs else None
        if self.f2_known:
            # an observation point at which the F2 warning fired is degraded as a whole (fallback analysis)
            if any(self.is_f2(p) for p in probs):
                bad_lasti = {p.split("f_lasti=")[1].split(":")[0] for p in probs if self.is_f2(p) and "f_lasti=" in p}
                probs = [p for p in probs if not any(f"f_lasti={b}:" in p for b in bad_lasti)]
        return "; ".join(probs[:2])[:900] if probs else None

    def nontrivial_key(self, case, real):
        if case.get("k") == "slots":
            return json.dumps({"files": case["files"][:3], "corpus": case.get("corpus", False)}) if case.get("_shared") else None
        if isinstance(real, str) and "true" in real or (isinstance(real, str) and "[[" in real and "]]" in real and real.count("[") > 3):
            return json.dumps({k: v for k, v in case.items() if not k.startswith("_")}, sort_keys=True)
        return None

    def stats(self, cases, reals):
        d = {"programs": len({(c.get("pseed"), c.get("kind")) for c in cases}), "runs": len(cases), "observations": 0, "by_kind": {},
             "tables_compared": sum("_facts" in c for c in cases), "table_entries": sum(len(c["_facts"]["views"]) for c in cases if "_facts" in c),
             "tables_not_forward": sum(not c["_facts"]["forward"] for c in cases if "_facts" in c),
             "walks_compared": sum(len(c.get("_points", [])) for c in cases)}
        d["code_objects_slot_count_compared"] = sum(len(c.get("_codes", [])) for c in cases)
        d["code_objects_with_a_name_in_two_tables"] = sum(c.get("_shared", 0) for c in cases)
        for c in cases:
            if c.get("k") == "slots":
                continue
            d["observations"] += c.get("_obs", 0)
            d["by_kind"][c.get("kind", "?")] = d["by_kind"].get(c.get("kind", "?"), 0) + 1
        return d


_orig = C01.run_real


def _run(self, case):
    if not hasattr(self, "_all"):
        self._all = {}
    r = _orig(self, case)
    self._all[id(case)] = list(self._probs)
    return r


C01.run_real = _run  # type: ignore[assignment]
CHECK = C01()
