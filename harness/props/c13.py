"""C13 — extraction options are scoped to their call tree and thread; stubs honoured.

Correspondence: generated call trees (what hooks do during an extraction) are executed against the
real stackscope through the public API only, and the hook-visible observations are compared with the
Lean model `SS.Options.evalCall`.  Threads: 2–4 real threads run trees under a forced interleaving
(a global schedule decides which thread performs its next hook action).
"""
from __future__ import annotations

import itertools
import json
import random
import threading
from typing import Any, List, Optional

from ..core import PropCheck

B = (True, False)


def gen_acts(rng: random.Random, depth: int, width: int) -> list:
    n = rng.randint(0, width)
    return [gen_call(rng, depth) for _ in range(n)]


def gen_hooks(rng: random.Random, depth: int, width: int) -> list:
    return [gen_acts(rng, depth, width) for _ in range(rng.randint(0, 2 if depth > 1 else 3))]


def gen_call(rng: random.Random, depth: int):
    if depth <= 0:
        return rng.choice(["observe", "observe", "raise", ["child", True, []], ["child", False, []]])
    k = rng.random()
    if k < 0.25:
        return "observe"
    if k < 0.32:
        return "raise"
    if k < 0.55:
        return ["extract", rng.choice(B), rng.choice(B), gen_hooks(rng, depth - 1, 3)]
    if k < 0.65:
        return ["outermost", rng.choice(B), rng.choice(B), gen_hooks(rng, depth - 1, 3), rng.choice(B)]
    if k < 0.85:
        return ["child", rng.choice(B), gen_hooks(rng, depth - 1, 3)]
    return ["fill", gen_acts(rng, depth - 1, 3)]


VIAS = ["since", "slice", "until_frame", "until_int"]


def gen_safe_call(rng: random.Random, depth: int):
    """An action that lets no exception out of the hook it runs in (used for the convenience spellings, whose hooks
    are elaborate_frame hooks of real frames: there a raising hook prunes the inward frames, which Root-based trees do not)."""
    k = rng.random()
    if depth <= 0 or k < 0.3:
        return "observe"
    if k < 0.6:
        t = ["extract", rng.choice(B), rng.choice(B), gen_hooks(rng, depth - 1, 2)]
        return t
    if k < 0.75:
        return ["extract", rng.choice(B), rng.choice(B), [[gen_safe_call(rng, depth - 1) for _ in range(rng.randint(1, 2))]
                                                            for _ in range(rng.randint(1, 2))], rng.choice(VIAS)]
    if k < 0.9:
        return ["child", rng.choice(B), gen_hooks(rng, depth - 1, 2)]
    return ["fill", ["observe"]]


def gen_spelled(rng: random.Random, depth: int):
    hooks = [[gen_safe_call(rng, depth - 1) for _ in range(rng.randint(1, 3))] for _ in range(rng.randint(1, 3))]
    return ["extract", rng.choice(B), rng.choice(B), hooks, rng.choice(VIAS)]


def strip_via(t):
    """The same tree with every spelled extract written as a plain one (what the model and the reference are given)."""
    if isinstance(t, list):
        if any(x == "spawn" for x in t):
            t = [x for x in t if x != "spawn"]
        if t and t[0] == "childsame":
            return ["child", t[1], [[strip_via(x) for x in h if x != "spawn"] for h in t[2]]]
        if t and t[0] == "extract":
            return ["extract", t[1], t[2], [[strip_via(x) for x in h if x != "spawn"] for h in t[3]]]
        return [strip_via(x) for x in t]
    return t


def gen_call_abort(rng: random.Random, depth: int):
    """Trees that also contain `abort` (a BaseException that hooks do not contain: it unwinds through every enclosing
    extraction) and `["catch", acts]` (a hook body that catches it and carries on)."""
    if depth <= 0:
        return rng.choice(["observe", "observe", "abort", "raise", ["child", True, []]])
    k = rng.random()
    if k < 0.2:
        return "observe"
    if k < 0.3:
        return "abort"
    if k < 0.5:
        inner = [gen_call_abort(rng, depth - 1) for _ in range(rng.randint(1, 3))]
        return ["catch", inner]
    if k < 0.8:
        hooks = [[gen_call_abort(rng, depth - 1) for _ in range(rng.randint(1, 3))] + ["observe"] for _ in range(rng.randint(1, 2))]
        return ["extract", rng.choice(B), rng.choice(B), hooks]
    if k < 0.9:
        hooks = [[gen_call_abort(rng, depth - 1), "observe"]]
        return ["child", rng.choice(B), hooks]
    return ["fill", [gen_call_abort(rng, depth - 1), "observe"]]


def has_abort(tree) -> bool:
    return "abort" in json.dumps(tree) or "catch" in json.dumps(tree)


def has_gcm(tree) -> bool:
    return '"gcm"' in json.dumps(tree)


def exhaustive_small() -> List[Any]:
    """All trees: top-level call with one hook holding [inner-call, observe], inner over all options."""
    out = []
    tops = [["extract", a, b] for a in B for b in B] + [["outermost", a, b] for a in B for b in B]
    inners: List[Any] = ["observe", "raise"]
    inners += [["extract", a, b, [["observe", "raise", "observe"], ["observe"]]] for a in B for b in B]
    inners += [["outermost", a, b, [["observe"]], nf] for a in B for b in B for nf in B]
    inners += [["child", ft, [["observe", ["child", True, [["observe"]]]]]] for ft in B]
    inners += [["fill", ["observe", r, "observe"]] for r in ("observe", "raise")]
    for t in tops:
        for i in inners:
            hooks = [[i, "observe"], ["observe"]]
            tree = t + [hooks] + ([False] if t[0] == "outermost" else [])
            out.append(tree)
    # top-level calls made outside any extraction
    out += [["child", ft, [["observe"]]] for ft in B]
    out += [["fill", ["observe", i, "observe"]] for i in inners]
    out += ["observe"]
    return out


class Probe:
    """Everything needed to observe the options through the public API."""

    def __init__(self):
        import stackscope
        from stackscope import _extract

        self.ss = stackscope
        self.ex = _extract
        outer = self

        class Root:  # a stack item whose unwrapping runs the hooks of one extraction
            def __init__(self, hooks, with_frame=True):
                self.hooks = hooks
                self.with_frame = with_frame

        class HookItem:
            def __init__(self, acts):
                self.acts = acts

        class Mgr:  # a context manager whose elaborate_context hook performs `acts`
            def __init__(self, acts):
                self.acts = acts

            def __enter__(self):
                return self

            def __exit__(self, *a):
                return False

        class ProbeItem:  # unwraps to a suspended generator that is inside a `with`
            pass

        class HookError(Exception):
            pass

        class Cancel(BaseException):     # what KeyboardInterrupt / a Cancelled-style exception looks like to the library
            pass

        self.Cancel = Cancel

        self.Root, self.HookItem, self.Mgr, self.ProbeItem, self.HookError = Root, HookItem, Mgr, ProbeItem, HookError

        @contextlib_cm
        def cm():
            yield

        def probe_gen():
            with cm():
                yield

        self.pg = probe_gen()
        next(self.pg)

        def frame_gen():
            yield

        self.fg = frame_gen()
        next(self.fg)

        class SharedRoot(Root):
            def __init__(self):
                self.with_frame = True

            @property
            def hooks(self):
                return getattr(outer.tls, "shared_hooks", [])

        self.SharedRoot = SharedRoot

        @stackscope.unwrap_stackitem.register(Root)
        def unwrap_root(r):
            items = [HookItem(a) for a in r.hooks]
            return ([outer.fg] if r.with_frame else []) + items

        @stackscope.unwrap_stackitem.register(HookItem)
        def unwrap_hookitem(h):
            outer.run_acts(h.acts)
            return None

        @stackscope.unwrap_stackitem.register(ProbeItem)
        def unwrap_probe(p):
            return outer.pg

        @stackscope.elaborate_context.register(Mgr)
        def elab_mgr(m, ctx):
            outer.run_acts(m.acts)

        @stackscope.elaborate_frame.register(Probe.carrier)
        def elab_carrier(frame, next_inner):
            outer.run_acts(frame.pyframe.f_locals["acts"])

        self.tls = threading.local()
        self.shared_root = SharedRoot()
        self.turn = None  # optional callable(threadname) blocking until it is this thread's turn

    # the event log of the calling thread
    @property
    def log(self) -> list:
        if not hasattr(self.tls, "log"):
            self.tls.log = []
        return self.tls.log

    def observe(self) -> str:
        """(with_contexts, recurse_child_tasks) as visible through extract_child only."""
        ss = self.ss
        try:
            st = ss.extract_child(self.ProbeItem(), for_task=True)
        except RuntimeError:
            return "(N,N)"
        rc = not (len(st.frames) == 0 and isinstance(st.root, self.ProbeItem) and st.leaf is None)
        full = ss.extract_child(self.ProbeItem(), for_task=False)
        wc = len(full.frames) == 1 and len(full.frames[0].contexts) == 1
        if not wc:
            assert len(full.frames) == 1 and len(full.frames[0].contexts) == 0, full
        return f"({'T' if wc else 'F'},{'T' if rc else 'F'})"

    def run_acts(self, acts) -> None:
        for a in acts:
            self.run_call(a)

    def run_call(self, a) -> None:
        ss = self.ss
        if self.turn is not None:
            self.turn()
        if a == "observe":
            self.log.append("obs" + self.observe())
            return
        if a == "spawn":
            # a worker thread started from here with a COPY of the current contextvars context (what asyncio.to_thread and
            # trio.to_thread do): it is outside any extraction -- the options belong to the thread that called extract
            import contextvars

            box: List[str] = []
            ctx = contextvars.copy_context()
            t = threading.Thread(target=lambda: ctx.run(lambda: box.append(self.observe())))
            t.start()
            t.join(10)
            self.log.append("spawn" + (box[0] if box else "(?)"))
            return
        if a == "raise":
            raise self.HookError("injected")
        if a == "abort":
            raise self.Cancel()
        tag = a[0]
        if tag == "catch":
            try:
                for x in a[1]:
                    self.run_call(x)
            except self.Cancel:
                self.log.append("caught")
            return
        if tag == "extract" and len(a) > 4:
            st = self.run_spelled(a[4], a[1], a[2], a[3])
            assert isinstance(st, ss.Stack) and st.error is None, st.error
        elif tag == "extract":
            st = ss.extract(self.Root(a[3]), with_contexts=a[1], recurse_child_tasks=a[2])
            assert isinstance(st, ss.Stack)
        elif tag == "outermost":
            ss.extract_outermost(self.Root(a[3], with_frame=not a[4]), with_contexts=a[1], recurse_child_tasks=a[2])
        elif tag in ("child", "childsame"):
            if tag == "childsame":
                # ONE task object for everybody: every thread, and every nesting level, asks about the same object (what its
                # hooks do is per call)
                item = self.shared_root
                self.tls.shared_hooks = a[2]
            else:
                item = self.Root(a[2])
            mark = len(self.log)
            try:
                st = ss.extract_child(item, for_task=a[1])
            except RuntimeError as e:
                if "extract_child() may only be called" in str(e):
                    self.log.append("refused")
                raise
            except self.Cancel:
                self.log.insert(mark, "full")       # the nested extraction did run in full before the BaseException unwound it
                raise
            stub = a[1] and len(st.frames) == 0 and st.root is item and st.leaf is None and st.error is None
            if stub:
                self.log.append("stub")
            else:
                # the nested hooks' events were logged during the call; 'full' precedes them
                self.log.insert(mark, "full")
        elif tag == "gcm":
            # a nested extraction of a frame holding a generator-based manager whose generator body holds a manager with a
            # hook: everything beneath the @contextmanager is reached through the library's own contextlib glue
            acts = a[1]
            Mgr = self.Mgr

            @contextlib_cm
            def g():
                with Mgr(acts):
                    yield

            def holder():
                with g():
                    yield

            hg = holder()
            next(hg)
            mark = len(self.log)
            try:
                try:
                    ss.extract_child(hg, for_task=False)
                except RuntimeError as e:
                    if "extract_child() may only be called" in str(e):
                        self.log.append("refused")
                    raise
                except self.Cancel:
                    self.log.insert(mark, "full")
                    raise
                self.log.insert(mark, "full")
            finally:
                hg.close()
        elif tag == "fill":
            ctx = ss.Context(obj=self.Mgr(a[1]), is_async=False)
            ss.fill_context(ctx)
        else:
            raise ValueError(tag)

    # the convenience spellings: the same extraction asked for through extract_since / extract(StackSlice) / extract_until,
    # over real frames of the calling thread; hook i is the elaborate_frame hook of the i-th `carrier` frame
    def carrier(self, hooks, i, go):
        acts = hooks[i]  # noqa: F841  (read by the elaborate_frame hook registered for this function)
        if i + 1 < len(hooks):
            return self.carrier(hooks, i + 1, go)
        return go()

    def run_spelled(self, via, wc, rc, hooks):
        import sys

        ss = self.ss

        def base():
            f0 = sys._getframe(0)

            def go():
                if via == "since":
                    return ss.extract_since(f0, with_contexts=wc, recurse_child_tasks=rc)
                if via == "slice":
                    return ss.extract(ss.StackSlice(outer=f0), with_contexts=wc, recurse_child_tasks=rc)
                if via == "until_frame":
                    return ss.extract_until(sys._getframe(0), limit=f0, with_contexts=wc, recurse_child_tasks=rc)
                return ss.extract_until(sys._getframe(0), limit=len(hooks) + 2, with_contexts=wc, recurse_child_tasks=rc)

            return self.carrier(hooks, 0, go) if hooks else go()

        return base()

    def run_top(self, tree) -> str:
        self.tls.log = []
        raised = False
        aborted = False
        try:
            self._run_marked(tree)
        except Exception:
            raised = True
        except self.Cancel:
            aborted = True
        cell = self.observe()
        return " ".join(self.log) + f" | raised={'A' if aborted else 'T' if raised else 'F'} cell={cell}"

    def _run_marked(self, a):
        self.run_call(a)


def contextlib_cm(f):
    import contextlib

    return contextlib.contextmanager(f)


def interleavings(lens: List[int], rng: random.Random, cap: int) -> List[List[int]]:
    """Schedules = sequences of thread indices, thread i appearing lens[i] times."""
    total = sum(lens)
    seq = [i for i, n in enumerate(lens) for _ in range(n)]
    allp = None
    # exhaustive when small
    from math import factorial

    count = factorial(total)
    for n in lens:
        count //= factorial(n)
    if count <= cap:
        allp = sorted(set(itertools.permutations(seq)))
        return [list(p) for p in allp]
    out = set()
    while len(out) < cap:
        s = seq[:]
        rng.shuffle(s)
        out.add(tuple(s))
    return [list(p) for p in sorted(out)]


class C13(PropCheck):
    pid = "C13"
    rule = ("call trees (extract -- also spelled extract_since / extract(StackSlice) / extract_until(frame) / extract_until(int) over real frames -- / extract_outermost / extract_child / fill_context / observe / raise, all option pairs) "
            "exhaustive over a small family plus random trees of depth<=4; 2-4 real threads under forced "
            "interleavings of their hook actions; non-trivial = the tree contains a nested API call or a raise; "
            "distinct = distinct tree (and schedule)")
    manifest = {
        "text": "Lean: C13_push_sites (read off the source on every run: extract and extract_outermost hand both options to push unchanged, fill_context pushes (True, False), push restores in a finally around its yield), C13_options_thread_local (the options object is a threading.local with one module-level instance: re-read from the source), C13_wrapper_sites (likewise read off the source: every extract(...) call inside extract_since and extract_until hands on both of its own option arguments), C13_gcm_keeps_options (beneath a generator-based manager the options are still the enclosing extraction's), C13_abort_unwinds / C13_restore_also_on_abort / C13_catch_sees_outer (a BaseException raised by a hook is not contained by the extraction, unwinds through every enclosing one, and every push still restores: a hook that catches it sees the outer options again). Lean theorems over a call-tree model of ExtractOptions.push / extract / extract_outermost / extract_child / fill_context: C13_restore (every call, at any nesting depth and also when it ends in an exception, leaves the thread's options as it found them), C13_observed (every hook observation equals the options of the innermost enclosing extraction), C13_child_guard, C13_stub*, C13_fill_*, and C13_threads (frame rule: under every interleaving of any number of threads each thread's option cell and read history equal its solo run). The model is tied to /repo by executing generated call trees and forced thread interleavings against the real API and diffing hook-visible observations with the model's.",
        "note": "Theorems are about the model; agreement model<->code is measured on generated trees (exhaustive small family + random, depth<=4) and 2-4 real threads under forced schedules at hook-action granularity. Preemption inside push() itself is covered only by the frame-rule theorem plus CPython's threading.local semantics (assumed).",
    }
    assumptions = [
        "observations are made through extract_child / Frame.contexts only (public API)",
        "thread interleavings are forced at hook-action granularity; finer preemption (inside push()) is covered by the frame-rule theorem C13_threads, not by execution",
    ]

    def setup(self):
        self.probe = Probe()

    def cases(self, rng, tier):
        out = [{"k": "tree", "tree": t} for t in exhaustive_small()]
        n = 150 if tier == "quick" else 1500
        for _ in range(n):
            out.append({"k": "tree", "tree": gen_call(rng, rng.randint(1, 4))})
        # BaseExceptions (KeyboardInterrupt-like) raised by hooks: not contained by extract, options still restored on the way out
        for a, b in itertools.product(B, B):
            out.append({"k": "tree", "tree": ["extract", a, b, [[["catch", [["extract", not a, not b, [["observe", "abort"]]]]], "observe",
                                                                ["child", True, [["observe"]]]]]]})
        for _ in range(n // 3):
            out.append({"k": "tree", "tree": ["extract", rng.choice(B), rng.choice(B), [[gen_call_abort(rng, rng.randint(1, 3)), "observe"]]]})
        # beneath a generator-based manager the options are still the enclosing extraction's
        for a, b in itertools.product(B, B):
            out.append({"k": "tree", "tree": ["extract", a, b, [[["gcm", ["observe", ["child", True, [["observe"]]]]], "observe"]]]})
            out.append({"k": "tree", "tree": ["extract", a, b, [[["gcm", [["fill", ["observe"]], ["gcm", ["observe"]]]]]]]})
        # the convenience spellings (extract_since, extract(StackSlice), extract_until with a frame / an int limit) hand both
        # options on: the same tree asked for through each of them behaves as the plain extract does
        for a, b in itertools.product(B, B):
            for via in VIAS:
                out.append({"k": "tree", "tree": ["extract", a, b, [["observe", ["child", True, [["observe"]]], ["child", False, [["observe"]]]]], via]})
                out.append({"k": "tree", "tree": ["extract", not a, b, [[["extract", a, not b, [["observe"]], via], "observe"]]]})
        for _ in range(n // 3):
            out.append({"k": "tree", "tree": gen_spelled(rng, rng.randint(1, 3))})
        # threads started from hooks under copy_context().run: outside any extraction
        for a, b in itertools.product(B, B):
            out.append({"k": "tree", "tree": ["extract", a, b, [["observe", "spawn", ["child", True, [["spawn", "observe"]]]]]]})
            out.append({"k": "tree", "tree": ["extract", a, b, [[["fill", ["spawn", "observe"]], ["extract", not a, not b, [["spawn"]]]]]]})
        # one and the same task object asked about from nested levels and (below) from several threads at once
        for a, b in itertools.product(B, B):
            out.append({"k": "tree", "tree": ["extract", a, True, [[["childsame", True, [[["childsame", True, [["observe"]]], "observe"]]], "observe"]]]})
            out.append({"k": "tree", "tree": ["extract", a, b, [[["childsame", b, [[["extract", True, True, [[["childsame", True, [["observe"]]]]]]]]]]]]})
        # threads
        nthr = 12 if tier == "quick" else 40
        for _ in range(nthr):
            k = rng.randint(2, 4)
            trees = [["extract", rng.choice(B), rng.choice(B), gen_hooks(rng, rng.randint(0, 2), 2)] for _ in range(k)]
            out.append({"k": "threads", "trees": trees, "sched_seed": rng.randrange(1 << 30),
                        "nsched": 6 if tier == "quick" else 10})
        for a in B:
            trees = [["extract", True, True, [[["childsame", True, [["observe", "observe"]]], "observe"]]],
                     ["extract", a, True, [["observe", ["childsame", True, [["observe"]]], "observe"]]]]
            out.append({"k": "threads", "trees": trees, "sched_seed": 2, "nsched": 120 if tier == "thorough" else 40})
        # the two-thread exhaustive family: each thread nests a different option pair
        for a, b in itertools.product(B, B):
            trees = [["extract", a, b, [["observe", ["extract", not a, not b, [["observe"]]], "observe"]]],
                     ["extract", not a, b, [["observe", "observe"]]]]
            out.append({"k": "threads", "trees": trees, "sched_seed": 1, "nsched": 120 if tier == "thorough" else 40})
        return out

    def run_real(self, case):
        p = self.probe
        if case["k"] == "tree":
            p.turn = None
            return p.run_top(case["tree"])
        # threads: first measure each tree's number of scheduling points sequentially
        trees = case["trees"]
        lens = []
        seq_results = []
        for t in trees:
            cnt = [0]

            def turn():
                cnt[0] += 1

            p.turn = turn
            seq_results.append(p.run_top(t))
            lens.append(cnt[0])
        p.turn = None
        rng = random.Random(case["sched_seed"])
        scheds = interleavings(lens, rng, case["nsched"])
        results = set()
        for sched in scheds:
            results.add(self.run_threads(trees, sched))
        self.last_scheds = len(scheds)
        if len(results) == 1:
            return results.pop()
        return "NONDETERMINISTIC: " + " // ".join(sorted(results))

    def run_threads(self, trees, sched) -> str:
        p = self.probe
        cond = threading.Condition()
        pos = [0]
        ident = {}
        done = [False] * len(trees)

        def turn():
            me = ident[threading.get_ident()]
            with cond:
                while True:
                    # skip entries of finished threads
                    while pos[0] < len(sched) and done[sched[pos[0]]]:
                        pos[0] += 1
                    if pos[0] >= len(sched) or sched[pos[0]] == me:
                        break
                    if not cond.wait(timeout=5):
                        raise RuntimeError("schedule stuck")
                pos[0] += 1
                cond.notify_all()

        results = [None] * len(trees)

        def body(i):
            ident[threading.get_ident()] = i
            try:
                results[i] = p.run_top(trees[i])
            except BaseException as e:  # harness problem
                results[i] = f"!thread-crash {type(e).__name__}: {e}"
            finally:
                with cond:
                    done[i] = True
                    cond.notify_all()

        p.turn = turn
        ths = [threading.Thread(target=body, args=(i,)) for i in range(len(trees))]
        for t in ths:
            t.start()
        for t in ths:
            t.join(20)
        p.turn = None
        return " ## ".join(str(r) for r in results)

    def canon(self, case, real):
        if isinstance(real, str) and "spawn(" in real:
            return " ".join(tok for tok in real.split(" ") if not tok.startswith("spawn("))
        return real

    def model_line(self, case):
        d = {"p": "C13", "k": case["k"]}
        if case["k"] == "tree":
            d["tree"] = strip_via(case["tree"])
        else:
            d["trees"] = [strip_via(t) for t in case["trees"]]
        return json.dumps(d)

    # ---- the property, evaluated on the real observations alone ---------------------------
    def oracle(self, case, real) -> Optional[str]:
        if not isinstance(real, str):
            return None
        bad = [tok for tok in real.replace("#", " ").split(" ") if tok.startswith("spawn(") and tok != "spawn(N,N)"]
        if bad:
            return (f"a thread started from a hook with a copy of the caller's contextvars context sees extraction options {bad[0][5:]}: "
                    f"the options belong to the extracting thread, a new thread is outside any extraction")
        real = self.canon(case, real)
        if real.startswith("NONDETERMINISTIC"):
            return "per-thread observations depend on the interleaving: " + real[:300]
        if case["k"] == "threads":
            parts = real.split(" ## ")
            for t, r in zip(case["trees"], parts):
                f = self.oracle_tree(strip_via(t), r)
                if f:
                    return f"thread running {json.dumps(t)[:200]}: {f}"
            return None
        return self.oracle_tree(strip_via(case["tree"]), real)

    def oracle_tree(self, tree, real: str) -> Optional[str]:
        """Reference interpretation of the documented scoping rules, written independently of the
        Lean model: walk the tree with an explicit option stack and predict each observation."""
        exp: List[str] = []

        class Raised(Exception):
            pass

        class Aborted(BaseException):
            pass

        def show(c):
            f = lambda b: "N" if b is None else ("T" if b else "F")
            return f"({f(c[0])},{f(c[1])})"

        def call(a, c):
            if a == "observe":
                exp.append("obs" + show(c))
                return
            if a == "raise":
                raise Raised()
            if a == "abort":
                raise Aborted()
            tag = a[0]
            if tag == "catch":
                try:
                    for x in a[1]:
                        call(x, c)
                except Aborted:
                    exp.append("caught")
                return
            if tag in ("extract", "outermost"):
                new = (a[1], a[2])
                for h in a[3]:
                    try:
                        for x in h:
                            call(x, new)
                    except Raised:
                        pass
                if tag == "outermost" and a[4]:
                    raise Raised()
            elif tag == "child":
                if c[1] is None:
                    exp.append("refused")
                    raise Raised()
                if a[1] and not c[1]:
                    exp.append("stub")
                    return
                exp.append("full")
                for h in a[2]:
                    try:
                        for x in h:
                            call(x, c)
                    except Raised:
                        pass
            elif tag == "gcm":
                if c[1] is None:
                    exp.append("refused")
                    raise Raised()
                exp.append("full")
                if c[0]:          # contexts are only looked at when with_contexts is on
                    try:
                        for x in a[1]:
                            call(x, c)
                    except Raised:
                        pass
            elif tag == "fill":
                new = c if c[0] is not None else (True, False)
                for x in a[1]:
                    call(x, new)

        raised = aborted = False
        try:
            call(tree, (None, None))
        except Raised:
            raised = True
        except Aborted:
            aborted = True
        want = " ".join(exp) + f" | raised={'A' if aborted else 'T' if raised else 'F'} cell=(N,N)"
        if want != real:
            return f"options not scoped as documented: expected [{want}] observed [{real}]"
        return None

    def nontrivial_key(self, case, real):
        s = json.dumps(case, sort_keys=True)
        if '"extract"' in s or '"child"' in s or '"fill"' in s or "raise" in s:
            return s
        return None

    def stats(self, cases, reals):
        d = {"trees": 0, "thread_cases": 0, "with_raise": 0, "nested_extract": 0, "outside_extract_toplevel": 0}
        for c in cases:
            s = json.dumps(c)
            if c["k"] == "tree":
                d["trees"] += 1
                if not (isinstance(c["tree"], list) and c["tree"][0] in ("extract", "outermost")):
                    d["outside_extract_toplevel"] += 1
            else:
                d["thread_cases"] += 1
            d["with_raise"] += "raise" in s
            d["nested_extract"] += s.count('"extract"') > 1
        return d


CHECK = C13()
