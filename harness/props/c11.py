"""C11 — context hooks: elaborate, unwrap, re-elaborate until steady state.

Wrapper chains over synthetic manager types and real generator-based managers whose hooks return
None / the next manager / PRUNE / themselves (cycle) / raise, with elaborate hooks that set description,
children, inner_stack or obj; exiting and non-exiting; fill_context called outside any extract and
inside one.  Compared with the Lean model `SS.Fill.fillContext`; the oracle is a direct reading of the
documented loop.
"""
from __future__ import annotations

import contextlib
import json
import random
from typing import Any, Dict, List, Optional

from ..core import PropCheck
from ..envs import Injected

GUARD = 100


class Lab:
    def __init__(self):
        import stackscope
        from stackscope import _extract

        self.ss, self.ex = stackscope, _extract
        lab = self

        class M:
            def __init__(self, k):
                self.k = k

            def __len__(self):
                # (a pool / collection-like manager that is currently empty: falsy, yet a manager like any other)
                return 0 if lab.table.get(self.k, {}).get("falsy") else 1

            def __enter__(self):
                return self

            def __exit__(self, *a):
                return False

            def __repr__(self):
                return f"M{self.k}"

        self.M = M
        self.table: Dict[int, dict] = {}
        self.objs: Dict[int, Any] = {}
        self.ids: Dict[int, int] = {}
        self.trace: List[str] = []

        @stackscope.elaborate_context.register(M)
        def elab(mgr, ctx):
            lab.apply_elab(lab.table[mgr.k].get("el"), ctx)

        @stackscope.unwrap_context.register(M)
        def unwrap(mgr, ctx):
            return lab.unwrap_result(lab.table[mgr.k].get("uw"))

        self.gcm_fns: Dict[int, Any] = {}

    def apply_elab(self, el, ctx):
        ss = self.ss
        if not el:
            return
        if "raise" in el:
            raise Injected(el["raise"])
        if "inner" in el:
            ctx.inner_stack = ss.Stack(root=("tag", el["inner"]), frames=[])
        if "children" in el:
            ctx.children = [ss.Context(obj=None, is_async=False, description=f"child{t}") for t in el["children"]]
        if "desc" in el:
            ctx.description = f"desc{el['desc']}"
        if "obj" in el:
            ctx.obj = self.obj(el["obj"])

    def unwrap_result(self, uw):
        if uw is None:
            return None
        if uw == "prune":
            return self.ss.PRUNE
        if isinstance(uw, list):
            raise Injected(uw[1])
        return self.obj(uw)

    def gcm_fn(self, k):
        key = (k, bool(self.table.get(k, {}).get("yield_from")), bool(self.table.get(k, {}).get("mk_raises")))
        if key not in self.gcm_fns:
            class Marker:
                def __enter__(s):
                    return s

                def __exit__(s, *a):
                    return False

            mk = Marker()
            if self.table.get(k, {}).get("mk_raises"):
                # the manager inside the generator has a hook of its own that fails: an error is recorded while the generator's
                # frame is being produced; it belongs to that frame's contexts and does not stop the unwrapping of the wrapper
                @self.ss.elaborate_context.register(Marker)
                def _mk_fails(mgr, ctx):
                    raise Injected(8888)
            ns: Dict[str, Any] = {"MK": mk}
            # the generator's own (outermost) frame holds a manager: a hook that looks at frame.contexts — the natural way to
            # find what a wrapper wraps — must see it, exiting or not
            if self.table.get(k, {}).get("yield_from"):
                # the manager's generator is suspended inside a helper it delegates to: inner_stack has two frames
                exec(f"def helper_{k}():\n    yield {k}\ndef gcm_{k}():\n    with MK:\n        yield from helper_{k}()\n", ns)
            else:
                exec(f"def gcm_{k}():\n    with MK:\n        yield {k}\n", ns)
            fn = ns[f"gcm_{k}"]
            lab = self

            def hook(frame, ctx, k=k, mk=mk):
                objs = [c.obj for c in frame.contexts]
                if frame.funcname != f"gcm_{k}" or objs != [mk]:
                    lab.hook_problems.append(f"unwrap_context_generator hook of gcm_{k} (context exiting={ctx.is_exiting}) was handed frame "
                                             f"{frame.funcname} with contexts {objs}; expected the generator's own frame with its one manager")
                # ... and the frame is the one reached THROUGH the manager's generator on both lookup paths (inner_stack.frames[0], or
                # extract_outermost(mgr.gen) while exiting): it names that generator as its origin, which is what lets the frame's
                # exiting contexts be described (their obj is read off the next-inner frame, known only when walking from the generator)
                org = frame.origin
                if org is None or getattr(org, "gi_frame", None) is not frame.pyframe:
                    lab.hook_problems.append(f"unwrap_context_generator hook of gcm_{k} (context exiting={ctx.is_exiting}) was handed a frame whose "
                                             f"origin is {type(org).__name__ if org is not None else None}, not the manager's generator")
                return lab.unwrap_result(lab.table[k].get("uw"))

            self.ss.unwrap_context_generator.register(fn, hook)
            self.gcm_fns[key] = contextlib.contextmanager(fn)
        return self.gcm_fns[key]

    def obj(self, k):
        if k in self.objs:
            return self.objs[k]
        d = self.table.get(k, {"kind": "plain"})
        if d.get("kind") == "gcm":
            o = self.gcm_fn(k)()
            o.__enter__()
        else:
            o = self.M(k)
        self.objs[k] = o
        self.ids[id(o)] = k
        return o

    def load(self, case):
        self.table = {m["id"]: m for m in case["mgrs"]}
        for o in self.objs.values():
            if not isinstance(o, self.M):
                try:
                    o.__exit__(None, None, None)
                except Exception:
                    pass
        self.objs, self.ids = {}, {}
        self.trace = []
        self.hook_problems = []

    def logging(self):
        """Wrap the hook entry points fill_context uses, to record E/U calls."""
        ex, lab = self.ex, self

        class Ctx:
            def __enter__(s):
                s.saved = (ex.elaborate_context, ex.unwrap_context)

                def E(mgr, ctx):
                    if type(mgr).__name__ != "Marker":        # the managers inside the generators are not part of the chain
                        lab.trace.append(f"E{lab.ids.get(id(mgr), '?')}")
                    return s.saved[0](mgr, ctx)

                def U(mgr, ctx):
                    if type(mgr).__name__ != "Marker":
                        lab.trace.append(f"U{lab.ids.get(id(mgr), '?')}")
                    return s.saved[1](mgr, ctx)

                ex.elaborate_context, ex.unwrap_context = E, U

            def __exit__(s, *a):
                ex.elaborate_context, ex.unwrap_context = s.saved

        return Ctx()

    def show(self, ctx, outcome) -> str:
        inner = "-"
        if ctx.inner_stack is not None:
            r = ctx.inner_stack.root
            if isinstance(r, tuple) and r and r[0] == "tag":
                inner = str(r[1])
            else:
                owner = [k for k, o in self.objs.items() if getattr(o, "gen", None) is r]
                inner = str(owner[0]) if owner else "?"
        ch = "[" + ", ".join(c.description[5:] for c in ctx.children) + "]"
        desc = "-"
        if ctx.description is not None:
            if ctx.description.startswith("desc"):
                desc = ctx.description[4:]
            else:
                owner = [key[0] for key in self.gcm_fns if f"gcm_{key[0]}(" in ctx.description]
                desc = str(owner[0]) if owner else "?"
        tr = self.trace
        if len(tr) > 24:
            tr = tr[:12] + [f"..{len(tr)}.."] + tr[-4:]
        return (f"obj={self.ids.get(id(ctx.obj), '?')} hide={'T' if ctx.hide else 'F'} inner={inner} children={ch} "
                f"desc={desc} trace=[{' '.join(tr)}] {outcome}")


def rand_case(rng: random.Random) -> dict:
    n = rng.randint(1, 6)
    mgrs = []
    for i in range(n):
        kind = "gcm" if rng.random() < 0.3 else "plain"
        r = rng.random()
        if r < 0.3:
            uw: Any = None
        elif r < 0.4:
            uw = "prune"
        elif r < 0.47:
            uw = ["raise", rng.randrange(500, 520)]
        elif r < 0.55:
            uw = i                      # self cycle
        elif r < 0.62 and i > 0:
            uw = rng.randrange(0, i)    # longer cycle
        else:
            uw = rng.randrange(n)
        d: Dict[str, Any] = {"id": i, "kind": kind, "uw": uw}
        if kind == "plain" and rng.random() < 0.25:
            d["falsy"] = True
        if kind == "plain":
            el: Dict[str, Any] = {}
            if rng.random() < 0.4:
                el["desc"] = rng.randrange(50)
            if rng.random() < 0.35:
                el["children"] = [rng.randrange(50) for _ in range(rng.randint(0, 2))]
            if rng.random() < 0.3:
                el["inner"] = rng.randrange(50)
            if rng.random() < 0.2:
                el["obj"] = rng.randrange(n, n + 3)     # elaborate replaces obj by a manager outside the chain
            if rng.random() < 0.06:
                el = {"raise": rng.randrange(520, 540)}
            d["el"] = el or None
        else:
            d["el"] = {"inner": i, "desc": i, "gcm": True}
            d["yield_from"] = rng.random() < 0.5
            d["mk_raises"] = rng.random() < 0.3
        mgrs.append(d)
    for j in range(n, n + 3):
        if rng.random() < 0.35:
            # the replacement an elaborate hook installs is itself a generator-based manager with a registered
            # unwrap_context_generator hook: it is unwrapped before its own elaborate hook has run (inner_stack not set yet)
            mgrs.append({"id": j, "kind": "gcm", "uw": rng.choice([None, "prune", rng.randrange(n), rng.randrange(n)]),
                         "el": {"inner": j, "desc": j, "gcm": True}, "yield_from": rng.random() < 0.5})
        else:
            mgrs.append({"id": j, "kind": "plain", "uw": rng.choice([None, None, "prune", rng.randrange(n)]), "el": None})
    kinds = {m["id"]: m["kind"] for m in mgrs}
    for m in mgrs:
        el = m.get("el") or {}
        if m["kind"] == "plain" and kinds.get(el.get("obj")) == "gcm":
            # (a hook that installs a generator-based manager AND a frameless inner_stack of its own makes the contextlib glue
            # look at that inner_stack: a combination with no documented meaning, kept out of the space)
            el.pop("inner", None)
    case = {"k": "fill", "obj": 0, "exiting": rng.random() < 0.35, "mgrs": mgrs, "where": rng.choice(["outside", "inside", "inside", "frame"])}
    if case["where"] == "frame":
        if mgrs[0]["kind"] != "plain":
            case["where"] = "inside"
        else:
            # the manager is the SECOND of two held by a real frame; the first one's hook may fail: each context of a frame is
            # filled on its own
            case["exiting"] = False
            case["first_raises"] = rng.random() < 0.6
    return case


class C11(PropCheck):
    pid = "C11"
    rule = ("wrapper chains of 1-6 managers (+3 replacement targets) over synthetic manager types and real @contextmanager "
            "objects with registered unwrap_context_generator hooks; unwrap in {None, next, PRUNE, self, earlier (cycle), raise}; "
            "elaborate sets any of description/children/inner_stack/obj or raises; a quarter of the plain managers are falsy (empty-collection-like); exiting or not; outside an extract, inside one, or as the second of two managers of a real frame whose first manager's hook may fail; "
            "plus linear chains of length 98..102 around the guard; non-trivial = at least one successful unwrap step")
    manifest = {
        "text": "Lean: C11_trace (for every hook table the call sequence is E(o) U(o') E(m) U(m') … exactly as documented, re-elaborating after each successful unwrap), C11_replace (a returned manager replaces obj and resets inner_stack and children before re-elaboration), C11_none / C11_prune, C11_guard_bound (always terminates within the generated guard, never hangs) and C11_guard_fires (a self-cycle ends in the guard error after exactly guard rounds), C11_gcm_paths (inner_stack.frames[0] and extract_outermost(mgr.gen) hand the hook the same frame, via C16), C11_outside (fill_context outside an extract runs under the options extract(True, False) installs — from the C13 model). Tie: real fill_context on generated chains, outside and inside extract, vs the model, including hook call traces.",
        "note": "Hooks are modelled as tables per manager (pure); the generator-based glue's elaborate hook is modelled as 'sets inner_stack unless exiting, sets description'.",
    }
    assumptions = ["hooks are pure tables", "singledispatch picks the hook registered for the manager's class"]

    def setup(self):
        self.lab = Lab()

    def cases(self, rng, tier):
        out = []
        for _ in range(500 if tier == "quick" else 6000):
            out.append(rand_case(rng))
        for n in (98, 99, 100, 101, 102):
            for end in (None, "prune"):
                mgrs = [{"id": i, "kind": "plain", "uw": i + 1, "el": {"desc": i % 50}} for i in range(n)]
                mgrs.append({"id": n, "kind": "plain", "uw": end, "el": None})
                out.append({"k": "fill", "obj": 0, "exiting": False, "mgrs": mgrs, "where": "outside"})
                out.append({"k": "fill", "obj": 0, "exiting": False, "mgrs": mgrs, "where": "exitstack"})
        for k in (1, 2, 3):
            out.append({"k": "fill", "obj": 0, "exiting": False, "mgrs": [], "where": "tasks", "ntasks": k})
        for order in (["a"], ["a", "b"], ["a", "b", "a"]):
            for is_async in (False, True):
                out.append({"k": "fill", "obj": 0, "exiting": False, "mgrs": [], "where": "rereg", "order": order, "async": is_async})
        return out

    def model_line(self, case):
        if case["where"] in ("exitstack", "tasks", "rereg"):
            return None
        return json.dumps({"p": "C11", "obj": case["obj"], "exiting": case["exiting"], "mgrs": case["mgrs"]})

    def run_real(self, case):
        lab = self.lab
        ss = lab.ss
        lab.load(case)
        mgr0 = lab.obj(case["obj"])
        if case["where"] == "outside":
            ctx = ss.Context(obj=mgr0, is_async=False, is_exiting=case["exiting"])
            outcome = "ok"
            with lab.logging():
                try:
                    ss.fill_context(ctx)
                except Injected as e:
                    outcome = f"raised{e.e}"
                except RuntimeError as e:
                    outcome = "guard" if "unwrapped more than" in str(e) else f"RuntimeError({e})"
            # and the options are left unset
            try:
                ss.extract_child(object(), for_task=False)
                outcome += " !options-leaked"
            except RuntimeError:
                pass
            return lab.show(ctx, outcome)
        if case["where"] == "rereg":
            # the unwrap_context_generator hook for one generator function is registered again: the later registration applies
            import contextlib

            class Inner:
                def __init__(s, tag):
                    s.tag = tag

                def __enter__(s):
                    return s

                def __exit__(s, *a):
                    return False

            a, b = Inner("first"), Inner("second")

            def gen_fn():
                yield

            if case.get("async"):
                async def gen_fn():      # noqa: F811
                    yield
                cm = contextlib.asynccontextmanager(gen_fn)()
            else:
                cm = contextlib.contextmanager(gen_fn)()
            regs = []
            for which in case["order"]:
                target = a if which == "a" else b
                ss.unwrap_context_generator.register(gen_fn)(lambda frame, context, t=target: (regs.append(t.tag), t)[1])
            if case.get("async"):
                step = cm.__aenter__()
                try:
                    step.send(None)
                except StopIteration:
                    pass
            else:
                cm.__enter__()
            ctx = ss.Context(obj=cm, is_async=bool(case.get("async")))
            ss.fill_context(ctx)
            return f"rereg obj={getattr(ctx.obj, 'tag', type(ctx.obj).__name__)} calls={regs}"
        if case["where"] == "tasks":
            # a manager whose elaborate hook lists child tasks the way the Trio glue does (extract_child(task, for_task=True)):
            # stubs or full stacks according to recurse_child_tasks -- outside any extract as inside a default one
            class TaskLike:
                def __init__(s, g):
                    s.g = g

            def child_gen():
                yield

            kids = []
            for _ in range(case.get("ntasks", 2)):
                g = child_gen()
                next(g)
                kids.append(TaskLike(g))

            @ss.unwrap_stackitem.register(TaskLike)
            def _unwrap_tasklike(t):
                return t.g

            class Nursery:
                def __enter__(s):
                    return s

                def __exit__(s, *a):
                    return False

            @ss.elaborate_context.register(Nursery)
            def _elab_nursery(mgr, context):
                context.children = [ss.extract_child(k, for_task=True) for k in kids]

            n = Nursery()
            outs = {}
            ctx_out = ss.Context(obj=n, is_async=False)
            ss.fill_context(ctx_out)
            outs["outside"] = [len(ch.frames) for ch in ctx_out.children]

            def holder():
                with n:
                    yield

            for name, kw in (("inside_default", {}), ("inside_recurse", {"recurse_child_tasks": True})):
                h = holder()
                next(h)
                st = ss.extract(h, **kw)
                outs[name] = [len(ch.frames) for ch in st.frames[0].contexts[0].children]
                h.close()
            return "tasks " + json.dumps(outs, sort_keys=True)
        if case["where"] == "exitstack":
            # the manager was entered through an ExitStack: its context is a child context built by the contextlib glue, which
            # goes through the same loop
            import contextlib

            stk = contextlib.ExitStack()
            stk.enter_context(mgr0)
            ctx = ss.Context(obj=stk, is_async=False)
            outcome = "ok"
            with lab.logging():
                try:
                    ss.fill_context(ctx)
                except Injected as e:
                    outcome = f"raised{e.e}"
                except RuntimeError as e:
                    outcome = "guard" if "unwrapped more than" in str(e) else f"RuntimeError({e})"
            trace = [t for t in lab.trace if not t.endswith("?")]          # (the hooks also see the stack object itself)
            if len(trace) > 24:
                trace = trace[:12] + [f"..{len(trace)}.."] + trace[-4:]
            stk.pop_all()
            return f"exitstack trace=[{' '.join(trace)}] {outcome}"
        if case["where"] == "frame":
            first = lab.M(9000)
            lab.table[9000] = {"id": 9000, "kind": "plain", "uw": None, "el": {"raise": 9777} if case.get("first_raises") else None}
            lab.ids[id(first)] = 9000

            def holder():
                with first, mgr0:
                    yield

            h = holder()
            next(h)
            try:
                with lab.logging():
                    st = ss.extract(h)
            finally:
                h.close()
            lab.trace = [t for t in lab.trace if t not in ("E9000", "U9000")]
            ctxs = st.frames[0].contexts if st.frames else []
            if len(ctxs) != 2:
                return f"frame has {len(ctxs)} contexts, expected 2 (error {st.error!r})"
            errs = [] if st.error is None else list(getattr(st.error, "exceptions", [st.error]))
            mine = [e for e in errs if not (isinstance(e, Injected) and e.e == 9777)]
            if case.get("first_raises") and len(mine) == len(errs):
                lab.hook_problems.append("the failure of the first context's hook is not reported in Stack.error")
            outcome = "ok"
            if mine:
                e = mine[0]
                outcome = f"raised{e.e}" if isinstance(e, Injected) else ("guard" if "unwrapped more than" in str(e) else repr(e))
            return lab.show(ctxs[1], outcome)
        # inside an extract: a generator frame holding the manager in a `with`
        holder_ctx = []

        class Probe:
            pass

        @ss.unwrap_stackitem.register(Probe)
        def unwrap_probe(p):
            ctx = ss.Context(obj=mgr0, is_async=False, is_exiting=case["exiting"])
            holder_ctx.append(ctx)
            ss.fill_context(ctx)
            return None

        with lab.logging():
            st = ss.extract(Probe())
        ctx = holder_ctx[0]
        outcome = "ok"
        if st.error is not None:
            e = st.error
            outcome = f"raised{e.e}" if isinstance(e, Injected) else ("guard" if "unwrapped more than" in str(e) else repr(e))
        return lab.show(ctx, outcome)

    def canon(self, case, real):
        return real

    def oracle(self, case, real):
        """The documented loop, read directly from the tables."""
        if not isinstance(real, str):
            return None
        if case["where"] == "rereg":
            last = "first" if case["order"][-1] == "a" else "second"
            if real != f"rereg obj={last} calls=['{last}']":
                return (f"unwrap_context_generator registered {len(case['order'])} times for one generator function (order {case['order']}): "
                        f"observed [{real}]; the latest registration ({last}) is the one that applies")
            return None
        if case["where"] == "tasks":
            d = json.loads(real[6:])
            k = case.get("ntasks", 2)
            if d["outside"] != d["inside_default"] or d["inside_default"] != [0] * k or d["inside_recurse"] != [1] * k:
                return (f"child tasks listed by an elaborate hook: frames per child outside any extract {d['outside']}, inside a default "
                        f"extract {d['inside_default']} (stubs), inside extract(recurse_child_tasks=True) {d['inside_recurse']}: "
                        f"fill_context outside an extract must give what it gives inside a default one")
            return None
        tab = {m["id"]: m for m in case["mgrs"]}
        obj, inner, children, desc, hide = case["obj"], "-", [], "-", False
        trace: List[str] = []
        outcome = None
        for it in range(GUARD):
            el = tab.get(obj, {}).get("el") or {}
            trace.append(f"E{obj}")
            if "raise" in el:
                outcome = f"raised{el['raise']}"
                break
            if "inner" in el and not (el.get("gcm") and case["exiting"]):
                inner = str(el["inner"])
            if "children" in el:
                children = list(el["children"])
            if "desc" in el:
                desc = str(el["desc"])
            if "obj" in el:
                obj = el["obj"]
            uw = tab.get(obj, {}).get("uw")
            trace.append(f"U{obj}")
            if uw is None:
                outcome = "ok"
                break
            if uw == "prune":
                hide = True
                outcome = "ok"
                break
            if isinstance(uw, list):
                outcome = f"raised{uw[1]}"
                break
            obj, inner, children = uw, "-", []
        else:
            trace.append(f"U{obj}")
            uw = tab.get(obj, {}).get("uw")
            outcome = f"raised{uw[1]}" if isinstance(uw, list) else "guard"
        if len(trace) > 24:
            trace = trace[:12] + [f"..{len(trace)}.."] + trace[-4:]
        want = (f"obj={obj} hide={'T' if hide else 'F'} inner={inner} children=[{', '.join(str(c) for c in children)}] "
                f"desc={desc} trace=[{' '.join(trace)}] {outcome}")
        if case["where"] == "exitstack":
            want = f"exitstack trace=[{' '.join(trace)}] {outcome}"
        if want != real:
            return f"fill_context ({case['where']} extract) deviates from the documented loop: expected [{want}] observed [{real}]"
        hp = self._hook_problems.get(id(case))
        if hp:
            return hp[0]
        return None

    def nontrivial_key(self, case, real):
        if isinstance(real, str) and real.count("E") >= 2:
            return json.dumps(case, sort_keys=True)
        return None

    def stats(self, cases, reals):
        d = {"outside": 0, "inside": 0, "frame": 0, "exitstack": 0, "tasks": 0, "rereg": 0, "exiting": 0, "guard": 0, "prune": 0, "raised": 0, "with_gcm": 0, "replaced": 0}
        for c, r in zip(cases, reals):
            d[c["where"]] += 1
            d["exiting"] += c["exiting"]
            d["with_gcm"] += any(m["kind"] == "gcm" for m in c["mgrs"])
            if isinstance(r, str):
                d["guard"] += r.endswith("guard")
                d["prune"] += "hide=T" in r
                d["raised"] += "raised" in r
                d["replaced"] += r.count(" E") >= 1
        return d


_orig_run = C11.run_real


def _run(self, case):
    if not hasattr(self, "_hook_problems"):
        self._hook_problems = {}
    r = _orig_run(self, case)
    self._hook_problems[id(case)] = list(self.lab.hook_problems)
    return r


C11.run_real = _run  # type: ignore[assignment]
CHECK = C11()
