"""C19 — standard-library summaries and flat format faithfully project the Stack.

The same generated Stack trees as C18 (plus real extracted stacks of chains) are summarised by the real
`as_stdlib_summary` under all 8 combinations of show_contexts / show_hidden_frames / capture_locals and
rendered by `format_flat`; the FrameSummary fields are compared with the Lean model `SS.Format.sumStack`
/ `formatFlat`.  Oracle on the real objects: one entry per visible frame in order carrying its filename /
line / function name; context entries at the with-line before their frame's entry, which is omitted
only when the last context is exiting; the summary pickles and reaches no frame; format_flat = header +
stdlib rendering of the summary + leaf line + error lines.
"""
from __future__ import annotations

import gc
import itertools
import json
import pickle
import random
import traceback
import types
from typing import Any, List, Optional

from .. import trees
from ..core import PropCheck


def show_summary(fs: traceback.FrameSummary) -> str:
    loc = "-"
    if fs.locals and "<context manager>" in fs.locals:
        import ast

        # FrameSummary stores repr() of every local (stdlib): undo that one layer
        loc = "C:" + ast.literal_eval(fs.locals["<context manager>"])
    return f"{fs.filename}|{fs.lineno}|{fs.name}|L:{fs.line}|{loc}"


def _truth(o) -> bool:
    try:
        return bool(o)
    except Exception:
        return True


class C19(PropCheck):
    pid = "C19"
    rule = ("the C18 tree generator (depth/width <= 3 quick, <= 4 thorough) plus real stacks extracted from await chains, x all 8 "
            "combinations of show_contexts / show_hidden_frames / capture_locals, plus format_flat with and without contexts; "
            "non-trivial = some frame has a context; distinct = (tree, flags)")
    manifest = {
        "text": "Lean: C19_plain (without contexts the summary is exactly one entry per visible frame, in order, with its file, line and function name), C19_hidden (a hidden frame contributes nothing unless show_hidden_frames, everything with it), C19_frame_with_contexts (with contexts: each visible context's entry and its inner stack / child contexts first, then the frame's own entry, omitted exactly when the last context is exiting), C19_context_entry (a context entry sits at the with-line — the frame's line when start_line is missing —, names the manager, and carries the fictitious <context manager> local iff capture_locals), C19_flat (format_flat = header, stdlib rendering of the default summary when there are frames, leaf line, error lines), C19_no_frames (the summary type has no field that could hold a frame). Tie: FrameSummary fields of real summaries vs the model; pickling and frame-reachability are runtime checks.",
        "note": "traceback.StackSummary.format is uninterpreted in the model (the harness checks format_flat's middle part equals the stdlib rendering of the real summary). FrameSummary's lazy line lookup is stdlib behaviour.",
    }
    assumptions = ["traceback.FrameSummary / StackSummary are used as given"]

    def cases(self, rng, tier):
        out = []
        n = 150 if tier == "quick" else 2000
        dmax = 3 if tier == "quick" else 4
        for _ in range(n):
            out.append({"k": "tree", "seed": rng.randrange(1 << 30), "depth": rng.randint(1, dmax), "width": rng.randint(1, dmax)})
        # runs of identical entries (deep recursion through one line): the flat format is the *standard* rendering of the whole
        # summary, which collapses them ("[Previous line repeated N more times]")
        for i, c in enumerate(list(out[:30 if tier == "quick" else 300])):
            out.append(dict(c, tblimit=[0, 1, 2, -1][i % 4]))
        for rep in (3, 4, 5, 9):
            for seed in (1, 2, 3):
                out.append({"k": "tree", "seed": seed * 1000 + rep, "depth": 1, "width": 2, "repeat": rep})
        return out

    def run_real(self, case):
        import stackscope

        s = trees.rnd_stack(random.Random(case["seed"]), case["depth"], case["width"])
        if case.get("repeat"):
            fr = trees.rnd_frame(random.Random(case["seed"]), 0, 1)
            fr.hide = False
            fr.contexts = []
            s = stackscope.Stack(root=s.root, frames=list(s.frames[:1]) + [fr] * case["repeat"] + list(s.frames[1:]), leaf=s.leaf, error=s.error)
        self._probs: List[str] = []
        parts = []
        for ctx, hid, loc in itertools.product([False, True], repeat=3):
            summ = s.as_stdlib_summary(show_contexts=ctx, show_hidden_frames=hid, capture_locals=loc)
            shown = [show_summary(fs) for fs in summ]
            parts.append("¦".join(shown))
            # ---- oracle -------------------------------------------------------------------------
            if not ctx:
                want = [(f.filename, f.lineno, f.funcname) for f in s.frames if hid or not f.hide]
                got = [(fs.filename, fs.lineno, fs.name) for fs in summ]
                if want != got:
                    self._probs.append(f"plain summary is not one entry per visible frame: {got} vs {want}")
            else:
                self.check_ctx_order(s, summ, hid)
            try:
                back = pickle.loads(pickle.dumps(summ))
                if [(a.filename, a.lineno, a.name) for a in back] != [(a.filename, a.lineno, a.name) for a in summ]:
                    self._probs.append("summary changed by a pickle round trip")
            except Exception as e:
                self._probs.append(f"summary cannot be pickled: {type(e).__name__}: {e}")
            if reaches_frame(summ):
                self._probs.append("the summary holds a reference to a frame object")
        flats = []
        for ctx in (False, True):
            lines = s.format_flat(show_contexts=ctx)
            header = s._format_header()
            want_header = ("stackscope.Stack (most recent call last):\n" if s.root is None
                           else f"stackscope.Stack of {s.root!r} (most recent call last):\n")
            if header != want_header or not lines or lines[0] != want_header:
                self._probs.append(f"format_flat header {lines[:1]!r} for root {s.root!r} (falsy: {s.root is not None and not _truth(s.root)}); "
                                   f"expected {want_header!r}")
            mid = list(s.as_stdlib_summary(show_contexts=ctx).format()) if s.frames else []
            tail = ([f"  Target of innermost frame: {s.leaf!r}\n"] if s.leaf is not None else []) + \
                   (["  Error while extracting stack:\n"] + ["  " + l for l in trees.error_lines(s.error)] if s.error is not None else [])
            if lines != [header] + mid + tail:
                self._probs.append(f"format_flat(show_contexts={ctx}) is not header + stdlib rendering + leaf + error")
            sm = "nosummary" if not s.frames else "¦".join(show_summary(fs) for fs in s.as_stdlib_summary(show_contexts=ctx))
            leafline = f"  Target of innermost frame: {s.leaf!r}\n" if s.leaf is not None else ""
            flats.append(header.replace("\n", "⏎") + "§" + sm + "§" + leafline.replace("\n", "⏎") + "§" +
                         "¦".join(l.replace("\n", "⏎") for l in (tail[1:] if s.leaf is not None else tail)))
        # ---- a history on one Stack object: each projection is made from what the frames say NOW, and belongs to its caller ----
        vis = [f for f in s.frames if not f.hide]
        if vis:
            first = s.as_stdlib_summary()
            for fs in first:
                fs.name = "edited by the summary's owner"          # (the caller's own list of its own FrameSummary objects)
            f0 = vis[0]
            old = f0.lineno
            f0.lineno = old + 1                                      # the Frame is re-anchored (documented, settable field)
            try:
                second = s.as_stdlib_summary()
                got = [(fs.filename, fs.lineno, fs.name) for fs in second]
                want = [(f.filename, f.lineno, f.funcname) for f in vis]
                if got != want:
                    self._probs.append(f"a second projection of the same Stack (after its owner edited the first summary and a frame's "
                                       f"lineno was changed) is not what the frames say now: {got[:2]} vs {want[:2]}")
            finally:
                f0.lineno = old
        case["_stack"] = trees.d_stack(s)
        return "‖".join(parts) + "##" + "‖".join(flats)

    def check_ctx_order(self, s, summ, hid):
        """Each visible frame's own entry comes after the entries of its visible contexts and is omitted iff its
        last context is exiting; context entries sit at the with-line (or the frame's line)."""
        import stackscope

        entries = list(summ)
        pos = 0

        def eat_ctx(c, parent, top=True):
            nonlocal pos
            if c.hide and not hid:
                return
            if pos >= len(entries):
                self._probs.append("summary ended before a visible context's entry")
                return
            fs = entries[pos]
            want_line = c.start_line or parent.lineno
            if fs.lineno != want_line or fs.filename != parent.filename or not fs.name.startswith(parent.funcname):
                self._probs.append(f"context entry {fs.filename}:{fs.lineno} {fs.name} is not at the with-line {want_line} of {parent.funcname}")
            if top and c.obj is not None and f": {type(c.obj).__name__})" not in fs.name:
                # the entry names the manager's type: what type() says, whatever the object claims to be
                self._probs.append(f"context entry '{fs.name}' does not name the manager's type {type(c.obj).__name__}")
            pos += 1
            if c.inner_stack is not None:
                eat_stack(c.inner_stack)
            for ch in c.children:
                if isinstance(ch, stackscope.Context):
                    eat_ctx(ch, parent, top=False)

        def eat_stack(st):
            nonlocal pos
            for f in st.frames:
                if f.hide and not hid:
                    continue
                for c in f.contexts:
                    eat_ctx(c, f)
                if not (f.contexts and f.contexts[-1].is_exiting):
                    if pos >= len(entries):
                        self._probs.append("summary ended before a frame's own entry")
                        return
                    fs = entries[pos]
                    if (fs.filename, fs.lineno, fs.name) != (f.filename, f.lineno, f.funcname):
                        self._probs.append(f"expected the entry of frame {f.funcname}:{f.lineno}, found {fs.name}:{fs.lineno}")
                    pos += 1

        eat_stack(s)
        if pos != len(entries) and not self._probs:
            self._probs.append(f"{len(entries) - pos} extra summary entries")

    def model_lines(self, case):
        import linecache

        st = case["_stack"]
        fn = trees.trees_src.__file__
        src = [[n, linecache.getline(fn, n).strip()] for n in range(0, 40)]
        out = []
        for ctx, hid, loc in itertools.product([False, True], repeat=3):
            out.append(json.dumps({"p": "C19", "k": "summary", "stack": st, "contexts": ctx, "hidden": hid, "locals": loc, "srclines": src}, ensure_ascii=False))
        for ctx in (False, True):
            out.append(json.dumps({"p": "C19", "k": "flat", "stack": st, "contexts": ctx, "srclines": src}, ensure_ascii=False))
        return out

    def model_line(self, case):
        return None

    def canon(self, case, real):
        # driver outputs are joined with '§' by the core; bring the real observation into the same shape
        a, b = real.split("##")
        return "§".join(a.split("‖") + b.split("‖"))

    def oracle(self, case, real):
        return self._oracles.get(id(case))

    def nontrivial_key(self, case, real):
        s = json.dumps(case.get("_stack", {}))
        if '"contexts": [{' in s:
            return json.dumps({k: v for k, v in case.items() if not k.startswith("_")}, sort_keys=True)
        return None

    def stats(self, cases, reals):
        d = {"trees": len(cases), "entries_total": 0}
        for r in reals:
            if isinstance(r, str):
                d["entries_total"] += r.count("|T") + r.count("|F")
        return d


def reaches_frame(obj, depth=4) -> bool:
    seen = set()
    todo = [(obj, 0)]
    while todo:
        o, d = todo.pop()
        if id(o) in seen:
            continue
        seen.add(id(o))
        if isinstance(o, types.FrameType):
            return True
        if d < depth and not isinstance(o, (str, int, type, types.ModuleType, types.FunctionType)):
            for r in gc.get_referents(o):
                todo.append((r, d + 1))
    return False


_orig = C19.run_real


def _run(self, case):
    if not hasattr(self, "_oracles"):
        self._oracles = {}
    import sys
    if "tblimit" in case:
        # a process-wide setting for how tracebacks are *printed* (traceback.print_*/extract_* honour it); a summary built from a
        # Stack is not one of those
        sys.tracebacklimit = case["tblimit"]
    try:
        r = _orig(self, case)
    finally:
        if "tblimit" in case:
            del sys.tracebacklimit
    self._oracles[id(case)] = "; ".join(self._probs[:3])[:900] if self._probs else None
    return r


C19.run_real = _run  # type: ignore[assignment]
CHECK = C19()
