"""C08 — context metadata: start_line is the with line, varname the real `as` target.

Generated `with` / `async with` statements (1-4 items; targets from the documented grammar — names,
attributes, subscripts by constants or names, positional-only calls, (starred) tuple / list unpacking — and
unsupported ones; one line, several lines, parenthesised) are compiled; for each item
  * `describe_assignment_target` on the real instruction list is compared with the Lean transcription
    (`SS.Target.describeTarget`), and
  * `analyze_with_blocks` is judged against the source's AST: start_line = line of the `with` keyword,
    varname parses to the same expression as the `as` target or is None (never something else), and
    supported targets are rendered, not dropped.
Static leg: every with statement of (a sample of) the standard library.
"""
from __future__ import annotations

import ast
import dis
import json
import os
import random
import sysconfig
import types
import warnings
from typing import Any, Dict, List, Optional, Tuple

from ..core import PropCheck

NAMES = ["a", "b", "c", "loc", "G"]


def rand_load(rng: random.Random, depth: int) -> str:
    r = rng.random()
    if depth <= 0 or r < 0.4:
        return rng.choice(NAMES)
    if r < 0.6:
        return rand_load(rng, depth - 1) + "." + rng.choice(["x", "attr", "y"])
    if r < 0.8:
        return rand_load(rng, depth - 1) + "[" + rng.choice(["0", "1", "'k'", "'infinite'", "'{id}'", "'{{s}}'", "'{}'", rng.choice(NAMES)]) + "]"
    if r < 0.86:
        # an attribute of super(c, o), read (3.12: one LOAD_SUPER_ATTR instruction), possibly called as a method
        base = "super(" + rand_load(rng, depth - 2) + ", " + rand_load(rng, depth - 2) + ")." + rng.choice(["x", "attr", "y"])
        if rng.random() < 0.4:
            base += "(" + ", ".join(rand_load(rng, depth - 2) for _ in range(rng.randint(0, 2))) + ")"
        return base
    nargs = rng.randint(0, 2)
    return rand_load(rng, depth - 1) + "(" + ", ".join(rand_load(rng, depth - 2) for _ in range(nargs)) + ")"


def rand_target(rng: random.Random, depth: int) -> str:
    r = rng.random()
    if depth <= 0 or r < 0.3:
        return rng.choice(NAMES)
    if r < 0.5:
        return rand_load(rng, depth - 1) + "." + rng.choice(["x", "attr"])
    if r < 0.7:
        return rand_load(rng, depth - 1) + "[" + rng.choice(["0", "'k'", "'info'", rng.choice(NAMES)]) + "]"
    n = rng.randint(1, 3)
    elems = [rand_target(rng, depth - 1) for _ in range(n)]
    if rng.random() < 0.35:
        k = rng.randrange(n)
        elems[k] = "*" + rng.choice(NAMES)
    if rng.random() < 0.25:
        return "[" + ", ".join(elems) + "]"
    return "(" + ", ".join(elems) + ("," if n == 1 else "") + ")"


UNSUPPORTED = ["a[b + 1]", "a[f(x=1)]", "a[(b := 2)]", "a[1:2]", "a[b if c else 0].x", "a[-1]", "a[b:c:2]", "a[{1: 2}[1]]",
               "a[lambda: 0]", "a.x[b * 2]", "(a, b[c + 1])", "a[not b]"]


def norm_ast(expr: str) -> Optional[str]:
    try:
        t = ast.parse(expr, mode="eval").body
    except SyntaxError:
        return None
    for n in ast.walk(t):
        if hasattr(n, "ctx"):
            n.ctx = ast.Load()
    # lists and tuples as unpacking targets mean the same thing
    class L2T(ast.NodeTransformer):
        def visit_List(self, node):
            self.generic_visit(node)
            return ast.Tuple(elts=node.elts, ctx=ast.Load())
    t = L2T().visit(t)
    return ast.dump(t)


def layout(rng: random.Random, items: List[Tuple[str, Optional[str]]], is_async: bool, glob: bool = False, big: bool = False,
           cell: Optional[str] = None, maybe: bool = False) -> Tuple[str, int]:
    """Source of a function containing the with statement; returns (source, line of the `with` keyword).
    cell: a name that an inner function uses too (a cell variable: LOAD_DEREF / STORE_DEREF); maybe: `loc` is bound on one path only
    (its loads are LOAD_FAST_CHECK)."""
    kw = "async with" if is_async else "with"
    parts = [f"{cm}" + (f" as {t}" if t is not None else "") for cm, t in items]
    style = rng.choice(["one", "paren_multi", "paren_one", "backslash"]) if len(items) > 1 or rng.random() < 0.5 else "one"
    pre = (["    global G", "    loc = None"] if glob else ["    loc = G = None", "    pad = 1"]) + ["    pad += 1"] * rng.randint(0, 3)
    if maybe and not glob:
        pre = ["    G = None", "    pad = 1", "    if pad:", "        loc = None"] + ["    pad += 1"] * rng.randint(0, 3)
    if cell:
        pre = pre + [f"    _inner = lambda: {cell}"]
    if big:
        # a large code object: 140 global names come first, so the LOAD_GLOBAL that begins the with statement's line needs an
        # EXTENDED_ARG prefix (dis attaches the line start to the prefix)
        # (the attribute / method / global names the targets may use are touched first, so that their own indices stay small)
        pre = pre + ["    pad = (loc.x, loc.attr, loc.y, loc.m, loc.f, f, g, h, super)", "    pad = [" + ", ".join(f"g{i}" for i in range(140)) + "]"]
    if style == "one":
        stmt = [f"    {kw} " + ", ".join(parts) + ":"]
    elif style == "paren_one":
        stmt = [f"    {kw} (" + ", ".join(parts) + "):"]
    elif style == "paren_multi":
        stmt = [f"    {kw} ("] + [f"        {p}," for p in parts] + ["    ):"]
    else:
        stmt = [f"    {kw} " + parts[0] + ("," if len(parts) > 1 else "") + (" \\" if len(parts) > 1 else ":")]
        for i, p in enumerate(parts[1:]):
            lastp = i == len(parts) - 2
            stmt.append("        " + p + (":" if lastp else ", \\"))
    head = ("async def fn(a, b, c):" if is_async else "def fn(a, b, c):")
    lines = [head] + pre + stmt + ["        pass"]
    return "\n".join(lines) + "\n", 1 + len(pre) + 1


def to_term(target: str, glob: bool, cell: Optional[str] = None):
    """The target as a term of the Lean grammar (SS.Target.Tgt), an independent count of the instructions the model compiler
    should emit for it, and its text rendered by the documented conventions."""
    t = ast.parse(target, mode="eval").body

    def scope(name):
        if cell is not None and name == cell:
            return "deref"
        return "global" if (glob and name == "G") else "fast"

    def is_super_attr(n) -> bool:
        return (isinstance(n, ast.Attribute) and isinstance(n.value, ast.Call) and isinstance(n.value.func, ast.Name)
                and n.value.func.id == "super" and len(n.value.args) == 2 and not n.value.keywords
                and not any(isinstance(a, ast.Starred) for a in n.value.args))

    def first_insn(n) -> str:
        """Kind of the first instruction compiled for a load expression: G = LOAD_GLOBAL (no NULL bit), GN = LOAD_GLOBAL
        with the NULL bit, P = PUSH_NULL, O = anything else."""
        if isinstance(n, ast.Name):
            return "G" if scope(n.id) == "global" else "O"
        if is_super_attr(n):
            return "G"                      # LOAD_GLOBAL super, without the NULL bit
        if isinstance(n, (ast.Attribute, ast.Subscript)):
            return first_insn(n.value)
        if isinstance(n, ast.Call):
            if is_super_attr(n.func):
                return "G"
            if isinstance(n.func, ast.Attribute):
                return first_insn(n.func.value)
            return "GN" if first_insn(n.func) == "G" else "P"
        return "O"

    def expr(n, meth=False):
        if isinstance(n, ast.Name):
            return ["var", scope(n.id), n.id], 1, n.id
        if isinstance(n, ast.Constant):
            return ["const", repr(n.value)], 1, repr(n.value)
        if is_super_attr(n):
            c, k1, r1 = expr(n.value.args[0])
            o, k2, r2 = expr(n.value.args[1])
            return ["super", meth, c, o, n.attr], 1 + k1 + k2 + 1, f"super({r1}, {r2}).{n.attr}"
        if isinstance(n, ast.Attribute):
            e, k, r = expr(n.value)
            return ["attr", e, n.attr], k + 1, f"{r}.{n.attr}"
        if isinstance(n, ast.Subscript):
            c, k1, r1 = expr(n.value)
            i, k2, r2 = expr(n.slice)
            return ["subscr", c, i], k1 + k2 + 1, f"{r1}[{r2}]"
        if isinstance(n, ast.Call):
            f, k, r = expr(n.func, meth=True)
            # 3.12: PUSH_NULL precedes the callee unless it is a method-style call (LOAD_ATTR pushes NULL|self) or the
            # callee's first instruction is a LOAD_GLOBAL without the NULL bit (the peephole folds PUSH_NULL into it)
            pn = not (isinstance(n.func, ast.Attribute) or first_insn(n.func) == "G")
            args = [expr(a) for a in n.args]
            return (["call", pn, f, [a[0] for a in args]], (1 if pn else 0) + k + sum(a[1] for a in args) + 1 + (len(args) >= 256),
                    f"{r}({', '.join(a[2] for a in args)})")
        raise ValueError(type(n).__name__)

    def fmt(vals):
        return f"({vals[0]},)" if len(vals) == 1 else "(" + ", ".join(vals) + ")"

    def tgt(n):
        if isinstance(n, ast.Name):
            return ["var", scope(n.id), n.id], 1, n.id
        if isinstance(n, ast.Attribute):
            e, k, r = expr(n.value)
            return ["attr", e, n.attr], k + 1, f"{r}.{n.attr}"
        if isinstance(n, ast.Subscript):
            c, k1, r1 = expr(n.value)
            i, k2, r2 = expr(n.slice)
            return ["subscr", c, i], k1 + k2 + 1, f"{r1}[{r2}]"
        if isinstance(n, (ast.Tuple, ast.List)):
            star = [k for k, e in enumerate(n.elts) if isinstance(e, ast.Starred)]
            if not star:
                ts = [tgt(e) for e in n.elts]
                return ["tuple", [x[0] for x in ts]], 1 + (len(ts) >= 256) + sum(x[1] for x in ts), fmt([x[2] for x in ts])
            k = star[0]
            b = [tgt(e) for e in n.elts[:k]]
            st = tgt(n.elts[k].value)
            a = [tgt(e) for e in n.elts[k + 1:]]
            return (["starred", [x[0] for x in b], st[0], [x[0] for x in a]], 1 + (len(a) >= 1) + sum(x[1] for x in b + [st] + a),
                    fmt([x[2] for x in b] + ["*" + st[2]] + [x[2] for x in a]))
        raise ValueError(type(n).__name__)

    return tgt(t)


NAME_OPS = {"LOAD_GLOBAL", "LOAD_FAST", "LOAD_NAME", "LOAD_DEREF", "STORE_GLOBAL", "STORE_FAST", "STORE_NAME", "STORE_DEREF",
            "LOAD_FAST_CHECK", "LOAD_ATTR", "STORE_ATTR", "LOAD_METHOD", "LOAD_SUPER_ATTR"}


def canon_row(i: dis.Instruction) -> str:
    if i.opname == "LOAD_FAST_CHECK":
        # (the compiler model does not track on which paths a local is bound)
        return f"LOAD_FAST/{i.argval}/0/"
    av = i.argval if (i.opname in NAME_OPS and isinstance(i.argval, str)) else ""
    arg = i.arg if i.opname in ("UNPACK_SEQUENCE", "UNPACK_EX", "CALL") else (i.arg & 3) if i.opname == "LOAD_SUPER_ATTR" else 0
    rep = i.argrepr if i.opname == "LOAD_CONST" else ""
    return f"{i.opname}/{av}/{arg}/{rep}"


def insn_row(i: dis.Instruction) -> list:
    av = i.argval
    return [i.opname, av if isinstance(av, str) else "", i.arg if isinstance(i.arg, int) else 0, i.argrepr or ""]


class C08(PropCheck):
    pid = "C08"
    real_time_limit = 120.0
    rule = ("generated with / async with statements: 1-4 items, targets of depth <= 3 (quick) / <= 5 (thorough) from the supported "
            "grammar plus a list of unsupported forms, four layouts; plus the with statements of a sample of (quick: 60 files) / all of "
            "(thorough) the standard library; non-trivial = the item has an `as` target that is not a plain local name")
    manifest = {
        "text": "Lean: a line-by-line transcription of describe_assignment_target as a total fuel-bounded symbolic stack machine (SSModel/Target.lean), a grammar of `as` targets with a model of CPython 3.12's code generation for them (compileStore, incl. PUSH_NULL placement and EXTENDED_ARG prefixes) and their source text. C08_target: for every well-formed target — names of any scope, attributes, subscripts and positional calls over arbitrarily nested load expressions, tuple unpacking of any arity nested to any depth, one starred element anywhere — the machine run on the compiled instructions, with the fuel bound the transcription uses and whatever follows, returns exactly the source text (mutual structural induction); C08_name / C08_attr / C08_subscr / C08_call / C08_tuple / C08_starred are its instances; C08_one_tuple_comma; C08_super_attr / C08_super_subscr_example (3.12's LOAD_SUPER_ATTR: a target reading an attribute of super(c, o) -- as attribute, subscript or method call -- renders to its source text; Expr.superAttr is part of the grammar C08_target quantifies over; the repaired F57); C08_unsupported_is_none / C08_unsupported_first: an opcode outside the supported set, right away or after any load-expression prefix, makes the result None, never a wrong string. Tie: (a) the transcription is diffed against the real function on the instruction lists of generated and standard-library with statements; (b) the compiler model is diffed against dis on every generated supported target (instruction by instruction), together with the rendered text; (c) the oracle compares analyze_with_blocks with the source AST (start_line, varname).",
        "note": "That BEFORE_WITH carries the line of the with keyword, and what CPython's compiler emits for store targets, are compiler facts measured here (compileStore is a model of them for 3.12). CPython 3.12 only in this sandbox's dependency-complete interpreter; 3.9-3.11 paths are not exercised.",
    }
    assumptions = ["dis.Bytecode's argval / argrepr as in CPython 3.12", "the compiler attaches the with keyword's line to BEFORE_WITH"]

    def cases(self, rng, tier):
        out = []
        n = 400 if tier == "quick" else 5000
        dmax = 3 if tier == "quick" else 5
        for _ in range(n):
            k = rng.choice([1, 1, 2, 3, 4])
            items = []
            for _ in range(k):
                r = rng.random()
                t = None if r < 0.15 else (rng.choice(UNSUPPORTED) if r < 0.25 else rand_target(rng, rng.randint(0, dmax)))
                items.append([rng.choice(["cm", "cm2", "open(a)"]), t])
            out.append({"k": "gen", "items": items, "async": rng.random() < 0.4, "lseed": rng.randrange(1 << 30), "glob": rng.random() < 0.3,
                        "big": rng.random() < 0.12})
            if not out[-1]["glob"] and not out[-1]["big"]:
                r2 = rng.random()
                if r2 < 0.2:
                    out[-1]["cell"] = rng.choice(["a", "b", "loc"])
                elif r2 < 0.35:
                    out[-1]["maybe"] = True
            if out[-1]["big"]:
                out[-1]["glob"] = False      # (the model compiler does not track name indices: a global target would need a prefix of its own)
        for t in UNSUPPORTED:
            out.append({"k": "gen", "items": [["cm", t]], "async": False, "lseed": 1})
        # dynamic leg: the metadata must also be right on live frames — probes inside manager methods (the context is exiting,
        # its obj unknown to the bytecode analysis) and at suspension points, on generated programs
        for _ in range(60 if tier == "quick" else 800):
            out.append({"k": "dyn", "kind": rng.choice(["gen", "coro", "agen", "sync"]), "pseed": rng.randrange(1 << 30),
                        "depth": rng.randint(1, 3), "choices": [rng.randrange(6) for _ in range(rng.randint(0, 12))]})
        for ci in range(len(__import__("harness.progs", fromlist=["CORPUS"]).CORPUS)):
            for ch in ([], [1], [0, 1], [1, 0, 1], [0, 0, 1, 1], [1, 1, 0, 1, 0]):
                out.append({"k": "dyn", "corpus": ci, "choices": ch})
        files = stdlib_files()
        rng.shuffle(files)
        for f in (files[:60] if tier == "quick" else files):
            out.append({"k": "file", "path": f})
        for where in ("finally", "except", "nested_finally", "for_else"):
            for is_async in (False, True):
                for nconst in (0, 3, 260):
                    for tgt in (None, "loc", "loc.attr", "loc[a]"):
                        out.append({"k": "placed", "where": where, "async": is_async, "nconst": nconst, "target": tgt})
        return out

    def run_real(self, case):
        from stackscope.lowlevel import analyze_with_blocks, describe_assignment_target

        self._probs: List[str] = []
        if case["k"] == "file":
            return self.run_file(case["path"])
        if case["k"] == "dyn":
            return self.run_dyn(case)
        if case["k"] == "placed":
            return self.run_placed(case)
        src, with_line = layout(random.Random(case["lseed"]), [tuple(x) for x in case["items"]], case["async"], case.get("glob", False), case.get("big", False),
                                cell=case.get("cell"), maybe=case.get("maybe", False))
        ns: Dict[str, Any] = {}
        try:
            code = compile(src, "<c08>", "exec")
        except SyntaxError as e:
            case["_skip"] = True
            return f"SYNTAX {e.msg}"
        fn_code = [c for c in code.co_consts if isinstance(c, types.CodeType)][0]
        insns = list(dis.Bytecode(fn_code))
        with warnings.catch_warnings(record=True) as w:
            warnings.simplefilter("always")
            info = analyze_with_blocks(fn_code)
        ctxs = list(info.values())
        outs = []
        case["_insns"] = []
        starts = [i for i, ins in enumerate(insns) if ins.opname in ("BEFORE_WITH", "BEFORE_ASYNC_WITH")]
        # the store sequence of each item begins where analyze_with_blocks says: recompute the same index through
        # describe_assignment_target on every candidate start and keep the one analyze_with_blocks used (its varname)
        if len(ctxs) != len(case["items"]):
            self._probs.append(f"{len(ctxs)} with-blocks found for {len(case['items'])} items")
        for (cm, target), ctx, bidx in zip(case["items"], ctxs, starts):
            # start_line
            if ctx.start_line != with_line:
                self._probs.append(f"start_line {ctx.start_line} is not the line of the with keyword ({with_line}) for item `{cm} as {target}`")
            if ctx.is_async != case["async"]:
                self._probs.append("is_async wrong")
            # varname vs the real target
            if target is None:
                if ctx.varname is not None:
                    self._probs.append(f"item without target got varname {ctx.varname!r}")
            else:
                want = norm_ast(target)
                got = None if ctx.varname is None else norm_ast(ctx.varname)
                supported = target not in UNSUPPORTED and "(" not in target.replace("(", "", 0)[:0]
                if ctx.varname is not None and got != want:
                    self._probs.append(f"varname {ctx.varname!r} does not denote the target `{target}`")
                if ctx.varname is None and target not in UNSUPPORTED and self.is_supported(target):
                    self._probs.append(f"supported target `{target}` was dropped (varname None)")
            # the instruction list handed to describe_assignment_target: find it by trying the documented skip logic
            idx = self.store_index(insns, bidx)
            real = describe_assignment_target(insns, idx)
            outs.append("None" if real is None else "S:" + real)
            case["_insns"].append([insn_row(i) for i in insns[idx:idx + 60]])
            # the model of the compiler (compileStore) against dis, for targets inside the documented grammar
            if target is not None and target not in UNSUPPORTED and self.is_supported(target):
                try:
                    term, count, text = to_term(target, case.get("glob", False), case.get("cell"))
                except ValueError:
                    term = None
                if term is not None:
                    case["_insns"].append({"tgt": term})
                    outs.append(" ".join(canon_row(i) for i in insns[idx:idx + count]) + " => " + ("None" if real is None else "S:" + real) + " => " + text)
            if real != ctx.varname:
                self._probs.append(f"analyze_with_blocks handed describe_assignment_target another instruction: {ctx.varname!r} vs {real!r}")
        return "§".join(outs)

    def run_placed(self, case):
        """The with statement in a position where the compiler duplicates or re-arranges it (the body of a `finally:` is compiled
        twice, the second copy reached only while an exception propagates and, for `async with`, with an inline CLEANUP_THROW before
        END_SEND), optionally in a function whose first None constant has an index above 255 (EXTENDED_ARG before LOAD_CONST None):
        EVERY copy must be found, with the line of the with keyword and the source's `as` target, and without any warning."""
        from stackscope.lowlevel import analyze_with_blocks

        kw = "async with" if case["async"] else "with"
        tgt = case["target"]
        item = "cm" + (f" as {tgt}" if tgt else "")
        pre = ['    """doc"""'] + [f"    pad = {1000 + i}" for i in range(case["nconst"])] + ["    loc = G = pad = None"]
        where = case["where"]
        if where == "finally":
            body, wl, copies = ["    try:", "        pad = 1", "    finally:", f"        {kw} {item}:", "            pad = 2"], 3, 2
        elif where == "except":
            body, wl, copies = ["    try:", "        pad = 1", "    except ValueError:", f"        {kw} {item}:", "            pad = 2"], 3, 1
        elif where == "nested_finally":
            body, wl, copies = ["    try:", "        try:", "            pad = 1", "        finally:", "            pad = 3", "    finally:",
                                f"        {kw} {item}:", "            pad = 2"], 6, 2
        else:
            body, wl, copies = ["    for pad in a:", "        pad = 1", "    else:", f"        {kw} {item}:", "            pad = 2"], 3, 1
        src = "\n".join([("async def fn(a, b, c):" if case["async"] else "def fn(a, b, c):")] + pre + body) + "\n"
        with_line = 1 + len(pre) + wl + 1
        code = compile(src, "<c08placed>", "exec")
        fn_code = [c for c in code.co_consts if isinstance(c, types.CodeType)][0]
        with warnings.catch_warnings(record=True) as w:
            warnings.simplefilter("always")
            try:
                info = analyze_with_blocks(fn_code)
            except Exception as e:
                self._probs.append(f"analyze_with_blocks raised {type(e).__name__}: {e} on a `{kw}` in `{where}` ({case['nconst']} constants first)")
                return "raised"
        ctxs = list(info.values())
        if len(ctxs) != copies:
            self._probs.append(f"`{kw}` in `{where}`: {len(ctxs)} with-blocks found, the compiler emitted {copies} copies")
        for c in ctxs:
            if c.start_line != with_line:
                self._probs.append(f"`{kw}` in `{where}`: start_line {c.start_line}, the with keyword is on line {with_line}")
            if (c.varname is None) != (tgt is None) or (tgt is not None and norm_ast(c.varname) != norm_ast(tgt)):
                self._probs.append(f"`{kw}` in `{where}` ({case['nconst']} constants first): varname {c.varname!r}, the source says {tgt!r}")
        if w:
            self._probs.append(f"warning {w[0].message}")
        return f"placed copies={len(ctxs)}"

    def run_dyn(self, case):
        """Every context reported on a live frame of a generated program carries the `as` target its with item has in the
        source (None for an item without one) and the line of that with statement — whether the manager is active or exiting."""
        import sys as _sys

        import stackscope

        from .. import progs

        if "corpus" in case:
            case = dict(case)
            case["kind"], src = progs.CORPUS[case["corpus"]]
        else:
            src = progs.gen_program(random.Random(case["pseed"]), case["kind"], case["depth"], probes=True)
        lines = src.splitlines()
        # the with / async with statements of the source by the line of their keyword, with the source text of their items
        with_items: Dict[int, List[str]] = {}
        for node in ast.walk(ast.parse(src)):
            if isinstance(node, (ast.With, ast.AsyncWith)):
                with_items[node.lineno] = [ast.get_source_segment(src, it.context_expr) or "" for it in node.items]
        probs: List[str] = []
        seen = [0]

        def obs(w, label):
            try:
                if w.kind != "sync" and label == "suspended":
                    st = stackscope.extract(w.target)
                    fr = [f for f in st.frames if f.pyframe is w.frame]
                else:
                    f = _sys._getframe(1)
                    while f is not None and f.f_code.co_name != "prog":
                        f = f.f_back
                    if f is None:
                        return
                    st = stackscope.extract(stackscope.StackSlice(outer=f))
                    fr = st.frames[:1]
                if not fr:
                    return
                tof = getattr(w, "target_of", {})
                for c in fr[0].contexts:
                    if c.obj is None or id(c.obj) not in tof or type(c.obj).__name__ not in ("Mgr", "AMgr"):
                        continue
                    seen[0] += 1
                    want = tof[id(c.obj)]
                    if c.varname != want:
                        probs.append(f"{label}: context of manager with target {want!r} (exiting={c.is_exiting}) reports varname {c.varname!r}")
                    if c.start_line is None or c.start_line not in with_items:
                        probs.append(f"{label}: start_line {c.start_line} is not the line of the with / async with keyword of a statement")
                    elif not any(it.startswith(f"W.T({want!r}, ") for it in with_items[c.start_line]):
                        probs.append(f"{label}: start_line {c.start_line} is the line of another with statement "
                                     f"({lines[c.start_line - 1].strip()[:60]!r}), not the one holding the target {want!r}")
            except Exception as e:
                probs.append(f"{label}: {type(e).__name__}: {e}")

        with warnings.catch_warnings(record=True):
            warnings.simplefilter("always")
            import contextlib as _cl
            import io as _io
            with _cl.redirect_stderr(_io.StringIO()):
                progs.run_program(src, case["kind"], case["choices"], obs)
        self._probs = probs
        self._dyn_seen = seen[0]
        return f"contexts={seen[0]} bad={len(probs)}"

    @staticmethod
    def is_supported(target: str) -> bool:
        """Within the documented grammar: names, attributes, subscripts by constants/names, positional calls, unpacking."""
        try:
            t = ast.parse(target, mode="eval").body
        except SyntaxError:
            return False

        def ok(n) -> bool:
            if isinstance(n, ast.Name):
                return True
            if isinstance(n, ast.Attribute):
                return ok(n.value)
            if isinstance(n, ast.Subscript):
                return ok(n.value) and (isinstance(n.slice, ast.Name) or
                                        (isinstance(n.slice, ast.Constant) and isinstance(n.slice.value, (int, str)) and
                                         not (isinstance(n.slice.value, int) and n.slice.value < 0)))
            if isinstance(n, ast.Call):
                return ok(n.func) and not n.keywords and all(ok(a) for a in n.args)
            if isinstance(n, (ast.Tuple, ast.List)):
                return all(ok(e.value if isinstance(e, ast.Starred) else e) for e in n.elts)
            return False

        return ok(t)

    @staticmethod
    def store_index(insns, bidx) -> int:
        """Index of the first store instruction of the item whose BEFORE_*WITH is at bidx (independent re-derivation:
        the first instruction after the enter sequence, i.e. the first one covered by the with's own table entry)."""
        i = bidx + 1
        if insns[bidx].opname == "BEFORE_ASYNC_WITH":
            # GET_AWAITABLE 1, LOAD_CONST None, SEND, YIELD_VALUE, RESUME, JUMP_BACKWARD_NO_INTERRUPT, [CLEANUP_THROW], END_SEND
            while insns[i].opname != "END_SEND":
                i += 1
            i += 1
        if insns[i].opname == "NOP":
            i += 1
        return i

    def run_file(self, path):
        from stackscope.lowlevel import analyze_with_blocks

        try:
            src = open(path, "rb").read()
            tree = ast.parse(src)
            code = compile(src, path, "exec")
        except Exception as e:
            return f"unparseable {type(e).__name__}"
        # all with items by (line of with keyword) -> list of targets (normalised)
        items: Dict[int, List[Optional[str]]] = {}
        for n in ast.walk(tree):
            if isinstance(n, (ast.With, ast.AsyncWith)):
                for it in n.items:
                    tgt = None if it.optional_vars is None else ast.unparse(it.optional_vars)
                    items.setdefault(n.lineno, []).append(tgt)
        total = bad = 0
        todo = [code]
        while todo:
            co = todo.pop()
            todo += [c for c in co.co_consts if isinstance(c, types.CodeType)]
            with warnings.catch_warnings(record=True):
                warnings.simplefilter("always")
                try:
                    info = analyze_with_blocks(co)
                except Exception as e:
                    self._probs.append(f"{path}:{co.co_name}: analyze_with_blocks raised {type(e).__name__}: {e}")
                    continue
            for ctx in info.values():
                total += 1
                cands = items.get(ctx.start_line)
                if cands is None:
                    self._probs.append(f"{path}:{co.co_name}: start_line {ctx.start_line} is not the line of any with statement")
                    bad += 1
                    continue
                if ctx.varname is not None:
                    got = norm_ast(ctx.varname)
                    if got not in [norm_ast(c) for c in cands if c is not None]:
                        self._probs.append(f"{path}:{ctx.start_line}: varname {ctx.varname!r} is none of the statement's targets {cands}")
                        bad += 1
                else:
                    sup = [c for c in cands if c is not None and self.is_supported(c)]
                    if sup and len([c for c in cands if c is None or not self.is_supported(c)]) == 0 and len(cands) == 1:
                        self._probs.append(f"{path}:{ctx.start_line}: supported target `{cands[0]}` was dropped")
                        bad += 1
        return f"with-blocks={total} bad={bad}"

    def model_lines(self, case):
        if case["k"] != "gen" or case.get("_skip") or "_insns" not in case:
            return None
        return [json.dumps({"p": "C08", **rows}) if isinstance(rows, dict) else json.dumps({"p": "C08", "insns": rows}) for rows in case["_insns"]]

    def model_line(self, case):
        return None

    def canon(self, case, real):
        return real

    def oracle(self, case, real):
        return self._oracles.get(id(case))

    def nontrivial_key(self, case, real):
        if case["k"] == "gen" and any(t is not None and t not in NAMES for _, t in case["items"]):
            return json.dumps(case["items"])
        if case["k"] == "file" and isinstance(real, str) and not real.startswith("with-blocks=0"):
            return case["path"]
        if case["k"] == "placed":
            return json.dumps({k: v for k, v in case.items() if not k.startswith("_")}, sort_keys=True)
        if case["k"] == "dyn" and isinstance(real, str) and not real.startswith("contexts=0 "):
            return json.dumps({k: v for k, v in case.items() if not k.startswith("_")}, sort_keys=True)
        return None

    def stats(self, cases, reals):
        d = {"generated": 0, "files": 0, "stdlib_with_blocks": 0, "items": 0, "rendered": 0, "none": 0, "unsupported_items": 0,
             "compiler_model_compared": sum(sum(isinstance(r, dict) for r in c.get("_insns", [])) for c in cases)}
        for c, r in zip(cases, reals):
            if c["k"] == "gen":
                d["generated"] += 1
                d["items"] += len(c["items"])
                d["unsupported_items"] += sum(1 for _, t in c["items"] if t in UNSUPPORTED)
                if isinstance(r, str):
                    d["rendered"] += r.count("S:")
                    d["none"] += r.count("None")
            elif c["k"] == "dyn":
                d["dynamic_programs"] = d.get("dynamic_programs", 0) + 1
                if isinstance(r, str) and r.startswith("contexts="):
                    d["dynamic_contexts_judged"] = d.get("dynamic_contexts_judged", 0) + int(r.split("=")[1].split()[0])
            else:
                d["files"] += 1
                if isinstance(r, str) and r.startswith("with-blocks="):
                    d["stdlib_with_blocks"] += int(r.split("=")[1].split()[0])
        return d


def stdlib_files() -> List[str]:
    root = sysconfig.get_paths()["stdlib"]
    out = []
    for dp, dn, fn in os.walk(root):
        if "site-packages" in dp or "/test" in dp or "lib2to3" in dp or "idlelib" in dp:
            continue
        for f in fn:
            if f.endswith(".py"):
                out.append(os.path.join(dp, f))
    return sorted(out)


_orig = C08.run_real


def _run(self, case):
    if not hasattr(self, "_oracles"):
        self._oracles = {}
    r = _orig(self, case)
    self._oracles[id(case)] = "; ".join(self._probs[:3])[:900] if self._probs else None
    return r


C08.run_real = _run  # type: ignore[assignment]
CHECK = C08()
