"""The C03 program space: suspended await / yield-from chains built from every link kind.

A chain spec is {"root": ROOT, "links": [LINK...], "end": END}.  `build(spec)` creates the real objects,
advances the root to its (first) suspension point and returns a `Chain` holding the root `x`, the list
of frame-owning objects in creation order, and what the *interpreter* says the chain is (cr_await /
gi_yieldfrom / ag_await links are CPython facts, read here only to build the expected env for the
Lean model — never by asking stackscope).
"""
from __future__ import annotations

import random
import types
from typing import Any, List, Optional

ROOTS = ["coro", "coro", "coro", "agen", "gen", "agen_thrown"]
CORO_LINKS = ["await_coro", "await_gencoro", "await_wrapper", "await_gen", "agen_anext", "agen_asend", "agen_asend_agen", "with_del_self", "agen_athrow",
              "agen_aclose", "async_for", "agen_anext_default", "aiter_anext_default", "aiter_anext_default_gen", "with_static_exit", "tbhide_predicate", "await_proxy_gen", "agen_asend_obj"]
GEN_LINKS = ["yield_from"]
ENDS = ["trap", "future", "future_falsy", "future_len0", "gen_proto", "duck_gen", "coro_proto"]


class Probe(Exception):
    pass


class Probe2(Exception):
    pass


class FutureLike:
    """An awaitable whose __await__ returns a plain iterator (a non-frame leaf)."""

    def __await__(self):
        return self

    def __iter__(self):
        return self

    def __next__(self):
        return self          # "yield self" of a Future: suspends the awaiting chain


LEAF_EVENTS: List[str] = []      # calls of the leaf objects' own methods that an observer has no business making


class FalsyFuture(FutureLike):
    """e.g. an un-set event-like awaitable with __bool__."""

    def __bool__(self):
        LEAF_EVENTS.append("bool")
        return False


class EmptySizedFuture(FutureLike):
    """a sized iterator whose length has reached 0 (a lazy source that is drained in order to be counted)."""

    def __len__(self):
        LEAF_EVENTS.append("len")
        return 0


def _leaf_throw(self, *a):
    """throw() of a hand-written leaf: raises what it is given, at the leaf (this frame is the leaf's own, not the chain's)."""
    exc = a[0]
    raise exc if isinstance(exc, BaseException) else (a[1] if len(a) > 1 and a[1] is not None else exc())


import collections.abc as _abc


class GenProtoFuture(_abc.Generator):
    """A trap written by hand against the generator protocol (a trampoline's own suspension object): derives from the ABC."""

    def __await__(self):
        return self

    def send(self, value):
        return self

    throw = _leaf_throw


class DuckGenFuture(FutureLike):
    """The same without the ABC: merely has send / throw / close next to __iter__ / __next__ (matches it structurally)."""

    def send(self, value):
        return self

    throw = _leaf_throw

    def close(self):
        return None


class CoroProtoFuture:
    """An awaitable that also has send / throw / close (matches collections.abc.Coroutine structurally); __await__ hands out a
    plain iterator."""

    def __await__(self):
        return self

    def __iter__(self):
        return self

    def __next__(self):
        return self

    def send(self, value):
        return self

    throw = _leaf_throw

    def close(self):
        return None


_LOOP: List[Any] = []


def AsyncioFuture():
    """A pending asyncio.Future (what code awaiting under asyncio is ultimately suspended on: its C iterator ends the chain)."""
    import asyncio

    if not _LOOP:
        _LOOP.append(asyncio.new_event_loop())
    return _LOOP[0].create_future()


END_CLASSES = {"asyncio_future": AsyncioFuture, "future": FutureLike, "future_falsy": FalsyFuture, "future_len0": EmptySizedFuture,
               "gen_proto": GenProtoFuture, "duck_gen": DuckGenFuture, "coro_proto": CoroProtoFuture}


def rand_links(rng: random.Random, n: int, root: str = "coro") -> List[str]:
    return [rng.choice(CORO_LINKS) for _ in range(n)]


class Chain:
    def __init__(self):
        self.owners: List[Any] = []      # coroutine / generator / async generator objects, creation order
        self.keep: List[Any] = []
        self.x: Any = None
        self.driver: Any = None          # what to .send()/.throw() into (x itself, or the in-flight asend)
        self.leaf: Any = None

    def reg(self, o):
        self.owners.append(o)
        return o


def _it(a):
    """What `await a` iterates: a.__await__() for awaitable objects and native coroutines, the generator itself for
    generator-based coroutines."""
    if isinstance(a, types.GeneratorType):
        return a
    return a.__await__()


@types.coroutine
def trap():
    yield "trap"


def build(spec: dict) -> Chain:
    ch = Chain()
    root, links, end = spec["root"], list(spec["links"]), spec["end"]
    two = spec.get("two_points", False)

    if root == "gen":
        # generator world: yield-from chain ending in a bare yield or a plain iterator
        def gen_at(i):
            if i == len(links):
                if end == "trap":
                    def last():
                        yield "trap"
                        if two:
                            yield "trap2"
                    return ch.reg(last())
                leaf = END_CLASSES[end]()
                ch.leaf = leaf

                def last2():
                    yield from leaf
                return ch.reg(last2())

            def g():
                yield from gen_at(i + 1)
                if two:
                    yield "again"
            return ch.reg(g())

        x = gen_at(0)
        ch.x = ch.driver = x
        next(x)
        return ch

    def end_awaitable():
        if end == "trap":
            return ch.reg(trap())
        leaf = END_CLASSES[end]()
        ch.leaf = leaf
        return leaf

    def aw(i):
        if i == len(links):
            return end_awaitable()
        k = links[i]

        async def tail():
            if two:
                await ch.reg(trap())

        if k == "await_coro":
            async def f():
                await aw(i + 1)
                await tail()
            return ch.reg(f())
        if k == "await_gencoro":
            @types.coroutine
            def f():
                yield from _it(aw(i + 1))
            return ch.reg(f())
        if k == "await_wrapper":
            async def inner():
                await aw(i + 1)
                await tail()

            class AwW:
                def __await__(self_):
                    c = ch.reg(inner())
                    w = c.__await__()
                    ch.keep.append(w)
                    return w
            return AwW()
        if k == "await_gen":
            def g():
                yield from _it(aw(i + 1))

            class AwG:
                def __await__(self_):
                    return ch.reg(g())
            return AwG()
        if k in ("agen_anext", "async_for"):
            async def ag():
                await aw(i + 1)
                yield 1

            async def f():
                a = ch.reg(ag())
                ch.keep.append(a)
                if k == "agen_anext":
                    await a.__anext__()
                else:
                    async for _ in a:
                        pass
                await tail()
            return ch.reg(f())
        if k == "agen_anext_default":
            # the two-argument builtin anext(): a builtin anext_awaitable wraps the asend awaitable
            async def ag():
                await aw(i + 1)
                yield 1

            async def f():
                a = ch.reg(ag())
                ch.keep.append(a)
                await anext(a, None)
                await tail()
            return ch.reg(f())
        if k == "aiter_anext_default":
            # the same over a class-based async iterator: the wrapper holds the __anext__ coroutine
            class AIter:
                def __aiter__(s):
                    return s

                def __anext__(s):
                    return ch.reg(s.step())

                async def step(s):
                    await aw(i + 1)
                    return 1

            async def f():
                a = AIter()
                ch.keep.append(a)
                await anext(a, None)
                await tail()
            return ch.reg(f())
        if k == "aiter_anext_default_gen":
            # ... whose __anext__ is a generator-based coroutine (types.coroutine): the wrapper holds a generator
            class AIterG:
                def __aiter__(s):
                    return s

                def __anext__(s):
                    return ch.reg(s.step())

                @types.coroutine
                def step(s):
                    x = aw(i + 1)
                    yield from (x.__await__() if hasattr(x, "__await__") else x)
                    return 1

            async def f():
                a = AIterG()
                ch.keep.append(a)
                await anext(a, None)
                await tail()
            return ch.reg(f())
        if k == "agen_asend":
            async def ag():
                v = yield 0
                await aw(i + 1)
                yield v

            async def f():
                a = ch.reg(ag())
                ch.keep.append(a)
                await a.asend(None)
                await a.asend(5)
                await tail()
            return ch.reg(f())
        if k == "agen_asend_obj":
            # the value sent in is an object of the program with a __getattr__ of its own (a lazy record, an RPC stub): the
            # asend awaitable refers to it, but nobody looking for the generator has any business asking it for attributes
            class Lazy:
                def __getattr__(self_, name):
                    LEAF_EVENTS.append("getattr:" + name)
                    raise AttributeError(name)

            async def ag():
                v = yield 0
                await aw(i + 1)
                yield v

            async def f():
                a = ch.reg(ag())
                ch.keep.append(a)
                await a.asend(None)
                await a.asend(Lazy())
                await tail()
            return ch.reg(f())
        if k == "agen_asend_agen":
            # the value sent is itself an async generator (a pipeline stage handed a stream): the asend awaitable then
            # refers to two objects with an ag_frame, the driven generator first
            async def stream():
                yield 1

            async def ag():
                v = yield 0
                await aw(i + 1)
                yield v

            async def f():
                a = ch.reg(ag())
                ch.keep.append(a)
                s = stream()
                ch.keep.append(s)
                await a.asend(None)
                await a.asend(s)
                await tail()
            return ch.reg(f())
        if k == "with_del_self":
            # the chain passes through the __aexit__ of an async with whose exit method has dropped its own `self`: the name of
            # the exiting manager cannot be read back from that frame (a contained error with contexts on; same frames)
            class Drops:
                async def __aenter__(s):
                    return s

                async def __aexit__(s, *a):
                    del s
                    await aw(i + 1)
                    await tail()

            async def f():
                async with Drops():
                    pass
            return ch.reg(f())
        if k == "tbhide_predicate":
            # pytest's convention: __tracebackhide__ set to a predicate that expects the ExceptionInfo being reported (the idiom
            # from its documentation).  Whether a frame is shown is one thing; the frames of the chain are another.
            import operator

            async def f():
                __tracebackhide__ = operator.methodcaller("errisinstance", KeyError)
                await aw(i + 1)
                await tail()
            return ch.reg(f())
        if k == "await_proxy_gen":
            # an awaitable that owns its generator and hands out a weak proxy to it: a transparent proxy, through which the
            # generator's frame and what it waits on are reachable like on the generator itself
            import weakref

            def g():
                yield from _it(aw(i + 1))

            class AwP:
                def __await__(self_):
                    self_.gen = ch.reg(g())
                    return weakref.proxy(self_.gen)

            o = AwP()
            ch.keep.append(o)
            return o
        if k == "with_static_exit":
            # the chain passes through the body of a `with` whose manager's __exit__ is a staticmethod: the bytecode analysis of that
            # frame fails (known finding F34) and says so with an InspectionWarning -- which an application may have turned into an
            # error.  Either way only that frame's context information is affected, never the frames.
            class Static:
                def __enter__(s):
                    return s

                @staticmethod
                def __exit__(*a):
                    return False

            async def f():
                with Static():
                    await aw(i + 1)
                await tail()
            return ch.reg(f())
        if k == "agen_athrow":
            async def ag():
                try:
                    yield 0
                except Probe2:
                    await aw(i + 1)
                    yield 1

            async def f():
                a = ch.reg(ag())
                ch.keep.append(a)
                await a.asend(None)
                await a.athrow(Probe2())
                await tail()
            return ch.reg(f())
        if k == "agen_aclose":
            async def ag():
                try:
                    yield 0
                finally:
                    await aw(i + 1)

            async def f():
                a = ch.reg(ag())
                ch.keep.append(a)
                await a.asend(None)
                await a.aclose()
                await tail()
            return ch.reg(f())
        raise ValueError(k)

    if root == "coro":
        async def rootf():
            await aw(0)
            if two:
                await ch.reg(trap())
        x = ch.reg(rootf())
        ch.x = ch.driver = x
        x.send(None)
        return ch
    if root == "agen":
        async def roota():
            await aw(0)
            yield 1
        x = ch.reg(roota())
        ch.x = x
        ch.driver = x.asend(None)
        ch.driver.send(None)
        return ch
    if root == "agen_thrown":
        # an async generator parked at a yield inside try/finally; a fresh __anext__ awaitable is thrown into before its first
        # send (what a cancelled-before-its-first-step asyncio task does): the finally clause awaits the rest of the chain.
        # On CPython 3.12 ag_running is False here although the generator is blocked in an await.
        async def roota():
            try:
                yield 0
            finally:
                await aw(0)
        x = ch.reg(roota())
        ch.x = x
        d0 = x.asend(None)
        try:
            d0.send(None)
        except StopIteration:
            pass
        d = x.__anext__()
        ch.driver = d
        d.throw(Probe2())
        return ch
    raise ValueError(root)


def frame_of(o):
    for a in ("cr_frame", "gi_frame", "ag_frame"):
        f = getattr(o, a, None)
        if f is not None:
            return f
    return None


def awaited_of(o):
    for a in ("cr_await", "gi_yieldfrom", "ag_await"):
        if hasattr(o, a):
            return getattr(o, a)
    return None


def throw_path(ch: Chain):
    """Throw Probe into the chain and return [(frame object, lineno)] of the frames it unwound through,
    outermost first (the harness's own frame removed)."""
    try:
        ch.driver.throw(Probe())
    except Probe as e:
        tb = e.__traceback__
        out = []
        while tb is not None:
            if tb.tb_frame.f_code is not _leaf_throw.__code__:      # (the hand-written leaf's own throw method)
                out.append((tb.tb_frame, tb.tb_lineno))
            tb = tb.tb_next
        return out[1:]
    except BaseException as e:  # the chain swallowed or transformed the probe: not a usable oracle
        return None
    return None


def close(ch: Chain):
    for o in reversed(ch.owners):
        try:
            o.close() if hasattr(o, "close") else None
        except BaseException:
            pass


class Leaf:
    """An irreducible stack item."""

    def __init__(self, name):
        self.name = name

    def __repr__(self):
        return f"<{self.name}>"


def run_origin_case(case: dict) -> dict:
    """For C16: origins along a suspended chain."""
    import stackscope
    from .props.c16 import origin_oracle, outermost_oracle, suspended_origin_oracle

    ch = build(case)
    problems = []
    try:
        if case.get("hook") and frame_of(ch.x) is not None:
            # the root frame's elaborate_frame hook hands back next_inner (documented as equivalent to None), alone or after an
            # extra item: everything behind it moves back to the unwrap queue
            extra = Leaf("extra")
            hook_kind = case["hook"]
            stackscope.elaborate_frame.register(frame_of(ch.x).f_code)(
                lambda frame, nxt: nxt if hook_kind == "next" else (extra, nxt))
        st = stackscope.extract(ch.x)
        if case.get("long") and st.error is not None:
            problems.append(f"chain of {len(case['links'])} links: error {st.error!r} ({len(st.frames)} frames)")
        owners = {id(frame_of(o)): o for o in ch.owners if frame_of(o) is not None}
        for f in (origin_oracle(st, "chain: "), suspended_origin_oracle(st, owners, "chain: "), outermost_oracle(ch.x)):
            if f:
                problems.append(f)
        return {"problems": problems, "frames": len(st.frames), "with_origin": sum(f.origin is not None for f in st.frames)}
    finally:
        close(ch)
