"""Regenerate lean/SSModel/Gen/*.lean from /repo's source on every run.

This is the small translator of DESIGN §2.3: it parses stackscope's source with `ast` and writes the
literals the theorems depend on (loop guards, retry counts, the marker table of the formatter, PRUNE,
skip counts of the bytecode matcher) as Lean definitions.  Theorems are stated over these generated
names, so `lake build` re-checks them against what the source says now.  A literal that can no longer
be found where it is expected is reported as a problem (= broken correspondence), never defaulted.
"""
from __future__ import annotations

import ast
from pathlib import Path
from typing import Any, Dict, List, Optional, Tuple


def _func(tree: ast.AST, *path: str) -> Optional[ast.AST]:
    node: Any = tree
    for name in path:
        found = None
        for ch in ast.walk(node):
            # the last definition wins (typing.overload stubs come first)
            if isinstance(ch, (ast.FunctionDef, ast.AsyncFunctionDef, ast.ClassDef)) and ch.name == name and ch is not node:
                if found is None or ch.lineno > found.lineno:
                    found = ch
        if found is None:
            return None
        node = found
    return node


def _lean_str(s: str) -> str:
    return '"' + s.replace("\\", "\\\\").replace('"', '\\"').replace("\n", "\\n") + '"'


def _ifexp_marker(fn: ast.AST, var: str) -> Optional[Tuple[str, str]]:
    """`var = "<ascii>" if opts.ascii_only else "<unicode>"`  or  `var = "<both>"`."""
    for n in ast.walk(fn):
        if isinstance(n, ast.Assign) and len(n.targets) == 1 and isinstance(n.targets[0], ast.Name) and n.targets[0].id == var:
            v = n.value
            if isinstance(v, ast.IfExp) and isinstance(v.body, ast.Constant) and isinstance(v.orelse, ast.Constant) \
                    and isinstance(v.test, ast.Attribute) and v.test.attr == "ascii_only":
                return (v.body.value, v.orelse.value)
            if isinstance(v, ast.Constant) and isinstance(v.value, str):
                return (v.value, v.value)
    return None


def extract(repo: Path) -> Tuple[Dict[str, Any], List[str]]:
    problems: List[str] = []
    out: Dict[str, Any] = {}
    ss = repo / "stackscope"

    def parse(name: str) -> Optional[ast.AST]:
        try:
            return ast.parse((ss / name).read_text())
        except Exception as e:
            problems.append(f"cannot parse {name}: {e!r}")
            return None

    # ---- _extract.py: the two 100-step guards ----
    t = parse("_extract.py")
    if t is not None:
        fn = _func(t, "extract_iter")
        g = None
        if fn is not None:
            for n in ast.walk(fn):
                if isinstance(n, ast.Compare) and isinstance(n.left, ast.Name) and n.left.id == "loops_since_progress" \
                        and len(n.ops) == 1 and isinstance(n.ops[0], ast.Gt) and isinstance(n.comparators[0], ast.Constant):
                    g = n.comparators[0].value
        if isinstance(g, int):
            out["unwrapGuard"] = g
        else:
            problems.append("_extract.extract_iter: `loops_since_progress > <int>` not found")
        fn = _func(t, "fill_context")
        g = None
        if fn is not None:
            for n in ast.walk(fn):
                if isinstance(n, ast.For) and isinstance(n.iter, ast.Call) and getattr(n.iter.func, "id", None) == "range" \
                        and len(n.iter.args) == 1 and isinstance(n.iter.args[0], ast.Constant):
                    g = n.iter.args[0].value
        if isinstance(g, int):
            out["fillGuard"] = g
        else:
            problems.append("_extract.fill_context: `for _ in range(<int>)` not found")

    # ---- _lowlevel_cpython_311.py: snapshot retry count ----
    t = parse("_lowlevel_cpython_311.py")
    if t is not None:
        fn = _func(t, "inspect_frame")
        g = None
        if fn is not None:
            for n in fn.body:
                if isinstance(n, ast.For) and isinstance(n.iter, ast.Call) and getattr(n.iter.func, "id", None) == "range" \
                        and len(n.iter.args) == 1 and isinstance(n.iter.args[0], ast.Constant):
                    g = n.iter.args[0].value
        if isinstance(g, int):
            out["snapshotRetries"] = g
        else:
            problems.append("_lowlevel_cpython_311.inspect_frame: retry `for _ in range(<int>)` not found")

    # ---- _customization.py: PRUNE ----
    t = parse("_customization.py")
    if t is not None:
        ok = False
        for n in t.body:  # type: ignore[attr-defined]
            if isinstance(n, ast.Assign) and getattr(n.targets[0], "id", None) == "PRUNE":
                ok = isinstance(n.value, ast.Tuple) and len(n.value.elts) == 0
        out["pruneIsEmptyTuple"] = ok
        if not ok:
            problems.append("_customization.PRUNE is no longer the empty tuple")

    # ---- _customization.py: what customize() forwards in its decorator form, what customize_it sets ----
    if t is not None:
        fn = _func(t, "customize")
        fwd = set()
        sets = set()
        if fn is not None:
            for n in ast.walk(fn):
                if isinstance(n, ast.Call) and isinstance(n.func, ast.Attribute) and n.func.attr == "partial" \
                        and n.args and getattr(n.args[0], "id", None) == "customize":
                    for kw in n.keywords:
                        if isinstance(kw.value, ast.Name) and kw.value.id == kw.arg:
                            fwd.add(kw.arg)
            inner = _func(fn, "customize_it")
            if inner is not None:
                for n in ast.walk(inner):
                    # `if <opt>: frame.<attr> = True`
                    if isinstance(n, ast.If) and isinstance(n.test, ast.Name):
                        for b in n.body:
                            if isinstance(b, ast.Assign) and isinstance(b.targets[0], ast.Attribute) \
                                    and getattr(b.targets[0].value, "id", None) == "frame" \
                                    and isinstance(b.value, ast.Constant) and b.value.value is True:
                                sets.add((n.test.id, b.targets[0].attr))
            else:
                problems.append("_customization.customize: inner function customize_it not found")
        else:
            problems.append("_customization.customize not found")
        for opt, lean in (("hide", "fwdHide"), ("hide_line", "fwdHideLine"), ("prune", "fwdPrune"), ("elaborate", "fwdElaborate")):
            out[lean] = opt in fwd
        out["setsHide"] = ("hide", "hide") in sets
        out["setsHideLine"] = ("hide_line", "hide_line") in sets

    # ---- _lowlevel.py: skip counts of analyze_with_blocks ----
    t = parse("_lowlevel.py")
    if t is not None:
        fn = _func(t, "analyze_with_blocks")
        sk = None
        if fn is not None:
            for n in ast.walk(fn):
                if isinstance(n, ast.Assign) and getattr(n.targets[0], "id", None) == "skip_insns" \
                        and isinstance(n.value, ast.IfExp) and isinstance(n.value.body, ast.Constant) and isinstance(n.value.orelse, ast.Constant):
                    sk = (n.value.body.value, n.value.orelse.value)
        if sk:
            out["skipAsync"], out["skipSync"] = sk
        else:
            problems.append("_lowlevel.analyze_with_blocks: `skip_insns = <a> if is_async else <b>` not found")
        # how often _check_trickery_available reads the module-level setting before it takes the lock (its fast path)
        fn = _func(t, "_check_trickery_available")
        if fn is None:
            problems.append("_lowlevel._check_trickery_available not found")
        else:
            reads = 0
            seen_lock = False
            for stmt in fn.body:
                if isinstance(stmt, ast.With):
                    seen_lock = True
                    break
                reads += sum(1 for n in ast.walk(stmt) if isinstance(n, ast.Name) and n.id == "_can_use_trickery" and isinstance(n.ctx, ast.Load))
            if not seen_lock:
                problems.append("_lowlevel._check_trickery_available: no `with _trickery_lock:` statement found")
            out["trickeryFastPathReads"] = reads

    # ---- _lowlevel_cpython_311.py: where the value stack starts (number of localsplus slots) ----
    t311 = parse("_lowlevel_cpython_311.py")
    if t311 is not None:
        fn = _func(t311, "inspect_frame")
        expr = None
        if fn is not None:
            for n in ast.walk(fn):
                if isinstance(n, ast.Assign) and getattr(n.targets[0], "id", None) == "stack_start_offset":
                    v = n.value
                    # localsplus_offset + wordsize * (<number of slots>)
                    if isinstance(v, ast.BinOp) and isinstance(v.op, ast.Add) and isinstance(v.right, ast.BinOp) and isinstance(v.right.op, ast.Mult):
                        expr = ast.unparse(v.right.right)
                    else:
                        expr = "?: " + ast.unparse(v)
        if expr is None:
            problems.append("_lowlevel_cpython_311.inspect_frame: `stack_start_offset = localsplus_offset + wordsize * (...)` not found")
        else:
            out["nlocalsplusExpr"] = expr

    # ---- _types.py: the marker table ----
    t = parse("_types.py")
    if t is not None:
        table = [
            ("Stack", "_format", "start_frame", "startFrame"),
            ("Stack", "_format", "continue_frame", "continueFrame"),
            ("Stack", "_format", "start_leaf", "startLeaf"),
            ("Frame", "_format", "start_context", "startContext"),
            ("Frame", "_format", "continue_context", "continueContext"),
            ("Frame", "_format", "start_child_context", "startChildContext"),
            ("Frame", "_format", "child_context_indicator", "childContextIndicator"),
            ("Frame", "_format", "start_code", "startCode"),
            ("Context", "_format", "start_child", "startChild"),
            ("Context", "_format", "continue_child", "continueChild"),
        ]
        for cls, meth, var, lean in table:
            fn = _func(t, cls, meth)
            m = _ifexp_marker(fn, var) if fn is not None else None
            if m is None:
                problems.append(f"_types.{cls}.{meth}: marker `{var}` not found")
            else:
                out[lean + "A"], out[lean + "U"] = m
    # ---- _extract.py: what each entry point passes to current_options.push(), and how push restores (C13, C16) ----
    t = parse("_extract.py")
    push_fwd: List[str] = []
    wrapper_fwd: List[str] = []
    if t is not None:
        for fname in ("extract", "extract_outermost", "fill_context"):
            fn = _func(t, fname)
            found = False
            if fn is not None:
                for n in ast.walk(fn):
                    if isinstance(n, ast.Call) and isinstance(n.func, ast.Attribute) and n.func.attr == "push" \
                            and isinstance(n.func.value, ast.Name) and n.func.value.id == "current_options":
                        found = True
                        for kw in sorted(n.keywords, key=lambda k: k.arg or ""):
                            push_fwd.append(f"{fname}:{kw.arg}={ast.unparse(kw.value)}")
            if not found:
                problems.append(f"_extract.{fname}: current_options.push(...) call not found")
        # the shape of ExtractOptions.push: the restore must sit in a `finally`
        push = _func(t, "ExtractOptions", "push")
        shape = "missing"
        if push is not None:
            tries = [n for n in ast.walk(push) if isinstance(n, ast.Try)]
            if len(tries) == 1 and tries[0].finalbody and not tries[0].handlers and \
                    any(isinstance(x, ast.Assign) for x in tries[0].finalbody) and \
                    any(isinstance(x, ast.Expr) and isinstance(x.value, ast.Yield) for x in tries[0].body):
                shape = "try-yield-finally-restore"
            elif tries:
                shape = "try-with-handlers" if any(tr.handlers for tr in tries) else "other-try"
            else:
                shape = "no-try"
        out["pushShape"] = shape
        # the convenience spellings: what each `extract(...)` call inside extract_since / extract_until hands on
        for fname in ("extract_since", "extract_until"):
            fn = _func(t, fname)
            if fn is None:
                problems.append(f"_extract.{fname} not found")
                continue
            dicts = {}
            for n in ast.walk(fn):
                if isinstance(n, ast.Assign) and len(n.targets) == 1 and isinstance(n.targets[0], ast.Name) and isinstance(n.value, ast.Dict):
                    if all(isinstance(k, ast.Constant) for k in n.value.keys):
                        dicts[n.targets[0].id] = {k.value: ast.unparse(v) for k, v in zip(n.value.keys, n.value.values)}
            calls = [n for n in ast.walk(fn) if isinstance(n, ast.Call) and isinstance(n.func, ast.Name) and n.func.id == "extract"]
            calls.sort(key=lambda n: (n.lineno, n.col_offset))
            if not calls:
                problems.append(f"_extract.{fname}: no call of extract(...)")
            for n in calls:
                fwd = {}
                for kw in n.keywords:
                    if kw.arg is None:
                        if isinstance(kw.value, ast.Name) and kw.value.id in dicts:
                            fwd.update(dicts[kw.value.id])
                        else:
                            fwd["**"] = ast.unparse(kw.value)
                    else:
                        fwd[kw.arg] = ast.unparse(kw.value)
                wrapper_fwd.append(fname + ":" + ",".join(f"{k}={v}" for k, v in sorted(fwd.items())))
    out["pushForward"] = push_fwd
    out["wrapperForward"] = wrapper_fwd
    if t is not None:
        # where the options live: a per-thread object
        cls = next((n for n in t.body if isinstance(n, ast.ClassDef) and n.name == "ExtractOptions"), None)
        if cls is None:
            problems.append("_extract.ExtractOptions not found")
        else:
            out["optionsBases"] = [ast.unparse(b) for b in cls.bases]
            inst = [ast.unparse(n.value) for n in t.body if isinstance(n, ast.Assign) and getattr(n.targets[0], "id", None) == "current_options"]
            out["optionsInstance"] = inst[0] if inst else "?"
        # which object becomes Frame.origin
        bo = _func(t, "better_origin")
        if bo is None:
            problems.append("_extract.better_origin not found")
        else:
            tl = [ast.unparse(n.value) for n in ast.walk(bo) if isinstance(n, ast.Assign) and getattr(n.targets[0], "id", None) == "typelist"]
            conds = [ast.unparse(n.test) for n in ast.walk(bo) if isinstance(n, ast.If)]
            out["betterOriginTypes"] = tl[0] if tl else "?"
            out["betterOriginCond"] = conds[0] if conds else "?"

    # ---- whole package: census of state that outlives a call (C06) ----
    census: List[str] = []
    CONTAINER_CALLS = {"dict", "set", "list", "IdentityDict", "WeakKeyDictionary", "WeakValueDictionary", "WeakSet", "defaultdict",
                       "OrderedDict", "deque", "Counter", "ChainMap", "frozenset"}
    CACHE_DECOS = {"lru_cache", "cache", "cached_property"}

    def _callee(v: ast.AST) -> str:
        f = v.func if isinstance(v, ast.Call) else v
        return f.attr if isinstance(f, ast.Attribute) else getattr(f, "id", "")

    def _is_container(v: Optional[ast.AST]) -> Optional[str]:
        if isinstance(v, (ast.Dict, ast.DictComp)):
            return "dict"
        if isinstance(v, (ast.Set, ast.SetComp)):
            return "set"
        if isinstance(v, (ast.List, ast.ListComp)):
            return "list"
        if isinstance(v, ast.Call) and _callee(v) in CONTAINER_CALLS and _callee(v) != "frozenset":
            return _callee(v)
        return None

    for path in sorted(ss.glob("*.py")):
        mod = path.stem
        try:
            tree = ast.parse(path.read_text())
        except Exception as e:
            problems.append(f"cannot parse {path.name}: {e!r}")
            continue

        def scan_body(body, prefix):
            for n in body:
                tgts, v = [], None
                if isinstance(n, ast.Assign):
                    tgts, v = [ast.unparse(x) for x in n.targets], n.value
                elif isinstance(n, ast.AnnAssign) and n.value is not None:
                    tgts, v = [ast.unparse(n.target)], n.value
                kind = _is_container(v)
                if kind:
                    for tname in tgts:
                        if tname not in ("__all__", "_fields_"):
                            census.append(f"{prefix}{tname}:{kind}")
                if isinstance(n, ast.ClassDef):
                    scan_body(n.body, prefix + n.name + ".")
                if isinstance(n, (ast.If, ast.Try)):
                    for sub in ([n.body, n.orelse] + ([h.body for h in n.handlers] + [n.finalbody] if isinstance(n, ast.Try) else [])):
                        scan_body(sub, prefix)

        scan_body(tree.body, mod + ".")  # type: ignore[attr-defined]
        for n in ast.walk(tree):
            if isinstance(n, (ast.FunctionDef, ast.AsyncFunctionDef)):
                for d in n.decorator_list:
                    if _callee(d) in CACHE_DECOS:
                        census.append(f"{mod}.{n.name}:{_callee(d)}")
                    if _callee(d) in ("singledispatch", "code_dispatch") and n in tree.body:  # type: ignore[attr-defined]
                        census.append(f"{mod}.{n.name}:registry")
                a = n.args
                for arg, dflt in list(zip(a.args[len(a.args) - len(a.defaults):], a.defaults)) + \
                        [(k, d) for k, d in zip(a.kwonlyargs, a.kw_defaults) if d is not None]:
                    kind = _is_container(dflt)
                    if kind:
                        census.append(f"{mod}.{n.name}({arg.arg}):{kind}-default")
            if isinstance(n, (ast.Global, ast.Nonlocal)) and isinstance(n, ast.Global):
                for name in n.names:
                    census.append(f"{mod}.{name}:global")
            # stores into attributes of functions / modules (`fn.cache = ...`) at any level
            if isinstance(n, ast.Call) and _callee(n) in ("setdefault",) and isinstance(n.func, ast.Attribute) \
                    and isinstance(n.func.value, ast.Attribute) and n.func.value.attr == "__dict__":
                census.append(f"{mod}.__dict__.setdefault")
    out["stateCensus"] = sorted(set(census))

    # ---- _glue.py: what is done with the throw-away async generator / coroutine used for type discovery ----
    t = parse("_glue.py")
    helper_ops: List[str] = []
    if t is not None:
        # unwrap_thread: the test that decides "this is the calling thread" (answered with a slice ending at the caller)
        ut = next((n for n in ast.walk(t) if isinstance(n, ast.FunctionDef) and n.name == "unwrap_thread"), None)
        first_if = next((st for st in (ut.body if ut else []) if isinstance(st, ast.If)), None)
        if first_if is None:
            problems.append("_glue.unwrap_thread: no leading `if` (the calling-thread test) found")
        else:
            out["unwrapThreadShortcut"] = ast.unparse(first_if.test)
        host = None
        for n in ast.walk(t):
            if isinstance(n, (ast.FunctionDef, ast.AsyncFunctionDef)) and any(
                    isinstance(c, ast.AsyncFunctionDef) and c.name == "some_asyncgen" for c in n.body):
                host = n
        if host is None:
            problems.append("_glue: the function defining some_asyncgen() not found")
        else:
            created: Dict[str, str] = {}

            def ops_of(stmt: ast.AST, caught: bool):
                for n in ast.walk(stmt):
                    if isinstance(n, ast.Assign) and isinstance(n.value, ast.Call) and isinstance(n.value.func, ast.Name) \
                            and n.value.func.id in ("some_asyncgen", "some_afn") and isinstance(n.targets[0], ast.Name):
                        created[n.targets[0].id] = n.value.func.id
                        helper_ops.append(("agen" if n.value.func.id == "some_asyncgen" else "coro") + ".create")
                calls = [n for n in ast.walk(stmt) if isinstance(n, ast.Call) and isinstance(n.func, ast.Attribute)]
                # innermost-first so that `agen.aclose().send(None)` gives aclose then send
                for n in sorted(calls, key=lambda c: (c.lineno, -c.col_offset if False else c.end_col_offset)):
                    base = n.func.value
                    if isinstance(base, ast.Name) and base.id in created:
                        k = "agen" if created[base.id] == "some_asyncgen" else "coro"
                        helper_ops.append(f"{k}.{n.func.attr}")
                    elif isinstance(base, ast.Call) and isinstance(base.func, ast.Attribute) and isinstance(base.func.value, ast.Name) \
                            and base.func.value.id in created:
                        k = "agen" if created[base.func.value.id] == "some_asyncgen" else "coro"
                        helper_ops.append(f"{k}.{base.func.attr}().{n.func.attr}" + (":caught" if caught else ":uncaught"))

            for stmt in host.body:
                if isinstance(stmt, (ast.FunctionDef, ast.AsyncFunctionDef, ast.ClassDef)):
                    continue
                if isinstance(stmt, ast.Try):
                    names = set()
                    for h in stmt.handlers:
                        if h.type is None:
                            names.add("*")
                        else:
                            for x in ast.walk(h.type):
                                if isinstance(x, ast.Name):
                                    names.add(x.id)
                    caught = bool(names & {"*", "StopIteration", "BaseException", "Exception"})
                    for b in stmt.body:
                        ops_of(b, caught)
                else:
                    ops_of(stmt, False)
    out["helperOps"] = helper_ops
    return out, problems


def render(vals: Dict[str, Any]) -> str:
    lines = [
        "/-! GENERATED by harness/translate_consts.py from /repo/stackscope/*.py — do not edit.",
        "Regenerated on every check run; theorems over these names are re-checked against the source. -/",
        "namespace SS.Gen",
        "",
    ]
    for k in sorted(vals):
        v = vals[k]
        if isinstance(v, bool):
            lines.append(f"def {k} : Bool := {'true' if v else 'false'}")
        elif isinstance(v, int):
            lines.append(f"def {k} : Nat := {v}")
        elif isinstance(v, str):
            lines.append(f"def {k} : String := {_lean_str(v)}")
        elif isinstance(v, list):
            lines.append(f"def {k} : List String := [" + ", ".join(_lean_str(x) for x in v) + "]")
    lines += ["", "end SS.Gen", ""]
    return "\n".join(lines)


def regenerate(repo: Path, gen_dir: Path) -> List[str]:
    vals, problems = extract(repo)
    gen_dir.mkdir(parents=True, exist_ok=True)
    target = gen_dir / "Consts.lean"
    text = render(vals)
    # Missing names would make dependants fail to compile, which is what we want (broken obligation),
    # but keep the file syntactically valid.
    if not target.exists() or target.read_text() != text:
        target.write_text(text)
    return problems


if __name__ == "__main__":
    import sys

    v, p = extract(Path(sys.argv[1] if len(sys.argv) > 1 else "/repo"))
    print(render(v))
    print("problems:", p)
