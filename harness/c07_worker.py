"""Racing leg of C07, run in a subprocess (a crash of the interpreter is then a reportable outcome).

A target thread runs a small program in lock-step: it parks inside `gate()` and proceeds only when the
controller releases it.  The inspecting (main) thread runs `inspect_frame(target_frame)` under a
`sys.settrace` line hook keyed on the *source text* of the lines of inspect_frame: before each of the
inspector's reads of the target (`lasti_before = frame.f_lasti`, each `assert frame.f_lasti == lasti_before`,
each `obj = stack_ptr[i]`) the controller may let the target advance by a prescribed number of gates, and it
records what the target looks like at that instant.  Output: one JSON object per schedule on stdout.

Everything the target ever puts on its value stack is kept alive by the controller, so a stale read returns a
live object (the F11 window is explored without its crash).
"""
from __future__ import annotations

import json
import linecache
import sys
import threading
from typing import Any, Dict, List, Optional


class Park:
    def __init__(self):
        self.sem = threading.Semaphore(0)
        self.arrived = threading.Semaphore(0)
        self.stop = False
        self.take_refs = False
        self.count = 0

    def gate(self, tag):
        self.count += 1
        self.arrived.release()
        self.sem.acquire()
        if self.stop:
            raise SystemExit

    def advance(self, k):
        for _ in range(k):
            self.sem.release()
            self.arrived.acquire()


KEEP: List[Any] = []


class M:
    def __init__(self, n):
        self.n = n
        KEEP.append(self)

    def __enter__(self):
        return self

    def __exit__(self, *a):
        return False


def target_program(park: Park):
    it = iter(range(10 ** 9))
    KEEP.append(it)
    with M("outer"):
        for a in it:
            try:
                park.gate(1)
                with M(("a", a)), M(("b", a)):
                    park.gate(2)
                if park.take_refs:
                    KEEP.append(sys._getframe())      # the target changes its own frame's reference count (stores its frame)
            finally:
                pass


READ_MARKS = ["lasti_before = frame.f_lasti", "assert frame.f_lasti == lasti_before", "obj = stack_ptr[i]",
              "handlers = list(_parse_exception_table(co))"]   # the last one: after the snapshot has been accepted


def run_schedule(schedule: Dict[int, int], max_reads: int = 40) -> dict:
    """schedule: read index (0-based, counted over the inspector's marked lines) -> gates to advance before it."""
    import stackscope
    from stackscope import _lowlevel_cpython_311 as impl

    park = Park()
    box: Dict[str, Any] = {}

    def body():
        box["frame_holder"] = sys._getframe(0)
        try:
            target_program(park)
        except SystemExit:
            pass

    t = threading.Thread(target=body, daemon=True)
    t.start()
    park.arrived.acquire()          # parked at the first gate
    # the frame of target_program
    tf = sys._current_frames()[t.ident]
    while tf is not None and tf.f_code.co_name != "target_program":
        tf = tf.f_back
    reads = [0]
    trace: List[dict] = []
    code = impl.inspect_frame.__code__

    def snapshot_target():
        # what the inspector could see right now (the target is parked)
        return {"lasti": tf.f_lasti}

    def local(frame, event, arg):
        if event == "line":
            text = linecache.getline(code.co_filename, frame.f_lineno)
            if any(m in text for m in READ_MARKS):
                k = reads[0]
                reads[0] += 1
                adv = schedule.get(k, 0)
                if adv and k < max_reads:
                    park.advance(adv)
                trace.append(dict(snapshot_target(), read=k, line=text.strip()[:40], advanced=adv))
        return local

    def tracer(frame, event, arg):
        if frame.f_code is code:
            return local
        return None

    outcome: Dict[str, Any] = {}
    sys.settrace(tracer)
    try:
        try:
            d = impl.inspect_frame(tf)
            outcome = {"kind": "snapshot", "stack": [describe(o) for o in d.stack], "blocks": [[b.handler, b.level] for b in d.blocks]}
            # the handler chain must be the one of the position the snapshot was taken at (independent walk over dis's table)
            import dis

            accepted = [x for x in trace if x["line"].startswith("lasti_before")][-1]["lasti"]
            ents = dis._parse_exception_table(tf.f_code)
            chain, cur = [], accepted
            for _ in range(len(ents) + 1):
                e = next((e for e in ents if e.start <= cur < e.end), None)
                if e is None:
                    break
                chain.append([e.target, e.depth])
                cur = e.target
            outcome["expected_blocks"] = chain[::-1]
        except RuntimeError as e:
            outcome = {"kind": "inconsistent" if "consistent stack snapshot" in str(e) else f"RuntimeError {e}"}
        except Exception as e:
            outcome = {"kind": f"raised {type(e).__name__}: {e}"}
    finally:
        sys.settrace(None)
    outcome["trace"] = trace
    outcome["reads"] = reads[0]
    # the full pipeline must never raise and must only report this thread's frames
    try:
        st = stackscope.extract(t)
        names = [f.funcname for f in st.frames]
        # the target is parked: every reported frame must be on its own f_back chain
        own = set()
        f = sys._current_frames().get(t.ident)
        while f is not None:
            own.add(id(f))
            f = f.f_back
        foreign = [x.funcname for x in st.frames if id(x.pyframe) not in own]
        outcome["extract"] = {"frames": names, "foreign": foreign, "error": repr(st.error) if st.error else None}
    except Exception as e:
        outcome["extract"] = {"raised": f"{type(e).__name__}: {e}"}
    # ... also while the target races, and also when the application runs with InspectionWarning turned into an error (as
    # stackscope's own test configuration does): the same schedule applied to the reads that extract(thread) makes of the
    # target's program frame.  A rejected snapshot then surfaces in Stack.error; the call still returns.
    import warnings

    from stackscope._lowlevel import InspectionWarning

    reads2 = [0]

    refmark_done = [False]

    def local2(frame, event, arg):
        if event == "line" and frame.f_locals.get("frame") is tf:
            text = linecache.getline(code.co_filename, frame.f_lineno)
            if "assert refcnt + 1 == sys.getrefcount(frame)" in text and not refmark_done[0] and schedule:
                # between the raw read of the frame's reference count and the assertion that checks it, the target stores a
                # reference to its own frame: the inspector's own sanity assertion fails (a trickery failure, not a crash)
                refmark_done[0] = True
                park.take_refs = True
                park.advance(2)
                park.take_refs = False
            if any(m in text for m in READ_MARKS):
                k = reads2[0]
                reads2[0] += 1
                adv = schedule.get(k, 0)
                if adv and k < max_reads:
                    park.advance(adv)
        return local2

    def tracer2(frame, event, arg):
        return local2 if frame.f_code is code else None

    import contextlib
    import io

    for mode in ("default", "error"):
        reads2[0] = 0
        refmark_done[0] = False
        with warnings.catch_warnings(), contextlib.redirect_stderr(io.StringIO()):
            warnings.simplefilter("error" if mode == "error" else "always", InspectionWarning)
            sys.settrace(tracer2)
            try:
                st = stackscope.extract(t)
                own = set()
                f = sys._current_frames().get(t.ident)
                while f is not None:
                    own.add(id(f))
                    f = f.f_back
                outcome["extract_racing_" + mode] = {"frames": len(st.frames), "names": [x.funcname for x in st.frames][:8],
                                                     "error": repr(st.error)[:120] if st.error else None,
                                                     "foreign": [x.funcname for x in st.frames if id(x.pyframe) not in own and x.funcname != "gate"]}
            except BaseException as e:
                outcome["extract_racing_" + mode] = {"raised": f"{type(e).__name__}: {str(e)[:160]}"}
            finally:
                sys.settrace(None)
    park.stop = True
    park.sem.release()
    t.join(5)
    return outcome


def inner_program(park: Park, a):
    park.gate(1)
    with M(("a", a)), M(("b", a)):
        park.gate(2)


def outer_program(park: Park):
    for a in range(10 ** 9):
        inner_program(park, a)


def run_reentry(advance_at: int, gates: int) -> dict:
    """The inspected frame RETURNS while it is being inspected and the same function is entered again (its new invocation takes
    over the same slot of the thread's frame stack).  What inspect_frame then says about the first invocation's frame is about
    that frame -- which has finished: an empty value stack, or a rejection -- never the other invocation's value stack."""
    from stackscope import _lowlevel_cpython_311 as impl

    park = Park()

    def body():
        try:
            outer_program(park)
        except SystemExit:
            pass

    t = threading.Thread(target=body, daemon=True)
    t.start()
    park.arrived.acquire()
    f1 = sys._current_frames()[t.ident]
    while f1 is not None and f1.f_code.co_name != "inner_program":
        f1 = f1.f_back
    code = impl.inspect_frame.__code__
    reads = [0]

    def local(frame, event, arg):
        if event == "line":
            text = linecache.getline(code.co_filename, frame.f_lineno)
            if any(m in text for m in READ_MARKS):
                if reads[0] == advance_at:
                    park.advance(gates)
                reads[0] += 1
        return local

    def tracer(frame, event, arg):
        return local if frame.f_code is code else None

    out: Dict[str, Any] = {"kind": "reentry", "advance_at": advance_at, "gates": gates}
    sys.settrace(tracer)
    try:
        try:
            d = impl.inspect_frame(f1)
            out["outcome"] = "snapshot"
            out["stack"] = [describe(o) for o in d.stack]
            out["blocks"] = len(d.blocks)
        except RuntimeError as e:
            out["outcome"] = "inconsistent" if "consistent stack snapshot" in str(e) else f"RuntimeError {e}"
        except Exception as e:
            out["outcome"] = f"raised {type(e).__name__}: {e}"
    finally:
        sys.settrace(None)
    cur = sys._current_frames().get(t.ident)
    still = False
    while cur is not None:
        still = still or cur is f1
        cur = cur.f_back
    out["frame_still_running"] = still
    park.stop = True
    park.sem.release()
    t.join(5)
    return out


def describe(o) -> str:
    if o is None:
        return "None"
    s = getattr(o, "__self__", None)
    if isinstance(s, M):
        return f"exit:{s.n}"
    if type(o).__name__ == "range_iterator":
        return "iter"
    return type(o).__name__


def main():
    spec = json.loads(sys.stdin.read())
    for sched in spec["schedules"]:
        if "reentry" in sched:
            try:
                r = run_reentry(int(sched["reentry"]), int(sched["gates"]))
            except BaseException as e:
                r = {"kind": f"worker-error {type(e).__name__}: {e}"}
            r["schedule"] = sched
            sys.stdout.write(json.dumps(r) + "\n")
            sys.stdout.flush()
            continue
        s = {int(k): v for k, v in sched.items()}
        try:
            r = run_schedule(s)
        except BaseException as e:
            r = {"kind": f"worker-error {type(e).__name__}: {e}"}
        r["schedule"] = sched
        sys.stdout.write(json.dumps(r) + "\n")
        sys.stdout.flush()


if __name__ == "__main__":
    main()
