"""Build real Python objects from a hook-environment description (shared by C05, C10, C16).

Description (JSON):  {"x": root id, "wc": bool, "items": [item...]}
  item = {"id": n, "kind": "thing"|"thingnw", "uw": unwrap-result}
       | {"id": n, "kind": "gen", "frame": fid, "yf": id|null}          a real suspended generator
       | {"id": n, "kind": "frame", "el": elab | {"none":..,"leaf":..,"frame":..}, "hide": bool, "ctx": [e..]}
  unwrap-result = null | ["one", i] | ["tuple", [i|null..]] | ["list", [..]] | ["iter", [..], fail|null] | ["raise", e]
  elab          = null | ["one", elem] | ["seq", [elem..]] | ["raise", e];  elem = id | null | "next"
"""
from __future__ import annotations

import sys
from typing import Any, Dict, List, Optional


class Injected(Exception):
    def __init__(self, e):
        super().__init__(e)
        self.e = e


_state: Dict[str, Any] = {"world": None}


def _install():
    """Register the hooks once per process; they consult the current World."""
    import stackscope
    from stackscope import elaborate_frame, unwrap_stackitem, yields_frames

    if _state.get("installed"):
        return
    _state["installed"] = True

    class Thing:
        def __init__(self, k):
            self.k = k

        def __repr__(self):
            return f"i{self.k}"

        def __iter__(self):
            return self

        def __next__(self):
            return None

    class ThingNW:
        __slots__ = ("k",)

        def __init__(self, k):
            self.k = k

        def __repr__(self):
            return f"i{self.k}"

        def __iter__(self):
            return self

        def __next__(self):
            return None

    class RaisingMgr:
        def __init__(self, e):
            self.e = e

        def __enter__(self):
            return self

        def __exit__(self, *a):
            return False

    _state.update(Thing=Thing, ThingNW=ThingNW, RaisingMgr=RaisingMgr)

    def do_unwrap(it):
        w = _state["world"]
        w.calls.append(("unwrap", it.k))
        w.tick("unwrap")
        uw = w.desc[it.k].get("uw")
        if uw is None:
            return None
        tag = uw[0]
        if tag == "one":
            return w.obj(uw[1])
        if tag == "tuple":
            return tuple(w.obj(i) for i in uw[1])
        if tag == "list":
            # the hook hands back a list it OWNS and keeps (the same object every time): a consumer must not change it
            stored = w.__dict__.setdefault("_stored_lists", {})
            if it.k not in stored:
                stored[it.k] = [w.obj(i) for i in uw[1]]
            return stored[it.k]
        if tag == "iter":
            @yields_frames
            def gen():
                for i in uw[1]:
                    w.tick("iter")
                    yield w.obj(i)
                if uw[2] is not None:
                    raise Injected(uw[2])

            return gen()
        if tag == "raise":
            raise Injected(uw[1])
        raise ValueError(tag)

    unwrap_stackitem.register(Thing)(do_unwrap)
    unwrap_stackitem.register(ThingNW)(do_unwrap)

    @stackscope.elaborate_context.register(RaisingMgr)
    def elab_ctx(mgr, ctx):
        w = _state["world"]
        w.tick("elab_ctx")
        raise Injected(mgr.e)

    def framegen(i, sub, mgrs):
        if len(mgrs) == 0:
            if sub is None:
                while True:
                    yield
            else:
                while True:
                    yield from sub
        elif len(mgrs) == 1:
            with mgrs[0]:
                if sub is None:
                    while True:
                        yield
                else:
                    while True:
                        yield from sub
        else:
            with mgrs[0], mgrs[1]:
                if sub is None:
                    while True:
                        yield
                else:
                    while True:
                        yield from sub

    _state["framegen"] = framegen

    def elab(frame, next_inner):
        w = _state["world"]
        k = frame.pyframe.f_locals["i"]
        w.calls.append(("elab", k))
        d = w.desc[k]
        if d.get("hide"):
            frame.hide = True
        w.tick("elab")
        el = d.get("el")
        if isinstance(el, dict):
            if next_inner is None:
                el = el["none"]
            elif isinstance(next_inner, stackscope.Frame):
                el = el["frame"]
            else:
                el = el["leaf"]
        if el is None:
            return None

        def elem(e):
            if e is None:
                return None
            if e == "next":
                return next_inner
            return w.obj(e)

        if el[0] == "one":
            return elem(el[1])
        if el[0] == "seq":
            items = [elem(e) for e in el[1]]
            # any Sequence is a sequence: a list where the case says so, a tuple otherwise
            return items if w.case.get("seq_as_list") else tuple(items)
        if el[0] == "raise":
            raise Injected(el[1])
        raise ValueError(el)

    _state["elab"] = elab
    elaborate_frame.register(framegen)(elab)


class World:
    """Real objects for one environment description."""

    def __init__(self, case: dict):
        _install()
        self.case = case
        self.desc: Dict[int, dict] = {d["id"]: d for d in case["items"]}
        self.objs: Dict[int, Any] = {}
        self.ids: Dict[int, int] = {}
        self.calls: List[Any] = []
        self.keep: List[Any] = []
        self.fault_at: Optional[int] = None   # raise at the k-th hook invocation (C05)
        self.fault_id = 900
        self.ticks = 0
        _state["world"] = self
        # the same hook, registered for the frames' code either directly or through customize(..., elaborate=hook): the latest
        # registration wins, so this is re-done for every world
        import stackscope as _ss

        if case.get("via") == "customize":
            _ss.customize(_state["framegen"], elaborate=_state["elab"])
        else:
            _ss.elaborate_frame.register(_state["framegen"])(_state["elab"])
        # frames owned by gen items must be created through them: build gens (highest id first, since
        # a gen delegates only to larger ids), then free-standing frames
        owner = {d["frame"]: d["id"] for d in case["items"] if d["kind"] == "gen"}
        for d in sorted(case["items"], key=lambda d: -d["id"]):
            if d["kind"] == "frame" and d["id"] not in owner:
                self._make_frame(d["id"], None)
        for d in sorted(case["items"], key=lambda d: -d["id"]):
            if d["kind"] == "gen":
                g = self._make_frame(d["frame"], d.get("yf"))
                self._bind(d["id"], g)
        for d in case["items"]:
            if d["kind"] in ("thing", "thingnw"):
                self.obj(d["id"])

    def tick(self, what: str) -> None:
        self.ticks += 1
        if self.fault_at is not None and self.ticks == self.fault_at:
            raise Injected(self.fault_id)

    def _bind(self, k: int, o: Any) -> None:
        self.objs[k] = o
        self.ids[id(o)] = k

    def _make_frame(self, fid: int, yf: Optional[int]):
        d = self.desc.get(fid, {"id": fid, "kind": "frame"})
        mgrs = [_state["RaisingMgr"](e) for e in d.get("ctx", [])][:2]
        sub = self.obj(yf) if yf is not None else None
        g = _state["framegen"](fid, sub, mgrs)
        next(g)
        self.keep.append(g)
        self._bind(fid, g.gi_frame)
        return g

    def obj(self, k: Optional[int]) -> Any:
        if k is None:
            return None
        if k in self.objs:
            return self.objs[k]
        d = self.desc.get(k)
        if d is None:
            d = {"id": k, "kind": "thing", "uw": None}
            self.desc[k] = d
        if d["kind"] == "thing":
            o = _state["Thing"](k)
        elif d["kind"] == "thingnw":
            o = _state["ThingNW"](k)
        elif d["kind"] == "frame":
            self._make_frame(k, None)
            return self.objs[k]
        else:
            raise ValueError(f"object {k} of kind {d['kind']} requested before construction")
        self._bind(k, o)
        return o

    # ---- canonical rendering of real results ---------------------------------------------
    def show_obj(self, o: Any) -> str:
        import stackscope

        if o is None:
            return "None"
        if isinstance(o, stackscope.Frame):
            return f"F{self.ids.get(id(o.pyframe), '?')}"
        k = self.ids.get(id(o))
        return f"i{k}" if k is not None else f"?{type(o).__name__}"

    def show_origin(self, o: Any) -> str:
        if o is None:
            return "-"
        k = self.ids.get(id(o))
        return str(k) if k is not None else f"?{type(o).__name__}"

    def show_err(self, e: BaseException) -> str:
        if isinstance(e, Injected):
            return f"h{e.e}"
        if isinstance(e, RuntimeError) and "has been unwrapped more than" in str(e):
            return "guard"
        return f"{type(e).__name__}({str(e)[:60]})"

    def flat_errors(self, err: Optional[BaseException]) -> List[BaseException]:
        if err is None:
            return []
        if isinstance(err, BaseExceptionGroup):
            return list(err.exceptions)
        return [err]

    def show_stack(self, st) -> str:
        fr = " ".join(f"{self.ids.get(id(f.pyframe), '?')}:{self.show_origin(f.origin)}:{'T' if f.hide else 'F'}" for f in st.frames)
        leaf = st.leaf
        if isinstance(leaf, list):
            ls = "[" + ",".join(self.show_obj(o) for o in leaf) + "]"
        else:
            ls = self.show_obj(leaf)
        errs = ",".join(self.show_err(e) for e in self.flat_errors(st.error))
        return f"frames=[{fr}] leaf={ls} errors=[{errs}]"
