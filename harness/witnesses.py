"""Regression witnesses for defects found on the unmodified library and repaired in /repo (KNOWN_FINDINGS.json, status fixed).

Each witness is the concrete input, history or schedule on which the property failed, replayed against /repo's current working
tree on every run of the property's check (core.main_check appends one case {"k": "witness", "id": ...} per entry of FOR[pid]).
A `fixed` entry suppresses nothing: if the behaviour returns, the witness fails like any other case and the check reports a
VIOLATION whose replay names the witness.

Every witness runs in a process of its own (they register hooks, insert modules into sys.modules, start threads and event
loops): `python harness/witnesses.py <id>` prints "ok" or the description of what failed.
"""
from __future__ import annotations

import os
import subprocess
import sys
from pathlib import Path
from typing import Callable, Dict, List, Optional

VERIF = Path(__file__).resolve().parent.parent
REPO = Path(os.environ.get("STACKSCOPE_REPO", "/repo"))
PY = os.environ.get("VERIF_PYTHON", "/venv/bin/python")

W: Dict[str, Callable[[], Optional[str]]] = {}
FOR: Dict[str, List[str]] = {}


def witness(wid: str, pid: str):
    def deco(fn):
        W[wid] = fn
        FOR.setdefault(pid, []).append(wid)
        return fn

    return deco


def run(wid: str, timeout: float = 60.0) -> str:
    """Run one witness in a fresh interpreter against REPO; 'ok' or the failure text."""
    env = dict(os.environ)
    env["PYTHONPATH"] = f"{REPO}:{VERIF}"
    try:
        p = subprocess.run([PY, "-W", "ignore", str(Path(__file__).resolve()), wid], capture_output=True, text=True, timeout=timeout, env=env)
    except subprocess.TimeoutExpired:
        return f"witness {wid} did not terminate within {timeout}s"
    out = p.stdout.strip().splitlines()
    if p.returncode == 0 and out and out[-1] == "ok":
        return "ok"
    if p.returncode == 1 and out:
        return out[-1]
    return f"witness {wid} could not run (rc={p.returncode}): {(p.stderr or p.stdout)[-600:]}"


# ------------------------------------------------------------------------------------------------------------------
@witness("F21", "C18")
def f21():
    import stackscope

    for sep in ["\r", "\x0b", "\x0c", "\x1c", "\x1d", "\x1e", "\x85", "\u2028", "\u2029", "\r\n"]:
        st = stackscope.Stack(root=None, frames=[], error=RuntimeError(f"a{sep}b"))
        for opts in ({}, {"ascii_only": True}):
            lines = st.format(**opts)
            bad = [l for l in lines if not l.endswith("\n") or "\n" in l[:-1]]
            if bad:
                return f"F21: error message containing {sep!r}: format() element {bad[0]!r} is not one newline-terminated line"
            if "".join(lines) != str(st) and not opts:
                return "F21: str(stack) is not the concatenation of format()"
            if len(lines) != "".join(lines).count("\n"):
                return f"F21: {len(lines)} elements but {''.join(lines).count(chr(10))} newline-separated lines"
    # multi-line messages still come out one line per element, a trailing newline in the message still gives a blank line
    lines = stackscope.Stack(root=None, frames=[], error=RuntimeError("a\nb\n")).format()
    if lines[-3:] != ["  RuntimeError: a\n", "  b\n", "  \n"]:
        return f"F21: multi-line message rendered as {lines!r}"
    return None


@witness("F22", "C09")
def f22():
    import contextlib
    import stackscope

    class Closer:
        def __enter__(s):
            return s

        def close(s, *a):
            pass

        __exit__ = close

    def deco(f):
        def wrapper(*a):
            return f(*a)

        return wrapper

    class Decorated:
        def __enter__(s):
            return s

        @deco
        def __exit__(s, *a):
            pass

    class Plain:
        def __enter__(s):
            return s

        def __exit__(s, *a):
            pass

        def other(s, *a):
            pass

    class ACloser:
        async def __aenter__(s):
            return s

        async def aclose(s, *a):
            pass

        __aexit__ = aclose

    objs = {}

    def swallow(*a):
        return True

    def g():
        with contextlib.ExitStack() as stack:
            objs["stack"] = stack
            stack.push(swallow)
            stack.push(print)
            stack.push(len)
            objs["c1"] = stack.enter_context(Closer())
            objs["c2"] = Closer()
            stack.push(objs["c2"])
            objs["d"] = stack.enter_context(Decorated())
            objs["p"] = stack.enter_context(Plain())
            objs["q"] = Plain()
            stack.push(objs["q"].other)
            objs["l"] = [1]
            stack.push(objs["l"].clear)
            yield
            stack.pop_all()

    async def ag():
        async with contextlib.AsyncExitStack() as stack:
            objs["astack"] = stack
            objs["a1"] = await stack.enter_async_context(ACloser())
            objs["a2"] = ACloser()
            stack.push_async_exit(objs["a2"])
            yield
            stack.pop_all()

    it = g()
    next(it)
    ch = stackscope.extract(it).frames[0].contexts[0].children
    objs["stack"].pop_all()
    got = [(c.obj, c.description.split("(")[0], c.is_async) for c in ch]
    want = [(swallow, "stack.push", False), (print, "stack.push", False), (len, "stack.push", False),
            (objs["c1"], "stack.enter_context", False), (objs["c2"], "stack.enter_context", False),
            (objs["d"], "stack.enter_context", False), (objs["p"], "stack.enter_context", False),
            (objs["q"], "stack.push", False), (objs["l"], "stack.push", False)]
    for i, (g_, w_) in enumerate(zip(got, want)):
        if g_[0] is not w_[0] or g_[1:] != w_[1:]:
            return f"F22: ExitStack child {i}: got obj={g_[0]!r} method={g_[1]!r}, want obj={w_[0]!r} method={w_[1]!r} ({ch[i].description!r})"
    if len(got) != len(want):
        return f"F22: {len(got)} children for {len(want)} registrations"
    if "print" not in ch[1].description or "module" in ch[1].description:
        return f"F22: push(print) described as {ch[1].description!r}"
    a = ag()
    try:
        a.asend(None).send(None)
    except StopIteration:
        pass
    ch = stackscope.extract(a).frames[0].contexts[0].children
    objs["astack"].pop_all()
    got = [(c.obj, c.description.split("(")[0], c.is_async) for c in ch]
    want = [(objs["a1"], "await stack.enter_async_context", True), (objs["a2"], "await stack.enter_async_context", True)]
    for i, (g_, w_) in enumerate(zip(got, want)):
        if g_[0] is not w_[0] or g_[1:] != w_[1:]:
            return f"F22: AsyncExitStack child {i}: got {g_!r}, want {w_!r}"
    return None


@witness("F23", "C12")
def f23():
    import sys
    import stackscope

    class Hook:
        def __init__(self):
            self.calls = []

        def __len__(self):
            return 0

        def __call__(self, frame, next_inner):
            self.calls.append(frame.funcname)
            frame.hide = True
            return None

    class Hook2(Hook):
        __len__ = None  # type: ignore

        def __bool__(self):
            return False

    def probe():
        return stackscope.extract_since(sys._getframe(1)).frames[0]

    for cls in (Hook, Hook2):
        for form in ("direct", "decorator"):
            hook = cls()

            def subject():
                return probe()

            if form == "direct":
                stackscope.customize(subject, elaborate=hook)
            else:
                stackscope.customize(elaborate=hook)(subject)
            fr = subject()
            if hook.calls != ["subject"] or not fr.hide:
                return f"F23: customize(elaborate=<falsy callable {cls.__name__}>), {form} form: hook calls {hook.calls}, Frame.hide={fr.hide}"
    return None


@witness("F24", "C11")
def f24():
    import sys
    import types
    import stackscope
    from stackscope import Context, extract_since, fill_context, unwrap_context

    class Core:
        def __enter__(self):
            return self

        def __exit__(self, *exc):
            return None

    class Outer(Core):
        def __init__(self, inner):
            self.inner = inner

    mod = types.ModuleType("verif_f24_thirdparty")

    def _stackscope_install_glue_():
        @unwrap_context.register(Outer)
        def unwrap_outer(mgr, context):
            return mgr.inner

    mod._stackscope_install_glue_ = _stackscope_install_glue_  # type: ignore
    stackscope.extract_since(None)  # settle
    stackscope.extract_since(None)
    sys.modules["verif_f24_thirdparty"] = mod
    core = Core()
    ctx_out = Context(obj=Outer(core), is_async=False)
    fill_context(ctx_out)  # outside any extract, before the next extract
    with Outer(core):
        stack = extract_since(sys._getframe(0))
    (ctx_in,) = stack.frames[0].contexts
    if ctx_out.obj is not ctx_in.obj:
        return (f"F24: fill_context outside any extract (pending module glue) gave obj {type(ctx_out.obj).__name__}, "
                f"inside an extract {type(ctx_in.obj).__name__}")
    return None


@witness("F25", "C13")
def f25():
    import contextlib
    import stackscope
    from stackscope import extract, extract_child, Context, fill_context

    seen = []
    opts = []

    class Group:
        def __init__(self, tasks):
            self.tasks = tasks

        def __enter__(self):
            return self

        def __exit__(self, *a):
            return False

    @stackscope.elaborate_context.register(Group)
    def elab_group(mgr, context):
        context.children = [extract_child(t, for_task=True) for t in mgr.tasks]
        seen.append([bool(c.frames) for c in context.children])

    def task():
        yield

    def started(g):
        next(g)
        return g

    @contextlib.contextmanager
    def wrapper():
        with Group([started(task())]):
            yield

    @stackscope.unwrap_context_generator.register(wrapper)
    def unwrap_wrapper(frame, context):
        opts.append(len(frame.contexts))
        return None

    def holder(mgr):
        yield

    def elaborate_holder(frame, next_inner):
        mgr = frame.pyframe.f_locals["mgr"]
        ctx = Context(obj=mgr, is_async=False, is_exiting=True)
        fill_context(ctx)

    stackscope.customize(holder, elaborate=elaborate_holder)
    mgr = wrapper()
    mgr.__enter__()
    h = started(holder(mgr))
    for rc in (True, False):
        seen.clear()
        st = extract(h, with_contexts=True, recurse_child_tasks=rc)
        if st.error is not None:
            return f"F25: unexpected error {st.error!r}"
        if seen != [[rc]]:
            return (f"F25: extract(recurse_child_tasks={rc}): the hook beneath the glue's extraction of an exiting generator-based "
                    f"manager saw child stacks populated={seen}")
    opts.clear()
    st = extract(h, with_contexts=False, recurse_child_tasks=False)
    if opts != [0]:
        return f"F25: extract(with_contexts=False): the frame handed to unwrap_context_generator carried {opts} contexts"
    return None


@witness("F26", "C04")
def f26():
    import sys
    import threading
    from stackscope import StackSlice, extract

    ev1, ev2 = threading.Event(), threading.Event()

    def t_leaf():
        ev1.set()
        ev2.wait()

    def t_mid():
        t_leaf()

    def t_top():
        t_mid()

    t = threading.Thread(target=t_top, daemon=True)
    t.start()
    ev1.wait()
    try:
        fr = sys._current_frames()[t.ident]
        while fr.f_code.co_name != "t_top":
            fr = fr.f_back
        full = [f.funcname for f in extract(StackSlice(outer=fr), with_contexts=False).frames]
        if full[:3] != ["t_top", "t_mid", "t_leaf"]:
            return f"F26: full slice {full}"
        for n in range(1, len(full) + 2):
            got = [f.funcname for f in extract(StackSlice(outer=fr, limit=n), with_contexts=False).frames]
            if got != full[:n]:
                return f"F26: StackSlice(outer=<t_top running in another thread>, limit={n}) gave {got}, want {full[:n]}"
    finally:
        ev2.set()
        t.join()
    return None


@witness("F27", "C04")
def f27():
    import functools
    import greenlet
    from stackscope import extract, extract_since

    def names(st):
        return [f.funcname for f in st.frames]

    def o1():
        a = greenlet.greenlet(extract_since).switch(None)
        b = greenlet.greenlet(functools.partial(extract_since, None)).switch()
        return a, b

    def mid():
        return o1()

    for st in mid():
        if st.error is not None or names(st)[-2:] != ["mid", "o1"]:
            return f"F27: greenlet(extract_since).switch(None): frames {names(st)[-3:]} error {st.error!r}; want the parent's frames ending [mid, o1]"

    def nested():
        # the same from two greenlets down
        def inner():
            return greenlet.greenlet(extract_since).switch(None)

        return greenlet.greenlet(inner).switch()

    st = nested()
    if st.error is not None or names(st)[-2:] != ["nested", "inner"]:
        return f"F27: nested: frames {names(st)[-3:]} error {st.error!r}"

    def tgt():
        greenlet.getcurrent().parent.switch()

    g = greenlet.greenlet(tgt)
    g.switch()
    want = names(extract(g))
    got_st = greenlet.greenlet(extract).switch(g)
    if got_st.error is not None or names(got_st) != want or want != ["tgt"]:
        return f"F27: greenlet(extract).switch(suspended greenlet): {names(got_st)} error {got_st.error!r}; from main {want}"
    return None


def _park_and_report(out, key):
    import trio
    from stackscope import extract

    async def park():
        task = trio.lowlevel.current_task()

        def report():
            out[key, "outside"] = extract(task.coro)
            trio.lowlevel.reschedule(task)

        trio.lowlevel.current_trio_token().run_sync_soon(report)
        await trio.lowlevel.wait_task_rescheduled(lambda _: trio.lowlevel.Abort.FAILED)
        out[key, "inside"] = extract(task.coro)

    return park


def _user(st):
    return [(f.funcname, "hidden" if f.hide else "shown") for f in st.frames]


@witness("F28", "C15")
def f28():
    import greenback
    import trio

    out = {}
    leaf = _park_and_report(out, "k")

    def sync_fn():
        greenback.await_(leaf())

    def sync_outer():
        sync_fn()

    async def main1():
        await greenback.with_portal_run_sync(sync_outer)

    trio.run(main1)
    for where in ("outside", "inside"):
        st = out["k", where]
        shown = [n for n, h in _user(st) if h == "shown"]
        want = ["main1", "with_portal_run_sync", "sync_outer", "sync_fn", "park"]
        if st.error is not None or shown != want:
            return f"F28: with_portal_run_sync, extraction from {where}: visible frames {shown} error {st.error!r}; want {want}"
        hidden = [n for n, h in _user(st) if h == "hidden"]
        if "_greenback_shim_sync" not in hidden or "await_" not in hidden:
            return f"F28: bridging internals not hidden ({where}): {_user(st)}"
    return None


@witness("F29", "C15")
def f29():
    import greenback
    import trio
    from stackscope import extract

    out = {}

    async def victim():
        await trio.sleep_forever()

    async def main2():
        async with trio.open_nursery() as n:
            n.start_soon(victim)
            await trio.sleep(0.01)
            (t,) = n.child_tasks
            out["before"] = extract(t.coro)
            greenback.bestow_portal(t)
            out["after"] = extract(t.coro)
            await trio.sleep(0.01)
            out["stepped"] = extract(t.coro)
            n.cancel_scope.cancel()

    trio.run(main2)
    before = [n for n, h in _user(out["before"]) if h == "shown"]
    for k in ("after", "stepped"):
        shown = [n for n, h in _user(out[k]) if h == "shown" and n != "greenback_shim"]
        if out[k].error is not None or shown != before:
            return (f"F29: task given a portal by bestow_portal ({k}): visible frames {shown} error {out[k].error!r}; "
                    f"before the portal was bestowed {before}")
    return None


@witness("F30", "C08")
def f30():
    import ast
    import stackscope

    class CM:
        def __enter__(self):
            return 1

        def __exit__(self, *a):
            pass

    class A(dict):
        pass

    for tgt in ["a[1e400]", "a[-1e400]", "a[...]", "a[1e400j]"]:
        src = f"def g(cm, a):\n    with cm as {tgt}:\n        yield\n"
        ns = {}
        exec(src, ns)
        it = ns["g"](CM(), A())
        next(it)
        (ctx,) = stackscope.extract(it).frames[0].contexts
        vn = ctx.varname
        if vn is None:
            if "," in tgt or "j" in tgt:
                continue
            return f"F30: target {tgt!r} was dropped"
        try:
            same = ast.dump(ast.parse(vn, mode="eval")) == ast.dump(ast.parse(tgt, mode="eval"))
        except SyntaxError:
            same = False
        if not same:
            return f"F30: `with cm as {tgt}` reported varname {vn!r}, which does not parse to the same expression"
    return None


@witness("F31", "C03")
def f31():
    import types
    import stackscope

    @types.coroutine
    def trap():
        yield "trap"

    async def numbers():
        await trap()
        yield 1
        await trap()
        yield 2

    class AIter:
        def __init__(self):
            self.n = 0

        def __aiter__(self):
            return self

        async def __anext__(self):
            await trap()
            self.n += 1
            if self.n > 2:
                raise StopAsyncIteration
            return self.n

    async def consumer(mk):
        ag = mk()
        while (await anext(ag, None)) is not None:
            pass

    class Probe(Exception):
        pass

    def thrown_path(x):
        try:
            x.throw(Probe())
        except Probe as exc:
            tb = exc.__traceback__.tb_next
            out = []
            while tb:
                out.append((tb.tb_frame, tb.tb_lineno))
                tb = tb.tb_next
            return out

    for mk in (numbers, AIter):
        k = 0
        while True:
            x = consumer(mk)
            try:
                for _ in range(k + 1):
                    x.send(None)
            except StopIteration:
                break
            for wc in (True, False):
                st = stackscope.extract(x, with_contexts=wc)
                got = [(f.pyframe, f.lineno) for f in st.frames]
                leaf = st.leaf
                if wc is False:
                    want = thrown_path(x)
                    nm = lambda p: [(f.f_code.co_name, n) for f, n in p]
                    if got != want or leaf is not None or st.error is not None:
                        return (f"F31: `await anext({mk.__name__}(), None)` at suspension {k}: frames {nm(got)} leaf {leaf!r} error {st.error!r}; "
                                f"an exception thrown in unwinds through {nm(want)}")
                else:
                    first = got
            if [f for f, _ in first] != [f for f, _ in got]:
                return "F31: with_contexts on/off disagree"
            k += 1
        if k < 2:
            return "F31: witness did not reach a suspension"
    return None


@witness("F32", "C07")
def f32():
    import threading
    import stackscope

    gate = threading.Lock()
    gate.acquire()
    inside = threading.Event()

    class Plain:
        def __enter__(self):
            return self

        def __exit__(self, *exc):
            return False

    class DelSelf:
        def __enter__(self):
            return self

        def __exit__(self, *exc):
            acquire = gate.acquire
            del self
            inside.set()
            acquire()

    p, d = Plain(), DelSelf()

    def leaf():
        with p as a:
            with d as b:
                pass

    t = threading.Thread(target=leaf, daemon=True)
    t.start()
    inside.wait()
    import time

    time.sleep(0.05)
    try:
        st = stackscope.extract(t)
        fr = [f for f in st.frames if f.funcname == "leaf"]
        if st.error is not None or not fr:
            return f"F32: thread blocked in an __exit__ that did `del self`: error {st.error!r}, frames {[f.funcname for f in st.frames]}"
        got = [(c.obj, c.varname, c.is_exiting) for c in fr[0].contexts]
        if len(got) != 2 or got[0] != (p, "a", False) or got[1][1:] != ("b", True) or got[1][0] not in (None, d):
            return f"F32: contexts of the calling frame {got}; want [(p,'a',False), (None or d,'b',True)]"
    finally:
        gate.release()
        t.join()
    # the same through the lowlevel entry point for a generator
    def g():
        with DelSelf2():
            pass
        yield

    class DelSelf2:
        def __enter__(self):
            return self

        def __exit__(self, *exc):
            del self
            out.append(stackscope.extract(it2) if False else stackscope.extract_since(None))

    out = []
    it2 = g()
    next(it2)
    st = out[0]
    if st.error is not None:
        return f"F32: running frame inside a `del self` exit: error {st.error!r}"
    return None


@witness("F33", "C05")
def f33():
    import weakref
    import stackscope

    class NoClass:
        @property
        def __class__(self):
            raise ValueError("no __class__ for you")

    class A:
        pass

    a = A()
    proxy = weakref.proxy(a)
    del a
    for label, obj, exc in (("object whose __class__ lookup raises", NoClass(), ValueError), ("dead weakref.proxy", proxy, ReferenceError)):
        for kw in ({}, {"with_contexts": False}, {"recurse_child_tasks": True}):
            try:
                st = stackscope.extract(obj, **kw)
            except Exception as ex:
                return f"F33: extract({label}) raised {type(ex).__name__}: {ex}"
            if st.frames:
                return f"F33: extract({label}) returned frames"
            if not isinstance(st.error, exc):
                return f"F33: extract({label}): the failure is not retrievable from Stack.error ({st.error!r})"
    # a plain non-stack object still gives an empty stack with the object as leaf and no error
    st = stackscope.extract(42)
    if st.frames or st.error is not None or st.leaf != 42:
        return f"F33: extract(42) -> frames {st.frames} leaf {st.leaf!r} error {st.error!r}"
    return None


# ---- round 5 -----------------------------------------------------------------------------------------------------
@witness("F37", "C18")
def f37():
    import weakref
    import stackscope

    class K:
        pass

    k = K()
    proxy = weakref.proxy(k)
    del k

    class Lazy:
        def __getattr__(self, name):
            raise RuntimeError("lazy proxy is not bound yet")

    for cls in (proxy, Lazy()):
        def g(cls):
            yield

        it = g(cls)
        next(it)
        st = stackscope.extract(it, with_contexts=False)
        try:
            for kw in ({}, {"ascii_only": True}, {"show_contexts": False}):
                lines = st.format(**kw)
            str(st)
            st.format_flat()
        except Exception as ex:
            return f"F37: Stack.format() raised {type(ex).__name__} for a frame whose first parameter `cls` is bound to {type(cls).__name__}"
        if not lines or "g in" not in lines[1]:
            return f"F37: frame line {lines[1:2]!r}"
    return None


@witness("F38", "C04")
def f38():
    import stackscope

    for name in (None, 5, b"x"):
        ns = {"__name__": name}
        exec("def f(ss):\n    return ss.extract_since(None), ss.extract(ss.StackSlice(limit=1))\n", ns)

        def caller():
            return ns["f"](stackscope)

        st, st1 = caller()
        names = [f.funcname for f in st.frames]
        if st.error is not None or names[-2:] != ["caller", "f"]:
            return f"F38: caller whose globals have __name__ = {name!r}: extract_since(None) gave frames {names[-3:]} error {st.error!r}"
        if st1.error is not None or [f.funcname for f in st1.frames] != ["f"]:
            return f"F38: StackSlice(limit=1) from such a caller: {[f.funcname for f in st1.frames]} error {st1.error!r}"
    return None


@witness("F39", "C04")
def f39():
    import threading
    import stackscope

    def inner():
        return stackscope.extract(threading.current_thread(), with_contexts=False), stackscope.extract_since(None, with_contexts=False)

    def outer():
        return inner()

    a, b = outer()
    na, nb = [f.funcname for f in a.frames], [f.funcname for f in b.frames]
    mine = [f for f in a.frames if (f.pyframe.f_globals.get("__name__") or "").startswith("stackscope.")]
    if a.error is not None or mine or na != nb:
        return (f"F39: extract(threading.current_thread()) gave {na[-6:]} (stackscope's own frames: {[f.funcname for f in mine]}, error "
                f"{a.error!r}); extract_since(None) from the same place gives {nb[-3:]}")
    # in a worker thread too
    out = {}
    t = threading.Thread(target=lambda: out.update(r=outer()))
    t.start()
    t.join()
    a, b = out["r"]
    if [f.funcname for f in a.frames] != [f.funcname for f in b.frames] or a.error is not None:
        return f"F39: in a worker thread: {[f.funcname for f in a.frames][-5:]} vs {[f.funcname for f in b.frames][-3:]}"
    return None


@witness("F40", "C19")
def f40():
    import pickle
    import stackscope

    class Bad:
        def __repr__(self):
            raise ValueError("no repr for you")

    class BadCM:
        def __enter__(self):
            return self

        def __exit__(self, *a):
            pass

        def __repr__(self):
            raise ValueError("no repr")

    def gen():
        b = Bad()
        n = 1
        with BadCM():
            yield

    g = gen()
    next(g)
    st = stackscope.extract(g)
    for sc in (False, True):
        for sh in (False, True):
            try:
                summ = st.as_stdlib_summary(show_contexts=sc, show_hidden_frames=sh, capture_locals=True)
            except Exception as ex:
                return f"F40: as_stdlib_summary(show_contexts={sc}, capture_locals=True) raised {type(ex).__name__}: {ex} for a local whose repr() raises"
            want = 2 if sc else 1
            if len(summ) != want:
                return f"F40: {len(summ)} entries, expected {want}"
            own = summ[-1]
            if own.locals is None or own.locals.get("n") not in ("1", "'1'") or "b" not in own.locals:
                return f"F40: locals of the frame's entry: {own.locals}"
            pickle.loads(pickle.dumps(summ))
    return None


@witness("F41", "C16")
def f41():
    import gc
    import weakref
    from stackscope import extract, extract_outermost, unwrap_stackitem

    class Bad:
        pass

    class Bundle:
        def __init__(self, parts):
            self.parts = parts

    class Target:
        pass

    @unwrap_stackitem.register(Bad)
    def _b(b):
        raise ValueError("bad part")

    @unwrap_stackitem.register(Bundle)
    def _u(b):
        return b.parts

    t = Target()
    p = weakref.proxy(t)
    del t
    gc.collect()
    x = Bundle([Bad(), p])
    st = extract(x)
    kinds = sorted(type(e).__name__ for e in getattr(st.error, "exceptions", [st.error]))
    if st.frames or kinds != ["ReferenceError", "ValueError"]:
        return f"F41: extract: frames {st.frames}, error {st.error!r}"
    try:
        extract_outermost(x)
        return "F41: extract_outermost returned although extract has no frames"
    except BaseException as ex:
        kinds2 = sorted(type(e).__name__ for e in getattr(ex, "exceptions", [ex]))
        if kinds2 != kinds:
            return (f"F41: extract(x).error holds {kinds}; extract_outermost(x) raised {type(ex).__name__} holding {kinds2}: the error recorded "
                    f"before the escaping exception was dropped")
    return None


@witness("F42", "C06")
def f42():
    import stackscope
    from stackscope import lowlevel

    class Meta(type):
        lookups = 0

        def __getattr__(cls, name):
            Meta.lookups += 1
            raise AttributeError(name)

    class Service(metaclass=Meta):
        def handler(self):
            pass

    class Closer:
        def __enter__(self):
            return self

        def close(self, *a):
            return False

        __exit__ = close

    seen = []

    def target():
        cb = Service().handler        # a plain bound method in a local: no context manager involved
        with Closer() as c:
            yield Meta.lookups
            yield Meta.lookups
        seen.append(cb)

    lowlevel.set_trickery_enabled(False)
    try:
        g = target()
        a = next(g)
        st = stackscope.extract(g)
        ctx = [type(c.obj).__name__ for c in st.frames[0].contexts]
        b = next(g)
    finally:
        lowlevel.set_trickery_enabled(None)
    if (a, b) != (0, 0):
        return f"F42: referents mode ran the metaclass __getattr__ of a class of the inspected program {b - a} times during one extraction"
    if ctx != ["Closer"]:
        return f"F42: the aliased exit method is no longer recognised in referents mode: contexts {ctx}"
    return None


@witness("F43", "C17")
def f43():
    # sys.modules[name] = None set BEFORE `import stackscope` for a module stackscope has built-in glue for
    import subprocess as sp

    code = ("import sys, warnings\nsys.modules['outcome'] = None\nsys.modules['greenlet'] = None\n"
            "with warnings.catch_warnings(record=True) as w:\n    warnings.simplefilter('always')\n    import stackscope\n"
            "    def g():\n        yield\n    it = g(); next(it)\n    st = stackscope.extract(it)\n"
            "print('ok', len(st.frames), st.error)\n")
    p = sp.run([sys.executable, "-c", code], capture_output=True, text=True, env=dict(os.environ), timeout=60)
    if p.returncode != 0 or not p.stdout.startswith("ok 1 None"):
        return f"F43: with sys.modules['outcome'] = None set first, `import stackscope` / the first extraction: rc={p.returncode} {p.stdout.strip()[:100]} {p.stderr.strip()[-200:]}"
    return None


@witness("F44", "C17")
def f44():
    import tempfile
    import types
    import stackscope
    from stackscope import _glue

    d = tempfile.mkdtemp()
    name = "verif_f44_partial"
    with open(os.path.join(d, name + ".py"), "w") as fh:
        fh.write("import stackscope\ndef _g():\n    yield\n_gen = _g(); next(_gen)\nstackscope.extract(_gen)\n"
                 "LOG = []\ndef _stackscope_install_glue_():\n    LOG.append('module')\n")
    sys.path.insert(0, d)
    log = []
    try:
        def g():
            yield

        gen = g()
        next(gen)
        stackscope.extract(gen)
        stackscope.extract(gen)
        _glue.builtin_glue(name)(lambda: log.append("builtin"))
        mod = __import__(name)
        sys.modules["verif_f44_other"] = types.ModuleType("verif_f44_other")
        stackscope.extract(gen)
        got = log + mod.LOG
    finally:
        sys.path.remove(d)
        sys.modules.pop(name, None)
        sys.modules.pop("verif_f44_other", None)
        _glue.builtin_glue_pending.pop(name, None)
        import shutil

        shutil.rmtree(d, ignore_errors=True)
    if got != ["module"]:
        return (f"F44: a module whose body makes an extraction before it defines its own glue (it is in sys.modules, still being "
                f"imported): glue calls {got}, expected only its own glue, once")
    return None


@witness("F45", "C09")
def f45():
    import contextlib
    import stackscope

    class BadRepr:
        def __repr__(self):
            raise ValueError("no repr")

    class BadMgr:
        def __enter__(self):
            return self

        def __exit__(self, *a):
            return False

        def __repr__(self):
            raise ValueError("no repr")

    @contextlib.contextmanager
    def leaf(x):
        yield

    class Plain:
        def __enter__(self):
            return self

        def __exit__(self, *a):
            return False

    def g():
        with contextlib.ExitStack() as stack:
            stack.enter_context(leaf(BadRepr()))
            stack.callback(id, BadRepr(), k=BadRepr())
            stack.enter_context(BadMgr())
            stack.push(Plain())
            yield

    it = g()
    next(it)
    st = stackscope.extract(it)
    ctx = st.frames[0].contexts[0]
    kinds = [(type(c.obj).__name__, (c.description or "").split("(")[0]) for c in ctx.children]
    want = [("_GeneratorContextManager", "stack.enter_context"), ("function", "stack.callback"), ("BadMgr", "stack.enter_context"),
            ("Plain", "stack.enter_context")]
    if st.error is not None or kinds != want:
        return f"F45: exit stack with arguments whose repr() raises: children {kinds}, error {st.error!r}; expected {want}"
    if ctx.children[0].inner_stack is None or not ctx.children[0].inner_stack.frames:
        return "F45: the generator-based child lost its inner_stack"
    str(st)
    return None


@witness("F46", "C15")
def f46():
    import threading
    import greenlet
    import stackscope

    box = {}

    def tgt():
        def inner():
            box["main"].switch()
        inner()

    def body():
        box["main"] = greenlet.getcurrent()
        g = greenlet.greenlet(tgt)
        box["g"] = g
        g.switch()

    t = threading.Thread(target=body)
    t.start()
    t.join()
    import time

    for _ in range(200):            # (join() returns a little before the thread's state, with its greenlets, is torn down)
        if not t.is_alive() and box["main"].dead:
            break
        time.sleep(0.01)
    box2 = {}

    def body2():                    # a second exited thread whose greenlets nobody has asked anything yet
        box2["main"] = greenlet.getcurrent()
        g = greenlet.greenlet(tgt2)
        box2["g"] = g
        g.switch()

    def tgt2():
        box2["main"].switch()

    t2 = threading.Thread(target=body2)
    t2.start()
    t2.join()
    time.sleep(0.3)
    st2 = stackscope.extract(box2["g"])
    if st2.frames or st2.error is not None:
        return (f"F46: greenlet suspended when its thread exited (nobody asked it anything since): frames {[f.funcname for f in st2.frames]}, "
                f"error {st2.error!r}")
    out = []
    for name in ("g", "main"):
        st = stackscope.extract(box[name])          # asked BEFORE anyone looks at .dead
        out.append((name, [f.funcname for f in st.frames], repr(st.error)))
    for name, frames, err in out:
        if frames or err != "None":
            return (f"F46: greenlet {name!r} of a thread that has exited (dead={box[name].dead}): extract gave frames {frames}, error {err}; "
                    f"a dead greenlet has no frames")
    return None


@witness("F47", "C20")
def f47():
    import contextlib
    import io
    import warnings
    from stackscope import _lowlevel as L

    class M:
        def __enter__(self):
            return self

        def __exit__(self, *a):
            return False

    def g():
        with M():
            yield

    class BadKey:
        def __repr__(self):
            raise RuntimeError("repr failed")

    it = g()
    next(it)
    L.set_trickery_enabled(True)
    orig = L.inspect_frame
    try:
        for label, exc, closed in (("an exception whose repr() raises", KeyError(BadKey()), False), ("sys.stderr closed", ZeroDivisionError("x"), True)):
            def boom(*a, **kw):
                raise exc

            L.inspect_frame = boom
            err = io.StringIO()
            if closed:
                err.close()
            try:
                with warnings.catch_warnings(record=True) as caught, contextlib.redirect_stderr(err):
                    warnings.simplefilter("always")
                    res = L.contexts_active_in_frame(it.gi_frame, it)
            except Exception as ex:
                return f"F47: trickery failure with {label}: contexts_active_in_frame raised {type(ex).__name__}: {ex} instead of warning and falling back"
            n = sum(issubclass(x.category, L.InspectionWarning) for x in caught)
            if n != 1 or [type(c.obj).__name__ for c in res] != ["M"]:
                return f"F47: {label}: {n} warnings, contexts {[type(c.obj).__name__ for c in res]}"
    finally:
        L.inspect_frame = orig
        L.set_trickery_enabled(None)
    return None


@witness("F48", "C15")
def f48():
    import functools
    import greenlet
    import stackscope

    g = greenlet.greenlet(stackscope.extract)
    st = g.switch(g)
    if st.frames or st.error is not None:
        return f"F48: greenlet(extract).switch(itself): frames {[f.funcname for f in st.frames]}, error {st.error!r}; its own portion of the stack is empty"
    box = {}

    def run():
        return stackscope.extract(box["g"])

    g2 = greenlet.greenlet(functools.partial(lambda: run()))
    box["g"] = g2
    st = g2.switch()
    if st.error is not None or [f.funcname for f in st.frames][-1:] != ["run"]:
        return f"F48: a greenlet asking about itself from a function of its own: {[f.funcname for f in st.frames]} error {st.error!r}"
    return None


@witness("F49", "C15")
def f49():
    import greenback
    import greenlet
    import trio
    from stackscope import extract

    out = {}
    park = _park_and_report(out, "k")

    def in_nested():
        greenback.await_(park())

    def sync_fn():
        greenlet.greenlet(in_nested).switch()

    async def main():
        await greenback.ensure_portal()
        sync_fn()

    trio.run(main)
    for where in ("outside", "inside"):
        st = out["k", where]
        shown = [n for n, h in _user(st) if h == "shown" and n != "greenback_shim"]
        want = ["main", "sync_fn", "in_nested", "park"]
        if st.error is not None or shown != want:
            return (f"F49: greenback.await_() made from a user-created greenlet nested in the task's sync code, extraction from {where}: "
                    f"visible frames {shown} error {st.error!r}; want {want}")
    return None


# ------------------------------------------------------------------------------------------------------------------
# Witnesses of KNOWN (recorded, not repaired) findings: these FAIL on the current tree; the check prints KNOWN-FINDING for them.
KNOWN_FOR: Dict[str, List[str]] = {}


def _f52_body():
    import stackscope

    class Bad:
        def __repr__(self):
            raise RuntimeError("no repr")

    def gen():
        yield 1

    g = gen()
    next(g)
    good = stackscope.extract(g)
    st = stackscope.extract(Bad())
    kid = stackscope.Stack(root=Bad(), frames=list(stackscope.extract(g).frames), leaf=None, error=None)
    good.frames[0].contexts = [stackscope.Context(obj=None, is_async=False, children=[kid, stackscope.Context(obj=Bad(), is_async=False)])]
    bad = []
    for name, s in (("extract(<object whose repr raises>)", st), ("a stack with such a child task root and child context", good)):
        for what, fn in (("format()", lambda s=s: s.format()), ("str()", lambda s=s: str(s)), ("format_flat()", lambda s=s: s.format_flat()),
                         ("format_flat(show_contexts=True)", lambda s=s: s.format_flat(show_contexts=True))):
            try:
                out = fn()
                lines = out if isinstance(out, list) else out.splitlines(True)
                if not all(l.endswith("\n") for l in lines):
                    bad.append(f"{what} of {name}: a line is not newline-terminated")
            except Exception as e:  # noqa: BLE001
                bad.append(f"{what} of {name} raised {type(e).__name__}: {e}")
    return bad


@witness("F52", "C05")
def f52():
    bad = _f52_body()
    return ("F52: the result of extract() cannot be formatted: " + "; ".join(bad[:3])) if bad else None


@witness("F52b", "C18")
def f52b():
    bad = _f52_body()
    return ("F52: format() does not return lines: " + "; ".join(bad[:3])) if bad else None


@witness("F52c", "C19")
def f52c():
    bad = [b for b in _f52_body() if "format_flat" in b]
    return ("F52: format_flat() does not return lines: " + "; ".join(bad[:3])) if bad else None


@witness("F53", "C04")
def f53():
    import stackscope

    class NS:
        def __init__(s):
            s.d = {}

        def __getitem__(s, k):
            return s.d[k]

        def __setitem__(s, k, v):
            s.d[k] = v

    res = {}

    def leaf():
        res["st"] = stackscope.extract_since(None, with_contexts=False)

    def level():
        leaf()

    def outer():
        exec(compile("level()", "<rule>", "exec"), {"level": level}, NS())

    outer()
    st = res["st"]
    names = [f.funcname for f in st.frames]
    if names[-2:] != ["level", "leaf"] or st.error is not None:
        return (f"F53: a frame with a minimal-mapping f_locals on the calling stack: extract_since(None) ends in {names[-3:]} with error "
                f"{st.error!r}; the calling thread's frames go on to level and leaf")
    return None


@witness("F55", "C20")
def f55():
    import sys
    import threading
    import stackscope
    from stackscope import _lowlevel as ll
    from stackscope.lowlevel import set_trickery_enabled

    class M:
        def __enter__(s):
            return s

        def __exit__(s, *a):
            return False

    def gen():
        with M() as the_manager:  # noqa: F841
            yield

    g = gen()
    next(g)
    set_trickery_enabled(True)
    stackscope.extract(g)
    code = ll._check_trickery_available.__code__
    state = {"lines": 0, "ran": False}

    def local(frame, event, arg):
        if event == "line":
            state["lines"] += 1
            if state["lines"] == 2 and not state["ran"]:
                # another thread's set_trickery_enabled(None) completes here, between two steps of the fast path
                state["ran"] = True
                t = threading.Thread(target=set_trickery_enabled, args=(None,))
                t.start()
                t.join()
        return local

    def tracer(frame, event, arg):
        return local if frame.f_code is code else None

    sys.settrace(tracer)
    try:
        st = stackscope.extract(g)
    finally:
        sys.settrace(None)
    ctx = st.frames[0].contexts
    after = stackscope.extract(g).frames[0].contexts
    if not state["ran"]:
        return "F55: harness: the window was not reached"
    if not ctx or ctx[0].varname != "the_manager" or not after or after[0].varname != "the_manager":
        return (f"F55: set_trickery_enabled(None) completing on another thread inside _check_trickery_available's fast path (setting before: "
                f"True, after: auto-detect = True here): this extraction reports varname {ctx[0].varname if ctx else None!r} (the referents "
                f"analysis, no warning), the next one {after[0].varname if after else None!r}")
    return None


@witness("F55b", "C01")
def f55b():
    return f55()


def _f56_body(mode):
    import types
    import stackscope
    from stackscope.lowlevel import set_trickery_enabled

    set_trickery_enabled(mode)

    @types.coroutine
    def trap():
        yield

    class KwOnly:
        async def __aenter__(s):
            return s

        async def __aexit__(*args, note="not a manager"):
            await trap()

    class StarOnly:
        async def __aenter__(s):
            return s

        async def __aexit__(*args):
            await trap()

    class SyncStar:
        def __enter__(s):
            return s

        def __exit__(*args, flag=0):
            import stackscope as ss
            args[0].seen = ss.extract(ss.StackSlice(), with_contexts=True)

    bad = []
    for cls in (KwOnly, StarOnly):
        m = cls()

        async def f():
            async with m:
                pass

        c = f()
        c.send(None)
        ctx = stackscope.extract(c).frames[0].contexts[-1]
        if not ctx.is_exiting or ctx.obj is not m:
            bad.append(f"{cls.__name__}.__aexit__{'(*args, note=...)' if cls is KwOnly else '(*args)'} suspended: is_exiting={ctx.is_exiting} "
                       f"obj={ctx.obj!r}")
    m = SyncStar()

    def user():
        with m:
            pass

    user()
    fr = [f for f in m.seen.frames if f.funcname == "user"]
    if not fr or not fr[0].contexts or fr[0].contexts[-1].obj is not m:
        bad.append(f"SyncStar.__exit__(*args, flag=0) running: obj={fr[0].contexts[-1].obj if fr and fr[0].contexts else None!r}")
    return bad


@witness("F56", "C20")
def f56():
    bad = _f56_body(False)
    return ("F56: referents mode: the exiting entry's obj is not the manager whose exit is in progress: " + "; ".join(bad)) if bad else None


@witness("F56b", "C02")
def f56b():
    bad = _f56_body(True)
    return ("F56: the exiting entry's obj is not the manager whose exit is in progress: " + "; ".join(bad)) if bad else None


@witness("F57", "C08")
def f57():
    import contextlib
    import stackscope

    class NS:
        pass

    class Base:
        ns = NS()
        table = {}

        def get(self, k):
            return self.ns

    class K(Base):
        def run(self):
            cm = contextlib.nullcontext(1)
            k = "k"
            mgr = cm
            out = {}

            def probe(tag):
                st = stackscope.extract(stackscope.StackSlice(), with_contexts=True)
                fr = [f for f in st.frames if f.funcname == "run"][0]
                out[tag] = fr.contexts[-1].varname

            with cm as super().ns.x:
                probe("super().ns.x")
            with cm as super().table[k]:
                probe("super().table[k]")
            with cm as super().get(k).slot:
                probe("super().get(k).slot")
            with mgr as super(K, self).ns.x:
                probe("super(K, self).ns.x")
            return out

    bad = [f"`as {want}` reported as {got!r}" for want, got in K().run().items() if got != want]
    if bad:
        return "F57: targets that read an attribute of super() (3.12: LOAD_SUPER_ATTR) are dropped or replaced by a local's name: " + "; ".join(bad)
    return None


@witness("F59", "C15")
def f59():
    import greenback
    import greenlet
    import trio
    from stackscope import extract

    def no_abort(_):
        return trio.lowlevel.Abort.FAILED

    bad = []
    for levels in (2, 3):
        out = {}

        async def park():
            task = trio.lowlevel.current_task()

            def cb():
                out["outside"] = extract(task.coro)
                trio.lowlevel.reschedule(task)

            trio.lowlevel.current_trio_token().run_sync_soon(cb)
            await trio.lowlevel.wait_task_rescheduled(no_abort)
            out["inside"] = extract(task.coro)

        def nest(n):
            if n == 0:
                greenback.await_(park())
            else:
                greenlet.greenlet(nest).switch(n - 1)

        def sync_fn():
            nest(levels)

        async def main():
            await greenback.ensure_portal()
            sync_fn()

        trio.run(main)
        want = ["greenback_shim", "main", "sync_fn"] + ["nest"] * (levels + 1) + ["park"]
        for where in ("outside", "inside"):
            got = [f.funcname for f in out[where].frames if not f.hide]
            if got != want or out[where].error is not None:
                bad.append(f"nesting {levels}, from {where}: visible frames {got} error {out[where].error!r}; want {want}")
    if bad:
        return "F59: greenback.await_() made from a user greenlet nested two or more levels deep: " + "; ".join(bad[:2])
    return None


@witness("F60", "C07")
def f60():
    import threading
    import stackscope

    res = {}
    for _ in range(30):
        a = threading.Thread(target=lambda: None)
        a.start()
        a.join()

        def insp():
            res["same"] = a.ident == threading.get_ident()
            res["st"] = stackscope.extract(a)

        b = threading.Thread(target=insp)
        b.start()
        b.join()
        if res["same"]:
            break
    if not res.get("same"):
        return None          # the platform did not hand the ident on: nothing to observe here
    st = res["st"]
    if st.frames or st.error is not None:
        return (f"F60: extract(finished thread) from a thread that was given the finished thread's ident returned "
                f"{[f.funcname for f in st.frames]} (error {st.error!r}); a finished thread has no frames")
    me = stackscope.extract(threading.current_thread())
    if not me.frames or me.frames[-1].funcname != "f60":
        return f"F60: extract(current_thread()) no longer ends at the caller: {[f.funcname for f in me.frames][-3:]}"
    return None


@witness("F61", "C20")
def f61():
    import linecache
    import sys
    import threading
    import stackscope
    from stackscope import _lowlevel as ll
    from stackscope.lowlevel import set_trickery_enabled

    class M:
        def __enter__(s):
            return s

        def __exit__(s, *a):
            return False

    def gen():
        with M() as the_manager:  # noqa: F841
            yield

    g = gen()
    next(g)
    set_trickery_enabled(None)          # auto-detection pending: the next inspection takes the slow path
    code = ll._check_trickery_available.__code__
    state = {"ran": False}

    def local(frame, event, arg):
        if event == "line" and not state["ran"] and ll._can_use_trickery is not None:
            if linecache.getline(code.co_filename, frame.f_lineno).strip() == "return _can_use_trickery":
                # detection is done; another thread's set_trickery_enabled(None) is issued right here (it has to wait if the
                # lock is still held)
                state["ran"] = True
                t = threading.Thread(target=set_trickery_enabled, args=(None,), daemon=True)
                t.start()
                t.join(0.5)
        return local

    def tracer(frame, event, arg):
        return local if frame.f_code is code else None

    import contextlib
    import io
    import warnings

    with warnings.catch_warnings(), contextlib.redirect_stderr(io.StringIO()):
        warnings.simplefilter("ignore")
        sys.settrace(tracer)
        try:
            r = ll._check_trickery_available()
        finally:
            sys.settrace(None)
    if not state["ran"]:
        return "F61: harness: the window was not reached"
    if r is not True:
        return (f"F61: auto-detection finished and set_trickery_enabled(None) issued by another thread as the call was about to return: "
                f"_check_trickery_available() returned {r!r}; detection had succeeded (True), and None is no answer")
    return None


def known_witness(wid: str, *pids: str):
    def deco(fn):
        W[wid] = fn
        for pid in pids:
            KNOWN_FOR.setdefault(pid, []).append(wid)
        return fn

    return deco


@known_witness("F34", "C01", "C02")
def f34():
    import stackscope

    res = {}

    def probe(tag):
        st = stackscope.extract(stackscope.StackSlice())
        for f in st.frames:
            if f.pyframe.f_code.co_name == "target":
                res[tag] = [(type(c.obj).__name__, c.is_exiting) for c in f.contexts]

    class Outer:
        def __enter__(s):
            return s

        def __exit__(s, *a):
            pass

    class Static(Outer):
        @staticmethod
        def __exit__(*a):
            pass

    def target():
        with Outer():
            with Static():
                probe("body")

    import contextlib
    import io

    with contextlib.redirect_stderr(io.StringIO()):
        target()
    if res.get("body") != [("Outer", False), ("Static", False)]:
        return (f"F34: frame suspended in the body of `with Outer(): with Static():` where Static.__exit__ is a staticmethod: "
                f"contexts {res.get('body')}; entered and not exited are [Outer, Static]")
    return None


@known_witness("F51", "C04")
def f51():
    import sys
    import greenback
    import trio
    from stackscope import StackSlice, extract, extract_until

    res = {}

    def probe():
        full = []
        f = sys._getframe(0)
        import greenlet
        g = greenlet.getcurrent()
        while g is not None:
            while f is not None:
                full.append(f)
                f = f.f_back
            g = g.parent
            f = g.gr_frame if g is not None else None
        full = full[::-1]
        gb = [i for i, fr in enumerate(full) if str(fr.f_globals.get("__name__", "")).startswith("greenback")]
        bad = []
        for i in gb:
            got = [fr.pyframe for fr in extract_until(full[i], with_contexts=False).frames]
            if got != full[:i + 1]:
                bad.append(f"extract_until(<{full[i].f_code.co_name}>) gave {len(got)} frames ending in "
                           f"{got[-1].f_code.co_name if got else None}; the slice is the {i + 1} frames ending in {full[i].f_code.co_name}")
            got = [fr.pyframe for fr in extract(StackSlice(outer=full[i], limit=1), with_contexts=False).frames]
            if got != [full[i]]:
                bad.append(f"StackSlice(outer=<{full[i].f_code.co_name}>, limit=1) gave {[x.f_code.co_name for x in got]}")
        res["bad"] = bad
        res["n"] = len(gb)

    async def main():
        await greenback.ensure_portal()
        probe()

    trio.run(main)
    if not res.get("n"):
        return "F51: harness: no greenback frame on the stack"
    if res["bad"]:
        return ("F51: a slice of the running stack whose last frame is one of greenback's own frames (shim, trampoline, await_) runs on "
                "past its end (the greenback hooks take 'next_inner is not a Frame' to mean 'suspended here'): " + "; ".join(res["bad"][:2]))
    return None


@known_witness("F35", "C07")
def f35():
    import threading
    import time
    import greenlet
    from stackscope import extract

    lock = threading.Lock()
    lock.acquire()
    arrived = threading.Event()

    def inner_g():
        arrived.set()
        lock.acquire(True, 60)

    def outer_fn():
        greenlet.greenlet(inner_g).switch()

    def entry():
        outer_fn()

    t = threading.Thread(target=entry, daemon=True)
    t.start()
    arrived.wait()
    time.sleep(0.1)
    stack = extract(t)
    lock.release()
    t.join()
    names = [f.funcname for f in stack.frames if "threading" not in f.filename]
    if names != ["entry", "outer_fn", "inner_g"]:
        return (f"F35: thread blocked inside a non-main greenlet: extract(thread) gave frames {names}, error {stack.error!r}; "
                f"the thread's frames are [entry, outer_fn, inner_g]")
    return None


@known_witness("F36", "C05")
def f36():
    import contextlib
    import stackscope
    from stackscope import unwrap_context_generator, elaborate_frame

    class Res:
        def __enter__(self):
            return self

        def __exit__(self, *a):
            return False

    @contextlib.contextmanager
    def wrapper_cm():
        with Res() as inner:  # noqa: F841
            yield

    @unwrap_context_generator.register(wrapper_cm)
    def _unwrap_wrapper(frame, context):
        return frame.contexts[0].obj if frame.contexts else None

    exc = ValueError("fault in the wrapper generator's frame hook")
    fired = []

    @elaborate_frame.register(wrapper_cm)
    def _boom(frame, next_inner):
        fired.append(1)
        raise exc

    def gen():
        with wrapper_cm():
            yield

    g = gen()
    g.send(None)
    st = stackscope.extract(g)

    def errors(stack):
        out = []
        if stack.error is not None:
            out.append(stack.error)
            out.extend(getattr(stack.error, "exceptions", ()))
        for f in stack.frames:
            for c in f.contexts:
                out.extend(ctx_errors(c))
        return out

    def ctx_errors(c):
        out = []
        if c.inner_stack is not None:
            out.extend(errors(c.inner_stack))
        for ch in c.children:
            if isinstance(ch, stackscope.Stack):
                out.extend(errors(ch))
            else:
                out.extend(ctx_errors(ch))
        return out

    if fired and not any(e is exc for e in errors(st)):
        return ("F36: a hook fault recorded in the inner_stack of a generator-based manager is discarded with that inner_stack when "
                "unwrap_context_generator replaces the manager by an inner one: the exception is retrievable from no Stack.error")
    return None



@known_witness("F54", "C06")
def f54():
    import stackscope

    log = []

    class Mgr:
        def __getattribute__(s, n):
            if n == "__class__":
                log.append("Mgr")
            return object.__getattribute__(s, n)

        def __enter__(s):
            return s

        def __exit__(s, *a):
            return False

    class Ticket:
        def __getattribute__(s, n):
            if n == "__class__":
                log.append("Ticket")
            return object.__getattribute__(s, n)

        def __await__(s):
            return s

        def __iter__(s):
            return s

        def __next__(s):
            return s

    async def waiter():
        with Mgr():
            await Ticket()

    c = waiter()
    c.send(None)
    log.clear()
    stackscope.extract(c, with_contexts=False)
    n0 = len(log)
    stackscope.extract(c)
    if log:
        return (f"F54: extraction ran the target's own __getattribute__ (looking up __class__: isinstance() and singledispatch fall back to "
                f"it) {n0} times without contexts and {len(log) - n0} more times with them, on the awaited object and on the manager; an "
                f"un-observed run makes no such call")
    return None

if __name__ == "__main__":
    wid = sys.argv[1]
    if wid == "--all":
        rc = 0
        for k in W:
            r = run(k)
            print(k, r)
            rc |= r != "ok"
        sys.exit(rc)
    res = W[wid]()
    if res is None:
        print("ok")
        sys.exit(0)
    print(res.replace("\n", " "))
    sys.exit(1)
