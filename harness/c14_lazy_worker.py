"""C14 subprocess leg: the Trio glue is installed lazily, by the first extraction after `import trio`.  Where that first
extraction happens must not matter for what later extractions return.

usage: python c14_lazy_worker.py <first>     first in {outside, before_run, before_io_wait, after_task_step, task, thread}
prints one JSON object.
"""
import json
import sys
import threading
import warnings

first = sys.argv[1]
caught = []


def hook(message, category, filename, lineno, file=None, line=None):
    caught.append(f"{category.__name__}: {message}")


warnings.simplefilter("always")
warnings.showwarning = hook

import stackscope  # noqa: E402  (before trio: its Trio glue stays pending)

done = {"n": 0}


def first_extract():
    if done["n"] == 0:
        done["n"] = 1
        stackscope.extract(object())


if first == "outside":
    import trio  # noqa: E402
    first_extract()
else:
    import trio  # noqa: E402


class Inst(trio.abc.Instrument):
    def before_run(self):
        if first == "before_run":
            first_extract()

    def before_io_wait(self, timeout):
        if first == "before_io_wait":
            first_extract()

    def after_task_step(self, task):
        if first == "after_task_step":
            first_extract()


out = {"first": first}


async def child(ev):
    await ev.wait()


async def main():
    if first == "racing_thread":
        # another thread's extraction is in the middle of installing the Trio glue (held there for a moment) when this task asks
        # for its own tree: the answer must wait for the glue, not come back without it
        from stackscope import _glue

        entered, release = threading.Event(), threading.Event()
        real_glue = _glue.builtin_glue_pending.get("trio")
        if real_glue is not None:
            def slow_glue():
                entered.set()
                release.wait(1.5)
                real_glue()
            _glue.builtin_glue_pending["trio"] = slow_glue
        th = threading.Thread(target=first_extract, daemon=True)
        th.start()
        await trio.to_thread.run_sync(lambda: entered.wait(5))
        out["glue_was_pending"] = real_glue is not None
    if first == "task":
        first_extract()
    if first == "thread":
        await trio.to_thread.run_sync(first_extract)
    ev = trio.Event()
    async with trio.open_nursery() as nursery:
        nursery.start_soon(child, ev, name="kid_a")
        nursery.start_soon(child, ev, name="kid_b")
        await trio.sleep(0.01)
        await trio.sleep(0.01)
        me = trio.lowlevel.current_task()
        st = stackscope.extract(me, recurse_child_tasks=True)
        kids = []
        nurseries = 0
        for f in st.frames:
            for c in f.contexts:
                if isinstance(c.obj, trio.Nursery):
                    nurseries += 1
                for ch in c.children:
                    if isinstance(ch, stackscope.Stack):
                        kids.append(getattr(ch.root, "name", repr(ch.root)))
        out["nurseries"] = nurseries
        out["kids"] = sorted(kids)
        out["want"] = sorted(t.name for t in nursery.child_tasks)
        out["error"] = repr(st.error) if st.error is not None else None
        ev.set()
    if first == "racing_thread":
        release.set()
        await trio.to_thread.run_sync(lambda: th.join(10))


trio.run(main, instruments=[Inst()])
out["first_done"] = done["n"]
out["warnings"] = caught[:5]
print(json.dumps(out))
