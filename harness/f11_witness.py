"""F11 witness (run in its own subprocess by the C07 check): the target thread is advanced between the f_lasti check and the slot read of inspect_frame; the slot read then takes a reference to an object that was already freed.  Prints STALE when that happened; the interpreter may also die afterwards."""
import sys, threading, linecache, faulthandler, gc, weakref
faulthandler.enable()
import stackscope
import stackscope._lowlevel_cpython_311 as impl
go1 = threading.Event(); parked1 = threading.Event(); go2 = threading.Event(); parked2 = threading.Event()
class CM:
    def __enter__(s): return s
    def __exit__(s,*e): return False
class It:
    def __iter__(s): return s
    def __next__(s): return 1
box = {}
def target():
    box['frame'] = sys._getframe(0)
    it = It(); box['wr'] = weakref.ref(it)
    a = It(); b = It()
    for _ in a:                      # slot 0
        for _ in b:                  # slot 1
            for _ in it:             # slot 2: iterator referenced only from the value stack
                del it
                with CM():           # slot 3: bound __exit__
                    parked1.set(); go1.wait()
                break
            break
        break
    parked2.set(); go2.wait()        # uses slots 0 and 1 only; slot 2 keeps the stale pointer
t = threading.Thread(target=target); t.start(); parked1.wait()
fr = box['frame']
state = {'fired': False, 'reads': []}
def tracer(frame, event, arg):
    if frame.f_code is impl.inspect_frame.__code__:
        def local(frame, event, arg):
            if event == 'line':
                src = linecache.getline(frame.f_code.co_filename, frame.f_lineno)
                if not state['fired'] and 'obj = stack_ptr[i]' in src and frame.f_locals.get('i') == 2:
                    state['fired'] = True
                    go1.set(); parked2.wait()
                    state['iter_dead_before_read'] = box['wr']() is None
                elif state['fired'] and 'details.stack.append(obj)' in src and len(state['reads'])<2:
                    o = frame.f_locals.get('obj')
                    state['reads'].append((type(o).__name__, hex(id(o))))
            return local
        return local
sys.settrace(tracer)
try:
    d = impl.inspect_frame(fr); print("inspect_frame returned:", d)
except Exception as e:
    print("inspect_frame raised:", type(e).__name__, e)
sys.settrace(None)
if state.get("iter_dead_before_read") and state["reads"]:
    print("STALE: the iterator was finalised before slot 2 was read, yet the read materialised", state["reads"][0])
else:
    print("no stale read", state)
sys.stdout.flush()
gc.collect(); x = [object() for _ in range(100000)]
print("survived")
go2.set(); t.join()
