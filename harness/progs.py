"""The C01 program space: generated function bodies built from with / async with (1..n items, any or no
`as` target), try/except/else/finally, for/while, if, match, and every way of leaving a block; run under
a controller that fixes every branch / raise / swallow decision from a recorded choice list, with
instrumented managers that log enter / exit events.  At every suspension point (and, for C02, at probe
calls inside the body and inside the managers' methods) the real context analysis is compared with the
truth read off the event log.
"""
from __future__ import annotations

import random
import sys
import types
import warnings
from typing import Any, Callable, Dict, List, Optional, Tuple

KINDS = ["gen", "coro", "agen", "sync"]


@types.coroutine
def trap():
    yield "trap"


class Boom(Exception):
    pass


class World:
    """Run-time support referenced by generated code (as `W`)."""

    def __init__(self, choices: List[int], observer: Callable[["World", str], None]):
        self.choices = list(choices)
        self.pos = 0
        self.log: List[Tuple[str, int]] = []
        self.mgrs: Dict[int, Any] = {}
        self.next_id = 0
        self.observer = observer
        self.frame = None            # the program's frame (set by the runner)
        self.depth = 0

    def ch(self, n: int = 2) -> int:
        if self.pos < len(self.choices):
            v = self.choices[self.pos] % n
        else:
            v = 0
        self.pos += 1
        return v

    # managers -------------------------------------------------------------------------------
    def M(self, probes: bool = False):
        w = self
        mid = self.next_id
        self.next_id += 1

        def keeps_self(fn):
            # a decorator whose wrapper keeps `self` explicit; functools.wraps renames the function, not the code object
            import functools

            @functools.wraps(fn)
            def wrapper(self, *a, **kw):
                return fn(self, *a, **kw)
            return wrapper

        class Mgr:
            def __enter__(s):
                w.log.append(("enter_start", mid))
                if probes:
                    w.observer(w, f"in __enter__ of {mid}")
                w.log.append(("entered", mid))
                return [s, 1, 2]          # iterable, so that unpacking targets work

            def close(s, et, ev, tb):
                w.log.append(("exit_start", mid))
                if probes:
                    w.observer(w, f"in __exit__ of {mid}")
                swallow = et is not None and issubclass(et, Boom) and w.ch() == 1
                w.log.append(("exit_end", mid))
                return swallow

            # the exit method goes by its own name, by an alias, or through a decorator: one in three each
            __exit__ = close if mid % 3 == 1 else keeps_self(close) if mid % 3 == 2 else (lambda s, et, ev, tb: Mgr.close(s, et, ev, tb))
            if mid % 3 == 0:
                def __exit__(s, et, ev, tb):      # noqa: F811  (the plain form)
                    w.log.append(("exit_start", mid))
                    if probes:
                        w.observer(w, f"in __exit__ of {mid}")
                    swallow = et is not None and issubclass(et, Boom) and w.ch() == 1
                    w.log.append(("exit_end", mid))
                    return swallow

            def __repr__(s):
                return f"<M{mid}>"

            if mid % 5 == 3:
                def __bool__(s):           # falsy
                    return False

        if mid % 7 in (1, 2, 4, 5):
            # the manager is an instance of a subclass: its exit method (and whatever alias or decorator it goes by) is inherited
            Mgr = type("Mgr", (Mgr,), {})
        m = Mgr()
        self.mgrs[mid] = m
        return m

    def AM(self, probes: bool = False, suspend: bool = True):
        w = self
        mid = self.next_id
        self.next_id += 1

        class AMgr:
            async def __aenter__(s):
                w.log.append(("enter_start", mid))
                if probes:
                    w.observer(w, f"in __aenter__ of {mid}")
                if suspend and w.ch() == 1:
                    await trap()
                w.log.append(("entered", mid))
                return [s, 1, 2]

            async def aclose(s, et, ev, tb):
                w.log.append(("exit_start", mid))
                if probes:
                    w.observer(w, f"in __aexit__ of {mid}")
                if suspend and w.ch() == 1:
                    await trap()
                swallow = et is not None and issubclass(et, Boom) and w.ch() == 1
                w.log.append(("exit_end", mid))
                return swallow

            if mid % 5 == 4:
                # a plain function handing back an awaitable that is neither a coroutine nor a generator (the asend() of an
                # async generator doing the work): the interpreter's SEND is then not inlined, and while that code runs the
                # awaiting frame's f_lasti rests on SEND itself
                def __aexit__(s, et, ev, tb):
                    return s.worker(et, ev, tb).asend(None)

                async def worker(s, et, ev, tb):
                    w.log.append(("exit_start", mid))
                    if probes:
                        w.observer(w, f"in __aexit__ of {mid}")
                    if suspend and w.ch() == 1:
                        await trap()
                    swallow = et is not None and issubclass(et, Boom) and w.ch() == 1
                    w.log.append(("exit_end", mid))
                    w.keep.append(s)          # (the generator stays suspended at this yield; it is closed with the world)
                    yield swallow
            elif mid % 4 == 1:
                __aexit__ = aclose                     # an alias: the code object is named aclose
            elif mid % 4 == 2:
                def _deco(fn):
                    import functools

                    @functools.wraps(fn)
                    def wrapper(self, *a, **kw):        # an ordinary function returning the coroutine
                        return fn(self, *a, **kw)
                    return wrapper
                __aexit__ = _deco(aclose)
            elif mid % 4 == 3:
                def __aexit__(s, et, ev, tb):
                    # a plain function that does some work (here: is probed) and then delegates to a coroutine method
                    w.log.append(("exit_start", mid))
                    if probes:
                        w.observer(w, f"in __aexit__ (call) of {mid}")
                    return s.aclose_late(et, ev, tb)

                async def aclose_late(s, et, ev, tb):
                    if probes:
                        w.observer(w, f"in __aexit__ of {mid}")
                    if suspend and w.ch() == 1:
                        await trap()
                    swallow = et is not None and issubclass(et, Boom) and w.ch() == 1
                    w.log.append(("exit_end", mid))
                    return swallow
            else:
                async def __aexit__(s, et, ev, tb):
                    w.log.append(("exit_start", mid))
                    if probes:
                        w.observer(w, f"in __aexit__ of {mid}")
                    if suspend and w.ch() == 1:
                        await trap()
                    swallow = et is not None and issubclass(et, Boom) and w.ch() == 1
                    w.log.append(("exit_end", mid))
                    return swallow

            def __repr__(s):
                return f"<AM{mid}>"

            if mid % 5 == 3:
                def __len__(s):            # an emptied buffer / pool: falsy, which says nothing about whether it is a manager
                    return 0

        if mid % 7 in (1, 2, 4, 5):
            AMgr = type("AMgr", (AMgr,), {})           # as for Mgr: everything inherited
        m = AMgr()
        self.mgrs[mid] = m
        return m

    # managers outside the shapes the bytecode analysis expects (C06 only: the C01 oracle does not apply to them)
    def SM(self, probes: bool = False):
        """__exit__ is a staticmethod: the value-stack slot holds a plain function (no __self__) -> trickery fails, referents fallback."""
        w = self
        mid = self.next_id
        self.next_id += 1

        class SMgr:
            def __enter__(s):
                w.log.append(("enter_start", mid))
                w.log.append(("entered", mid))
                return [s, 1, 2]

            @staticmethod
            def __exit__(et, ev, tb):
                w.log.append(("exit_start", mid))
                if probes:
                    w.observer(w, f"in __exit__ of {mid}")
                w.log.append(("exit_end", mid))
                return False

        m = SMgr()
        self.mgrs[mid] = m
        return m

    def DM(self, probes: bool = False):
        """__exit__ deletes its own `self` local before anything else: the frame's first argument cannot be read back."""
        w = self
        mid = self.next_id
        self.next_id += 1

        class DMgr:
            def __enter__(s):
                w.log.append(("enter_start", mid))
                w.log.append(("entered", mid))
                return [s, 1, 2]

            def __exit__(s, et, ev, tb):
                del s
                w.log.append(("exit_start", mid))
                if probes:
                    w.observer(w, f"in __exit__ of {mid}")
                w.log.append(("exit_end", mid))
                return False

        m = DMgr()
        self.mgrs[mid] = m
        return m

    def EQ(self, probes: bool = False):
        """A manager whose __eq__ / __hash__ are observable: an observer has no business comparing the target's objects."""
        w = self
        mid = self.next_id
        self.next_id += 1

        class EMgr:
            def __enter__(s):
                w.log.append(("enter_start", mid))
                w.log.append(("entered", mid))
                return [s, 1, 2]

            def __exit__(s, et, ev, tb):
                w.log.append(("exit_start", mid))
                if probes:
                    w.observer(w, f"in __exit__ of {mid}")
                w.log.append(("exit_end", mid))
                return False

            def __eq__(s, other):
                w.log.append(("eq-called", mid))
                return s is other

            def __hash__(s):
                w.log.append(("hash-called", mid))
                return id(s) >> 4

        m = EMgr()
        self.mgrs[mid] = m
        return m

    def CM(self, probes: bool = False):
        """A generator-based manager (contextlib.contextmanager)."""
        import contextlib

        w = self
        mid = self.next_id
        self.next_id += 1

        @contextlib.contextmanager
        def cm():
            w.log.append(("enter_start", mid))
            with w.M():
                w.log.append(("entered", mid))
                try:
                    yield [None, 1, 2]
                finally:
                    w.log.append(("exit_start", mid))
                    if probes:
                        w.observer(w, f"in __exit__ of {mid}")
                    w.log.append(("exit_end", mid))

        m = cm()
        self.mgrs[mid] = m
        return m

    def ES(self, probes: bool = False):
        """An ExitStack holding two managers and a callback."""
        import contextlib

        w = self
        mid = self.next_id
        self.next_id += 1
        es = contextlib.ExitStack()
        es.enter_context(w.M(probes))
        es.callback(w.log.append, ("callback", mid))
        es.enter_context(w.M())
        self.mgrs[mid] = es

        class Wrap:
            def __enter__(s):
                w.log.append(("entered", mid))
                es.__enter__()
                return [s, 1, 2]

            def __exit__(s, *a):
                w.log.append(("exit_start", mid))
                r = es.__exit__(*a)
                w.log.append(("exit_end", mid))
                return r

        return Wrap()

    def ACM(self, probes: bool = False):
        import contextlib

        w = self
        mid = self.next_id
        self.next_id += 1

        @contextlib.asynccontextmanager
        async def acm():
            w.log.append(("enter_start", mid))
            async with w.AM():
                w.log.append(("entered", mid))
                try:
                    yield [None, 1, 2]
                finally:
                    w.log.append(("exit_start", mid))
                    if w.ch() == 1:
                        await trap()
                    w.log.append(("exit_end", mid))

        m = acm()
        self.mgrs[mid] = m
        return m

    @property
    def keep(self):
        if not hasattr(self, "_keep"):
            self._keep = []
        return self._keep

    def anyeq(self):
        """An object that compares equal to everything (unittest.mock.ANY style): whoever looks for a manager among the locals
        by equality instead of identity finds this one."""
        class AnyEq:
            def __eq__(s, other):
                return True

            __hash__ = object.__hash__

        return AnyEq()

    def RM(self, probes: bool = False):
        """A RE-ENTRANT manager: one object per program, entered again while it is already active (a lock-like or
        counting resource).  The same object is then listed once per active entry."""
        if getattr(self, "_rm", None) is not None:
            return self._rm
        w = self
        mid = self.next_id
        self.next_id += 1

        class RMgr:
            def __enter__(s):
                w.log.append(("enter_start", mid))
                if probes:
                    w.observer(w, f"in __enter__ of {mid}")
                w.log.append(("entered", mid))
                return [s, 1, 2]

            def __exit__(s, et, ev, tb):
                w.log.append(("exit_start", mid))
                if probes:
                    w.observer(w, f"in __exit__ of {mid}")
                w.log.append(("exit_end", mid))
                return False

            def __repr__(s):
                return f"<RM{mid}>"

        self._rm = RMgr()
        self.mgrs[mid] = self._rm
        return self._rm

    def RAM(self, probes: bool = False):
        if getattr(self, "_ram", None) is not None:
            return self._ram
        w = self
        mid = self.next_id
        self.next_id += 1

        class RAMgr:
            async def __aenter__(s):
                w.log.append(("enter_start", mid))
                if probes:
                    w.observer(w, f"in __aenter__ of {mid}")
                if w.ch() == 1:
                    await trap()
                w.log.append(("entered", mid))
                return [s, 1, 2]

            async def __aexit__(s, et, ev, tb):
                w.log.append(("exit_start", mid))
                if probes:
                    w.observer(w, f"in __aexit__ of {mid}")
                if w.ch() == 1:
                    await trap()
                w.log.append(("exit_end", mid))
                return False

            def __repr__(s):
                return f"<RAM{mid}>"

        self._ram = RAMgr()
        self.mgrs[mid] = self._ram
        return self._ram

    def LK(self, probes: bool = False):
        """A manager implemented in C (a lock): its bound __exit__ is a builtin method, not a types.MethodType.  It cannot be
        instrumented; the generated source wraps the statement in try/finally and reports the exit with lk_done()."""
        import threading

        mid = self.next_id
        self.next_id += 1
        lock = threading.Lock()
        self.mgrs[mid] = lock
        if not hasattr(self, "_lk_stack"):
            self._lk_stack = []
        self._lk_stack.append(mid)
        self.log.append(("enter_start", mid))
        self.log.append(("entered", mid))       # (nothing can observe the instant between this call and the C-level __enter__)
        return lock

    def lk_done(self, n: int = 1):
        for _ in range(n):
            if getattr(self, "_lk_stack", None):
                mid = self._lk_stack.pop()
                self.log.append(("exit_start", mid))
                self.log.append(("exit_end", mid))

    def probe3(self, a, b, c):
        """A call with three positional arguments (the generated source passes three literal Nones: the shape of the compiler's
        own `__exit__(None, None, None)` call), probing from inside the callee."""
        self.observer(self, "probe in body (3-arg call)")

    def T(self, target, mgr):
        """Record the text of the `as` target (None if there is none) the generated source gives this manager."""
        if not hasattr(self, "target_of"):
            self.target_of = {}
        self.target_of[id(mgr)] = target
        return mgr

    def nn(self):
        """None or 1, by choice (for `is None` / `is not None` tests: POP_JUMP_IF_NONE and friends)."""
        return None if self.ch() == 1 else 1

    def probe(self):
        self.observer(self, "probe in body")

    def f(self):
        return 7

    # truth ----------------------------------------------------------------------------------
    def truth(self) -> List[Tuple[int, bool]]:
        """[(manager id, is_exiting)] outermost first: entered and exit not yet returned."""
        active: List[int] = []
        exiting: Optional[int] = None
        for ev, mid in self.log:
            if ev == "entered":
                active.append(mid)
            elif ev == "exit_start":
                exiting = mid
            elif ev == "exit_end":
                if mid in active:
                    del active[len(active) - 1 - active[::-1].index(mid)]      # (a re-entrant manager: its innermost entry)
                if exiting == mid:
                    exiting = None
        last = {m: i for i, m in enumerate(active)}
        return [(m, m == exiting and last[m] == i) for i, m in enumerate(active)]

    def entering(self) -> Optional[int]:
        """The manager whose __enter__/__aenter__ is in progress, if any."""
        cur = None
        for ev, mid in self.log:
            if ev == "enter_start":
                cur = mid
            elif ev == "entered" and cur == mid:
                cur = None
        return cur


# ---------------------------------------------------------------------------------------------
# generation
# ---------------------------------------------------------------------------------------------

TARGETS = [None, None, "x", "y", "ns.a", "(p, *q)", "d[0]", "ns.get(None).owner"]


class Gen:
    def __init__(self, rng: random.Random, kind: str, probes: bool, odd: bool = False):
        self.rng = rng
        self.kind = kind
        self.probes = probes
        self.odd = odd
        self.in_loop = 0
        self.budget = 28          # compound statements left: keeps programs readable and fast

    def susp(self, ind: str) -> List[str]:
        if self.kind == "gen":
            return [ind + "yield 1"]
        if self.kind == "coro":
            return [ind + "await TRAP()"]
        if self.kind == "agen":
            return [ind + self.rng.choice(["yield 1", "await TRAP()"])]
        return [ind + "W.probe()"]

    def block(self, depth: int, ind: str, nmax: int = 3) -> List[str]:
        n = self.rng.randint(1, nmax)
        out: List[str] = []
        for _ in range(n):
            out += self.stmt(depth, ind)
        if self.rng.random() < 0.16:
            # an unconditional way out as the last statement of the block (nothing falls through it)
            opts = ["raise Boom()", "return" if self.kind == "agen" else self.rng.choice(["return", "return 3", "return W.f()"])]
            if self.in_loop:
                opts += ["break", "continue"]
            out.append(ind + self.rng.choice(opts))
        return out

    def terminator(self) -> str:
        opts = ["raise Boom()", "return" if self.kind == "agen" else self.rng.choice(["return", "return 3", "return W.f()"])]
        if self.in_loop:
            opts += ["break", "continue"]
        return self.rng.choice(opts)

    def shaped_tail(self, depth: int, ind: str) -> List[str]:
        """The last statement of a with body: a compound statement whose final branch does not fall through (often ending
        in a nested with whose body ends in raise/return/...).  The compiler then drops that branch's dead normal exit, so
        an unconditional transfer sits right in front of the enclosing with's exit sequence — the layouts on which
        identifying the exiting block is hardest."""
        rng = self.rng
        self.budget -= 2
        i2 = ind + "    "

        def leaving(i):
            if rng.random() < 0.6:
                is_async = self.kind in ("coro", "agen") and rng.random() < 0.4
                ctor = ("W.AM(%s)" if is_async else "W.M(%s)") % ("True" if self.probes else "")
                t = rng.choice(TARGETS)
                head = i + ("async with " if is_async else "with ") + f"W.T({t!r}, {ctor})" + (f" as {t}" if t else "") + ":"
                inner = self.susp(i + "    ") if rng.random() < 0.4 else [i + "    pad = 3"]
                return [head] + inner + [i + "    " + self.terminator()]
            return [i + self.terminator()]

        first = self.susp(i2) if rng.random() < 0.5 else [i2 + "pad = 4"]
        shape = rng.choice(["ifelse", "match", "tryexcept", "ifelse"])
        if shape == "ifelse":
            cond = rng.choice(["if W.ch():", "if W.ch():", "if W.nn() is None:", "if W.nn() is not None:"])
            if rng.random() < 0.3:
                # `if c: <leave>` with nothing after it: the not-taken jump lands on the exit sequence itself
                return [ind + cond] + leaving(i2)
            return [ind + cond] + first + [ind + "else:"] + leaving(i2)
        if shape == "match":
            i3 = i2 + "    "
            f3 = [("    " + l) for l in first]
            return [ind + "match W.ch(3):", i2 + "case 0:"] + f3 + [i2 + "case 1:"] + [("    " + l) for l in first] + [i2 + "case _:"] + leaving(i3)
        return [ind + "try:"] + first + [i2 + "if W.ch(): raise Boom()"] + [ind + "except Boom:"] + leaving(i2)

    def stmt(self, depth: int, ind: str) -> List[str]:
        r = self.rng.random()
        rng = self.rng
        if self.budget <= 0:
            depth = 0
        else:
            self.budget -= 1
        if depth <= 0 or r < 0.22:
            q = rng.random()
            if q < 0.45:
                return self.susp(ind)
            if q < 0.52 and self.probes:
                return [ind + "W.probe()"]
            if q < 0.55 and self.probes:
                return [ind + "W.probe3(None, None, None)"]
            if q < 0.63:
                return [ind + ("if W.ch(): return 3" if self.kind != "agen" else "if W.ch(): return")]
            if q < 0.70:
                return [ind + "if W.ch(): return W.f()"] if self.kind not in ("agen",) else [ind + "if W.ch(): return"]
            if q < 0.74:
                return [ind + rng.choice(["if W.nn() is None: ", "if W.nn() is not None: "]) +
                        rng.choice(["raise Boom()", "pad = 5"] + (["break", "continue"] if self.in_loop else []) +
                                   (["return"] if True else []))]
            if q < 0.80:
                return [ind + "if W.ch(): raise Boom()"]
            if q < 0.88 and self.in_loop:
                return [ind + "if W.ch(): break"]
            if q < 0.94 and self.in_loop:
                return [ind + "if W.ch(): continue"]
            return [ind + "pad = 1"]
        if r < 0.55:
            # with statement
            is_async = self.kind in ("coro", "agen") and rng.random() < 0.6
            k = rng.choice([1, 1, 1, 2, 3])
            items = []
            for _ in range(k):
                t = rng.choice(TARGETS)
                ctor = ("W.AM(%s)" if is_async else "W.M(%s)") % ("True" if self.probes else "")
                if self.odd and rng.random() < 0.35:
                    ctor = (rng.choice(["W.ACM(%s)"]) if is_async else rng.choice(["W.SM(%s)", "W.SM(%s)", "W.CM(%s)", "W.ES(%s)", "W.DM(%s)", "W.EQ(%s)", "W.EQ(%s)"])) % ("True" if self.probes else "")
                if rng.random() < 0.12:
                    # a re-entrant manager (the same object every time, no `as` target)
                    items.append(("W.RAM(%s)" if is_async else "W.RM(%s)") % ("True" if self.probes else ""))
                    continue
                if not is_async and not items and rng.random() < 0.12:
                    # a manager implemented in C; always the FIRST item of its statement: it exits last, right before the
                    # finally that reports its exit, so no probe can see the log out of date
                    items.append("W.LK()")
                    continue
                items.append(f"W.T({t!r}, {ctor})" + (f" as {t}" if t else ""))
            kw = "async with " if is_async else "with "
            lay = rng.random()
            if lay < 0.70:
                head_lines = [ind + kw + ", ".join(items) + ":"]
            elif lay < 0.82 and k >= 2:
                # continuation lines: the 2nd+ items (and their BEFORE_WITH) follow instructions of a later line
                head_lines = [ind + kw + items[0] + ", \\"] + [ind + "        " + it + (", \\" if j < k - 2 else ":") for j, it in enumerate(items[1:])]
            elif lay < 0.94:
                # parenthesised, one item per line, trailing comma
                head_lines = [ind + kw + "("] + [ind + "        " + it + "," for it in items] + [ind + "):"]
            else:
                head_lines = [ind + kw + "(", ind + "        " + ",\n".join([items[0]] + [ind + "        " + it for it in items[1:]]), ind + "):"]
            head = "\n".join(head_lines)
            nlk = sum(it == "W.LK()" for it in items)
            if nlk:
                # the C-implemented managers report nothing themselves: their exit is logged by a finally around the statement
                body = self.block(depth - 1, ind + "        ")
                if rng.random() < 0.3 and self.budget > 0:
                    body += self.shaped_tail(depth - 1, ind + "        ")
                inner_head = "\n".join("    " + l for l in head.split("\n"))
                return [ind + "try:", inner_head] + body + [ind + "finally:", ind + f"    W.lk_done({nlk})"]
            body = self.block(depth - 1, ind + "    ")
            if rng.random() < 0.3 and self.budget > 0:
                body += self.shaped_tail(depth - 1, ind + "    ")
            return [head] + body
        if r < 0.72:
            out = [ind + "try:"] + self.block(depth - 1, ind + "    ")
            style = rng.choice(["except", "finally", "both", "except_else"])
            if style in ("except", "both", "except_else"):
                out += [ind + "except Boom:"] + self.block(depth - 1, ind + "    ", 2)
            if style == "except_else":
                out += [ind + "else:"] + self.block(depth - 1, ind + "    ", 2)
            if style in ("finally", "both"):
                out += [ind + "finally:"] + self.block(depth - 1, ind + "    ", 2)
            return out
        if r < 0.84:
            self.in_loop += 1
            if rng.random() < 0.5:
                out = [ind + f"for _i{depth} in range(1 + W.ch(2)):"] + self.block(depth - 1, ind + "    ")
            else:
                out = [ind + f"_n{depth} = 0", ind + f"while _n{depth} < 2 and W.ch():", ind + f"    _n{depth} += 1"] + \
                      self.block(depth - 1, ind + "    ")
            self.in_loop -= 1
            if rng.random() < 0.3:
                out += [ind + "else:"] + self.block(depth - 1, ind + "    ", 2)
            return out
        if r < 0.93:
            return [ind + "if W.ch():"] + self.block(depth - 1, ind + "    ") + [ind + "else:"] + self.block(depth - 1, ind + "    ", 2)
        return [ind + "match W.ch(3):", ind + "    case 0:"] + self.block(depth - 1, ind + "        ", 2) + \
               [ind + "    case 1:"] + self.block(depth - 1, ind + "        ", 2) + [ind + "    case _:", ind + "        pad = 2"]


def gen_program(rng: random.Random, kind: str, depth: int, probes: bool = False, odd: bool = False) -> str:
    g = Gen(rng, kind, probes, odd)
    head = {"gen": "def prog(W, ns, d):", "coro": "async def prog(W, ns, d):", "agen": "async def prog(W, ns, d):",
            "sync": "def prog(W, ns, d):"}[kind]
    body = []
    if rng.random() < 0.12:
        # a docstring takes constant slot 0 and 260 distinct constants come before the first None: every later
        # LOAD_CONST None needs an EXTENDED_ARG prefix
        body += ['    """doc"""'] + [f"    pad = {1000 + i}" for i in range(260)]
    body += ["    anyq = W.anyeq()", "    x = y = p = q = pad = None"] + g.block(depth, "    ", 4)
    if kind == "gen" and not any("yield" in l for l in body):
        body.append("    yield 0")
    if kind == "agen" and not any(l.strip().startswith("yield") for l in body):
        body.append("    yield 0")
    return "\n".join([head] + body) + "\n"


class NS:
    def get(self, key):
        """(for `as` targets that go through a call: `ns.get(None).owner`)"""
        return self


def run_program(src: str, kind: str, choices: List[int], observer: Callable[[World, str], None],
                max_steps: int = 60) -> World:
    """Execute the program to completion (or max_steps suspensions), calling observer at every suspension
    point (label 'suspended') and at every probe."""
    glob = {"Boom": Boom, "TRAP": trap}
    exec(compile(src, "<prog>", "exec"), glob)
    w = World(choices, observer)
    ns, d = NS(), {}
    obj = glob["prog"](w, ns, d) if kind != "sync" else None
    steps = 0
    try:
        if kind == "sync":
            w.target = None
            w.kind = kind
            try:
                w.log.append(("out:return", repr(glob["prog"](w, ns, d))))
            except Boom:
                w.log.append(("out:raise", "Boom"))
            return w
        w.target = obj
        w.kind = kind
        if kind == "agen_in_coro":
            # the async generator is consumed by a coroutine: observed at its internal awaits, its frame lies BELOW the root
            # coroutine's in the extracted stack (w.target is the root, w.origin the generator that owns w.frame)
            agen = obj

            async def _root():
                if w.ch() == 1:
                    async for _ in agen:
                        pass
                else:
                    try:
                        while True:
                            await agen.asend(None)
                    except StopAsyncIteration:
                        pass

            w.origin = agen
            w.frame = agen.ag_frame
            w.target = obj = _root()
            kind = "coro"
        else:
            w.frame = getattr(obj, {"gen": "gi_frame", "coro": "cr_frame", "agen": "ag_frame"}[kind])
        while steps < max_steps:
            steps += 1
            try:
                if kind == "gen":
                    w.log.append(("out:yield", repr(next(obj))))
                elif kind == "coro":
                    w.log.append(("out:trap", repr(obj.send(None))))
                else:
                    if getattr(w, "_pending", None) is None:
                        w._pending = obj.asend(None)
                    try:
                        w.log.append(("out:trap", repr(w._pending.send(None))))
                    except StopIteration as e:
                        w._pending = None      # the async generator yielded a value: suspended at `yield`
                        w.log.append(("out:yield", repr(e.value)))
            except (StopIteration, StopAsyncIteration, Boom) as e:
                w.log.append(("out:end", type(e).__name__ + ":" + repr(getattr(e, "value", None))))
                break
            observer(w, "suspended")
    finally:
        try:
            if obj is not None and kind != "agen":
                obj.close()
        except BaseException:
            pass
    return w


# ---------------------------------------------------------------------------------------------
# the exception-table leg shared by C01 and C02 (model: lean/SSModel/ExcTable.lean)
# ---------------------------------------------------------------------------------------------

def table_facts(code) -> dict:
    """What the real parser says about the code object's exception table, plus the two shape facts the theorems
    assume, computed here from `dis`'s independent decoder (exclusive ends)."""
    import dis

    from stackscope._lowlevel import _parse_exception_table

    views = [list(v) for v in _parse_exception_table(code)]
    ents = dis._parse_exception_table(code)
    disjoint = all(e.start < e.end for e in ents) and all(a.end <= b.start for a, b in zip(ents, ents[1:]))
    forward = all(e.target >= e.end for e in ents)
    return {"bytes": list(code.co_exceptiontable), "views": views, "disjoint": disjoint, "forward": forward}


def table_model_line(facts: dict, points: List[Tuple[int, bool]]) -> str:
    import json

    return json.dumps({"p": "C01", "bytes": facts["bytes"], "points": [[p, r] for p, r in points]})


def table_expected(facts: dict, points: List[Tuple[int, bool, Any, Optional[int]]]) -> str:
    """The driver's output format, filled from what the real code reported."""
    b = lambda x: "T" if x else "F"
    head = " ".join(f"{s}:{e}:{t}:{d}:{b(l)}" for s, e, t, d, l in facts["views"])
    head += f" | disjoint={b(facts['disjoint'])} forward={b(facts['forward'])} enc=T"
    pts = []
    for lasti, running, blocks, depth in points:
        bl = "[" + ",".join(f"{h}/{l}" for h, l in blocks) + "]"
        pts.append(f"{lasti}:{bl}:{depth}" if running else f"{lasti}:{bl}")
    return head + " | " + " ".join(pts)


# ---------------------------------------------------------------------------------------------
# a small corpus of layouts that were hard at some point (each runs under several choice lists, through the same oracles)
# ---------------------------------------------------------------------------------------------

def _c(kind, body):
    head = {"gen": "def prog(W, ns, d):", "coro": "async def prog(W, ns, d):", "agen": "async def prog(W, ns, d):",
            "sync": "def prog(W, ns, d):"}[kind]
    return kind, head + "\n    x = y = p = q = pad = None\n" + body


CORPUS = [
    # a with nested in a loop nested in another with, body ending in a conditional continue (inner exits by falling off)
    _c("gen", """    with W.T('x', W.M(True)) as x:
        for _i in range(2):
            with W.T('y', W.M(True)) as y:
                yield 1
                if W.ch(): continue
        yield 1
"""),
    _c("sync", """    with W.T('x', W.M(True)) as x, W.T(None, W.M(True)):
        for _i in range(2):
            with W.T('y', W.M(True)) as y:
                W.probe()
                if W.ch(): continue
"""),
    _c("coro", """    async with W.T('x', W.AM(True)) as x:
        for _i in range(2):
            async with W.T('y', W.AM(True)) as y:
                await TRAP()
                if W.nn() is None: continue
        await TRAP()
"""),
    # body ending in try/except whose clauses all leave
    _c("coro", """    async with W.T(None, W.AM(True)):
        try:
            await TRAP()
            if W.ch(): raise Boom()
        except Boom:
            return 3
    await TRAP()
"""),
    # last branch is a nested with ending in raise
    _c("coro", """    async with W.T('x', W.AM(True)) as x:
        if W.ch():
            await TRAP()
        else:
            with W.T('y', W.M(True)) as y:
                raise Boom()
    await TRAP()
"""),
    # an item without target while some local holds None, exited through every route
    _c("gen", """    result = None
    for _i in range(2):
        with W.T(None, W.M(True)):
            yield 1
            if W.ch(): break
            if W.ch(): continue
            if W.ch(): return 3
    yield 2
"""),
    _c("agen", """    last = None
    async with W.T(None, W.AM(True)), W.T('p', W.AM(True)) as p:
        yield 1
        if W.nn() is not None: return
    yield 2
"""),
]


# layouts with managers the bytecode analysis cannot handle (C06: purity must hold on the fallback paths too)
# ---- added in round 4 --------------------------------------------------------------------------------------------------
CORPUS += [
    # a RE-ENTRANT manager entered twice by the same frame with nothing in between (nested, as two items, in a loop)
    _c("coro", """    async with W.RAM(True):
        async with W.RAM(True):
            await TRAP()
    async with W.RAM(True), W.RAM(True):
        pad = 1
    for _i in range(2):
        async with W.RAM(True):
            async with W.RAM(True):
                if W.ch(): continue
"""),
    _c("agen", """    async with W.RAM(True), W.RAM(True), W.RAM(True):
        yield 1
    with W.RM(True):
        with W.RM(True):
            yield 2
"""),
    _c("gen", """    with W.RM(True):
        with W.RM(True), W.RM(True):
            yield 1
        yield 2
"""),
    _c("sync", """    with W.RM(True):
        with W.RM(True), W.RM(True):
            W.probe()
        W.probe3(None, None, None)
"""),
    # a call with three literal Nones inside with bodies (the shape of the compiler's own exit call)
    _c("sync", """    with W.T('x', W.M(True)) as x:
        with W.T(None, W.M(True)), W.T('y', W.M(True)) as y:
            W.probe3(None, None, None)
        W.probe3(None, None, None)
"""),
    _c("gen", """    with W.T('x', W.M(True)) as x:
        W.probe3(None, None, None)
        yield 1
        with W.T(None, W.M(True)):
            W.probe3(None, None, None)
            yield 2
"""),
    _c("coro", """    async with W.T('x', W.AM(True)) as x:
        W.probe3(None, None, None)
        with W.T(None, W.M(True)):
            W.probe3(None, None, None)
            await TRAP()
"""),
    # with headers laid out over several lines: an item's setup instruction follows instructions of a LATER line
    _c("gen", """    with W.T('x', W.M(True)) as x, \\
            W.T('y', W.M(True)) as y:
        yield 1
    with (
            W.T('ns.a', W.M(True)) as ns.a,
            W.T(None, W.M(True)),
    ):
        yield 2
    with (
            W.T('p', W.M(True))
    ) as p:
        yield 3
"""),
    _c("sync", """    with W.T('x', W.M(True)) as x, \\
            W.T('y', W.M(True)) as y:
        W.probe()
    with (
            W.T('ns.a', W.M(True)) as ns.a,
            W.T(None, W.M(True)),
    ):
        W.probe()
"""),
    _c("coro", """    async with W.T('x', W.AM(True)) as x, \\
            W.T('y', W.AM(True)) as y:
        await TRAP()
    async with (
            W.T('ns.a', W.AM(True)) as ns.a,
            W.T(None, W.AM(True)),
    ):
        await TRAP()
"""),
    # deep static nesting (CPython allows 20 blocks): every enclosing block adds two links to the handler chain
    _c("coro", """    async with W.T(None, W.AM(True)):
        with W.T(None, W.M(True)):
            try:
                with W.T(None, W.M(True)):
                    async with W.T(None, W.AM(True)):
                        try:
                            async with W.T(None, W.AM(True)):
                                with W.T(None, W.M(True)):
                                    try:
                                        with W.T(None, W.M(True)):
                                            async with W.T(None, W.AM(True)):
                                                try:
                                                    async with W.T(None, W.AM(True)):
                                                        with W.T(None, W.M(True)):
                                                            try:
                                                                with W.T(None, W.M(True)):
                                                                    await TRAP()
                                                                    if W.ch(): raise Boom()
                                                            finally:
                                                                pad = 1
                                                finally:
                                                    pad = 1
                                    finally:
                                        pad = 1
                        finally:
                            pad = 1
            finally:
                pad = 1
"""),
    _c("gen", """    with W.T(None, W.M(True)):
        with W.T(None, W.M(True)):
            try:
                with W.T(None, W.M(True)):
                    with W.T(None, W.M(True)):
                        try:
                            with W.T(None, W.M(True)):
                                with W.T(None, W.M(True)):
                                    try:
                                        with W.T(None, W.M(True)):
                                            with W.T(None, W.M(True)):
                                                try:
                                                    with W.T(None, W.M(True)):
                                                        with W.T(None, W.M(True)):
                                                            try:
                                                                yield 1
                                                                if W.ch(): raise Boom()
                                                            finally:
                                                                pad = 1
                                                finally:
                                                    pad = 1
                                    finally:
                                        pad = 1
                        finally:
                            pad = 1
            finally:
                pad = 1
"""),
    _c("coro", """    async with W.T(None, W.AM(True)), W.T(None, W.AM(True)), W.T(None, W.AM(True)), W.T(None, W.AM(True)), W.T(None, W.AM(True)), W.T(None, W.AM(True)), W.T(None, W.AM(True)), W.T(None, W.AM(True)), W.T(None, W.AM(True)), W.T(None, W.AM(True)), W.T(None, W.AM(True)), W.T(None, W.AM(True)), W.T(None, W.AM(True)), W.T(None, W.AM(True)):
        await TRAP()
"""),
]


def _closure_prog(kind: str) -> str:
    """A program whose frame is a NESTED function reading a variable of its enclosing function, with an inlined comprehension
    (3.12+) whose iteration variable has the same name, and a name that is both an ordinary local and such a variable captured by
    a nested lambda: names that occur in two of co_varnames / co_cellvars / co_freevars."""
    head = {"gen": "def prog(W, ns, d):", "coro": "async def prog(W, ns, d):", "sync": "def prog(W, ns, d):"}[kind]
    susp = {"gen": "yield 1", "coro": "await TRAP()", "sync": "W.probe()"}[kind]
    kw = "async with" if kind == "coro" else "with"
    ctor = "W.AM(True)" if kind == "coro" else "W.M(True)"
    body = f"""
    x = y = p = q = pad = None
    rows = [1, 2, 3]
    for m in rows:
        pad = m
    shared = [m for m in rows if any(o is m for o in rows)]
    both = [key for key in rows] + [key]
    {kw} W.T('x', {ctor}) as x:
        {susp}
        {kw} W.T(None, {ctor}):
            {susp}
            if W.ch(): raise Boom()
"""
    inner = head + body
    inner = "\n".join("    " + l if l else l for l in inner.split("\n"))
    outer_head = inner.split("\n")[0].strip()
    return ("def _make():\n    key = 5\n" + inner + "\n    return prog\nprog = _make()\n")


CORPUS += [(k, _closure_prog(k)) for k in ("gen", "coro", "sync")]
CORPUS += [
    # a manager implemented in Python around one implemented in C (and another Python one inside that): order of the entries
    _c("gen", """    with W.T('x', W.M(True)) as x:
        try:
            with W.LK():
                yield 1
                with W.T('y', W.M(True)) as y:
                    yield 1
        finally:
            W.lk_done(1)
        yield 1
"""),
    _c("coro", """    async with W.T('x', W.AM(True)) as x:
        with W.T('y', W.M(True)) as y:
            try:
                with W.LK():
                    await TRAP()
            finally:
                W.lk_done(1)
            await TRAP()
"""),
]


CORPUS_ODD = [
    _c("gen", """    with W.T(None, W.SM(True)):
        yield 1
        for _i in range(2):
            yield 2
    yield 3
"""),
    _c("coro", """    with W.T('x', W.M(True)) as x, W.T(None, W.SM(True)):
        await TRAP()
        async with W.T(None, W.AM(True)):
            await TRAP()
    await TRAP()
"""),
    _c("gen", """    with W.T(None, W.DM(True)), W.T(None, W.EQ(True)):
        yield 1
    with W.T(None, W.ES(True)):
        yield 2
"""),
    _c("agen", """    async with W.T(None, W.ACM(True)):
        yield 1
        with W.T(None, W.CM(True)), W.T(None, W.SM(True)):
            yield 2
"""),
]
