"""Shared machinery of every check: build the Lean side, audit it, run the correspondence between the
Lean model and the real stackscope, run the semantic oracles on the real code, classify what broke,
match known findings, write evidence.

Exit codes: 0 property held on everything explored; 1 violation (a VIOLATION line was printed);
2 the check itself could not run (timeout, harness crash) — not a verdict.
"""
from __future__ import annotations

import contextlib
import fcntl
import hashlib
import json
import os
import random
import re
import signal
import subprocess
import sys
import time
import traceback
from pathlib import Path
from typing import Any, Dict, List, Optional, Tuple

VERIF = Path(__file__).resolve().parent.parent
LEAN = VERIF / "lean"
REPO = Path(os.environ.get("STACKSCOPE_REPO", "/repo"))
EVID = VERIF / "evidence"
REPLAYS = EVID / "replays"
GUARD = "STACKSCOPE_VERIF"

STD_AXIOMS = {"propext", "Classical.choice", "Quot.sound"}
FORBIDDEN = re.compile(
    r"\b(sorry|admit|native_decide|bv_decide|implemented_by|unsafe)\b|^\s*axiom\s|maxHeartbeats\s+0\b",
    re.M,
)

TRUSTED_BASE = [
    "Lean 4.33.0 kernel (thorough tier re-checks the compiled property modules with leanchecker)",
    "axioms: propext, Classical.choice, Quot.sound only (audited with #print axioms on every run); no native_decide / bv_decide / sorry",
    "hand-written Lean model of the anchored stackscope functions: NOT trusted, its agreement with /repo is measured by this run's correspondence",
    "harness/translate_consts.py (regenerates SSModel/Gen from /repo source), Driver.lean JSON parsing, this Python harness and its canonicalisation",
]


class CaseTimeout(BaseException):
    """BaseException on purpose: stackscope contains `except Exception` blocks that must not swallow it."""


@contextlib.contextmanager
def time_limit(seconds: float):
    """Raise CaseTimeout in the main thread if the body runs too long (pure-Python loops only)."""

    def handler(signum, frame):
        raise CaseTimeout(f"no result after {seconds}s")

    old = signal.signal(signal.SIGALRM, handler)
    signal.setitimer(signal.ITIMER_REAL, seconds, 0.25)  # keep firing until it gets out
    try:
        yield
    finally:
        signal.setitimer(signal.ITIMER_REAL, 0)
        signal.signal(signal.SIGALRM, old)


def sh(cmd: List[str], cwd: Path = VERIF, timeout: float = 1800, input: Optional[str] = None) -> Tuple[int, str]:
    try:
        p = subprocess.run(cmd, cwd=str(cwd), stdout=subprocess.PIPE, stderr=subprocess.STDOUT, text=True,
                           timeout=timeout, input=input)
        return p.returncode, p.stdout
    except subprocess.TimeoutExpired as e:
        return 124, (e.stdout or "") + "\n[timeout]"


@contextlib.contextmanager
def lake_lock():
    (LEAN / ".lake").mkdir(exist_ok=True)
    with open(LEAN / ".lake" / "verif.lock", "w") as f:
        fcntl.flock(f, fcntl.LOCK_EX)
        try:
            yield
        finally:
            fcntl.flock(f, fcntl.LOCK_UN)


# --------------------------------------------------------------------------------------------
# Lean side
# --------------------------------------------------------------------------------------------

def strip_comments(src: str) -> str:
    """Remove Lean block comments (nesting) and line comments; keeps strings naive but fine for audit."""
    out = []
    i, depth, n = 0, 0, len(src)
    while i < n:
        if src.startswith("/-", i):
            depth += 1
            i += 2
            continue
        if depth and src.startswith("-/", i):
            depth -= 1
            i += 2
            continue
        if depth:
            if src[i] == "\n":
                out.append("\n")
            i += 1
            continue
        if src.startswith("--", i):
            while i < n and src[i] != "\n":
                i += 1
            continue
        out.append(src[i])
        i += 1
    return "".join(out)


def theorem_names(prop_file: Path) -> List[str]:
    src = strip_comments(prop_file.read_text())
    return re.findall(r"^\s*(?:private\s+)?theorem\s+([A-Za-z_][A-Za-z0-9_'.]*)", src, re.M)


def imports_closure(root_mod: str) -> List[Path]:
    """All project-local Lean files reachable from a module (for the forbidden-token audit)."""
    seen: Dict[str, Path] = {}
    todo = [root_mod]
    while todo:
        m = todo.pop()
        if m in seen:
            continue
        p = LEAN / (m.replace(".", "/") + ".lean")
        if not p.exists():
            continue
        seen[m] = p
        for imp in re.findall(r"^\s*import\s+([A-Za-z0-9_.]+)", p.read_text(), re.M):
            if imp.split(".")[0] in ("SSModel", "SSLemmas", "SSProps", "SSDriver"):
                todo.append(imp)
    return list(seen.values())


class LeanResult:
    def __init__(self):
        self.gen_ok = True
        self.gen_msg = ""
        self.build_ok = False
        self.build_log = ""
        self.obligations: List[str] = []
        self.discharged: List[str] = []
        self.axioms: Dict[str, List[str]] = {}
        self.audit_problems: List[str] = []
        self.leanchecker: Optional[str] = None

    @property
    def ok(self) -> bool:
        return self.gen_ok and self.build_ok and not self.audit_problems and len(self.discharged) == len(self.obligations) > 0


def lean_side(pid: str, tier: str, extra_modules: List[str] = ()) -> LeanResult:
    from . import translate_consts

    res = LeanResult()
    prop_mod = f"SSProps.{pid}"
    prop_file = LEAN / "SSProps" / f"{pid}.lean"
    with lake_lock():
        try:
            problems = translate_consts.regenerate(REPO, LEAN / "SSModel" / "Gen")
            if problems:
                res.gen_ok = False
                res.gen_msg = "; ".join(problems)
        except Exception as e:  # extractor itself failed: treated as broken correspondence
            res.gen_ok = False
            res.gen_msg = f"translate_consts failed: {e!r}"
        targets = [prop_mod, "SSDriver"] + list(extra_modules)
        rc, log = sh(["lake", "build"] + targets, cwd=LEAN, timeout=3000)
        res.build_log = log
        res.build_ok = rc == 0
        res.obligations = theorem_names(prop_file) if prop_file.exists() else []
        if not res.build_ok:
            return res
        # forbidden tokens in everything the property file depends on
        for f in imports_closure(prop_mod):
            code = strip_comments(f.read_text())
            for m in FORBIDDEN.finditer(code):
                res.audit_problems.append(f"{f.relative_to(LEAN)}: forbidden token {m.group(0).strip()!r}")
        # axioms of every property theorem
        audit_dir = LEAN / ".audit"
        audit_dir.mkdir(exist_ok=True)
        audit = audit_dir / f"{pid}.lean"
        audit.write_text(f"import {prop_mod}\n" + "".join(f"#print axioms {n}\n" for n in res.obligations))
        rc, out = sh(["lake", "env", "lean", str(audit)], cwd=LEAN, timeout=600)
        cur = None
        text = out.replace("\n  ", " ")
        for line in text.splitlines():
            m = re.match(r"'([^']+)' depends on axioms: \[(.*)\]", line.strip())
            if m:
                res.axioms[m.group(1)] = [a.strip() for a in m.group(2).split(",") if a.strip()]
                continue
            m = re.match(r"'([^']+)' does not depend on any axioms", line.strip())
            if m:
                res.axioms[m.group(1)] = []
        for n in res.obligations:
            if n not in res.axioms:
                res.audit_problems.append(f"{n}: no axiom report (audit output: {out[-300:]!r})")
                continue
            extra = set(res.axioms[n]) - STD_AXIOMS
            if extra:
                res.audit_problems.append(f"{n}: non-standard axioms {sorted(extra)}")
            else:
                res.discharged.append(n)
        if tier == "thorough" and os.environ.get("VERIF_SKIP_LEANCHECKER") != "1":
            rc, out = sh(["lake", "env", "leanchecker", prop_mod], cwd=LEAN, timeout=1500)
            res.leanchecker = f"exit {rc}: {out.strip()[-200:]}"
            if rc != 0:
                res.audit_problems.append(f"leanchecker rejected {prop_mod}: {out[-300:]}")
    return res


def run_driver(lines: List[str], timeout: float = 1500) -> List[str]:
    if not lines:
        return []
    rc, out = sh(["lake", "env", "lean", "--run", "Driver.lean"], cwd=LEAN, timeout=timeout,
                 input="\n".join(lines) + "\n")
    outs = out.split("\n")
    if outs and outs[-1] == "":
        outs.pop()
    if rc != 0 or len(outs) != len(lines):
        raise RuntimeError(f"driver failed (rc={rc}, {len(outs)} lines for {len(lines)} inputs): {out[-800:]}")
    return outs


# --------------------------------------------------------------------------------------------
# Property check base class
# --------------------------------------------------------------------------------------------

class PropCheck:
    pid = "C00"
    level = "proof"
    title = ""
    #: what the model does not cover, copied into evidence assumptions
    assumptions: List[str] = []
    rule = ""
    #: names of the correspondences (for replay files when nothing concrete is found)
    correspondence_name = "model-vs-implementation"
    #: process-wide settings under which a sample of the cases is repeated (see process_env); () where the real side runs in
    #: worker processes of its own or installs its own logging / warning hooks
    process_envs: tuple = ("tblimit", "logging", "gc_off", "profile")

    def cases(self, rng: random.Random, tier: str) -> List[dict]:
        raise NotImplementedError

    def corpus(self) -> List[dict]:
        p = VERIF / "corpus" / f"{self.pid}.jsonl"
        if not p.exists():
            return []
        return [json.loads(l) for l in p.read_text().splitlines() if l.strip()]

    def model_line(self, case: dict) -> Optional[str]:
        """JSON line for the Lean driver, or None if this case has no model counterpart."""
        d = dict(case)
        d["p"] = self.pid
        return json.dumps(d)

    def run_real(self, case: dict) -> Any:
        """Run the real stackscope on the case; return a JSON-able observation."""
        raise NotImplementedError

    def canon(self, case: dict, real: Any) -> str:
        """Canonical text of the observation, compared with the driver's line."""
        return str(real)

    def oracle(self, case: dict, real: Any) -> Optional[str]:
        """The property itself, evaluated on the real behaviour, independently of the Lean model.
        Returns a description of the failure, or None."""
        return None

    def nontrivial_key(self, case: dict, real: Any) -> Optional[str]:
        """A key identifying the case if it is non-trivial (None otherwise)."""
        return json.dumps(case, sort_keys=True)

    def search_cases(self, rng: random.Random) -> List[dict]:
        """Larger input set used for the failing-input search when something broke."""
        return self.cases(rng, "thorough")

    def shrink(self, case: dict, failing) -> dict:
        return case

    def known_witnesses(self) -> List[dict]:
        """Replay of listed known findings: [{'id':..., 'case':...}]"""
        return []

    def stats(self, cases: List[dict], reals: List[Any]) -> dict:
        return {}

    def setup(self) -> None:
        pass

    def teardown(self) -> None:
        pass


class _WithWitnesses:
    """The property's check plus the regression witnesses of defects repaired in /repo (harness/witnesses.py): one extra case
    per witness, observed by running the witness against /repo in a process of its own, judged by what it prints."""

    def __init__(self, chk: PropCheck):
        self.__dict__["_c"] = chk

    def __getattr__(self, name):
        return getattr(self.__dict__["_c"], name)

    def __setattr__(self, name, value):
        setattr(self.__dict__["_c"], name, value)

    @staticmethod
    def _is_w(case) -> bool:
        return isinstance(case, dict) and case.get("k") == "witness"

    def witness_cases(self) -> List[dict]:
        from . import witnesses

        return [{"k": "witness", "id": w} for w in witnesses.FOR.get(self.pid, [])]

    def known_witnesses(self) -> List[dict]:
        from . import witnesses

        return list(self._c.known_witnesses()) + [{"id": w, "case": {"k": "witness", "id": w}} for w in witnesses.KNOWN_FOR.get(self.pid, [])]

    def run_real(self, case):
        if self._is_w(case):
            from . import witnesses

            r = witnesses.run(case["id"])
            if "could not run" in r:
                raise RuntimeError(r)
            return r
        return self._c.run_real(case)

    def canon(self, case, real):
        return str(real) if self._is_w(case) else self._c.canon(case, real)

    def oracle(self, case, real):
        if self._is_w(case):
            return None if real == "ok" else str(real)
        return self._c.oracle(case, real)

    def model_line(self, case):
        return None if self._is_w(case) else self._c.model_line(case)

    def model_lines(self, case):
        if self._is_w(case):
            return None
        if hasattr(self._c, "model_lines"):
            return self._c.model_lines(case)
        l = self._c.model_line(case)
        return None if l is None else [l]

    def nontrivial_key(self, case, real):
        return f"witness:{case['id']}" if self._is_w(case) else self._c.nontrivial_key(case, real)

    def shrink(self, case, failing):
        return case if self._is_w(case) else self._c.shrink(case, failing)

    def matches_known(self, k, case, real, failure):
        if self._is_w(case):
            return False
        return self._c.matches_known(k, case, real, failure)

    def stats(self, cases, reals):
        keep = [i for i, c in enumerate(cases) if not self._is_w(c)]
        d = self._c.stats([cases[i] for i in keep], [reals[i] for i in keep])
        ws = {c["id"]: reals[i] for i, c in enumerate(cases) if self._is_w(c)}
        if ws:
            d = dict(d or {})
            d["regression_witnesses"] = ws
        return d


def load_known() -> List[dict]:
    p = VERIF / "KNOWN_FINDINGS.json"
    if not p.exists():
        return []
    return json.loads(p.read_text()).get("findings", [])


def write_replay(pid: str, payload: dict) -> Path:
    REPLAYS.mkdir(parents=True, exist_ok=True)
    h = hashlib.sha1(json.dumps(payload, sort_keys=True, default=str).encode()).hexdigest()[:10]
    p = REPLAYS / f"{pid}-{h}.json"
    p.write_text(json.dumps(payload, indent=1, default=str))
    return p


@contextlib.contextmanager
def process_env(name: Optional[str]):
    """Process-wide settings that no property may depend on; a sample of every check's cases is run under each of them (the
    expected result is the one without the setting: same model line, same oracle)."""
    if name == "tblimit":
        # limits how tracebacks are PRINTED (traceback.print_* / extract_* honour it)
        sys.tracebacklimit = 0
        try:
            yield
        finally:
            if hasattr(sys, "tracebacklimit"):
                del sys.tracebacklimit
    elif name == "logging":
        # an application with verbose logging on: every record is formatted at once
        import io as _io
        import logging as _lg

        root = _lg.getLogger()
        old = root.level
        h = _lg.StreamHandler(_io.StringIO())
        h.setFormatter(_lg.Formatter("%(name)s %(message)s"))
        root.addHandler(h)
        root.setLevel(_lg.DEBUG)
        try:
            yield
        finally:
            root.removeHandler(h)
            root.setLevel(old)
            out = h.stream.getvalue()
            if "stackscope" in out.split("\n")[0][:40]:
                raise AssertionError(f"stackscope emitted log records while extracting: {out[:200]!r}")
    elif name == "gc_off":
        # an application (or a test harness) running with the cyclic collector switched off
        import gc as _gc

        was = _gc.isenabled()
        _gc.disable()
        try:
            yield
        finally:
            if not _gc.isenabled() and was:
                _gc.enable()
            elif _gc.isenabled() and not was:
                pass
    elif name == "profile":
        # a profiler is attached to the calling thread (every call and return of Python and C functions is reported to it)
        old_p = sys.getprofile()
        sys.setprofile(lambda frame, event, arg: None)
        try:
            yield
        finally:
            sys.setprofile(old_p)
    else:
        yield


def safe_run_real(chk: PropCheck, case: dict, limit: Optional[float] = None) -> Any:
    limit = limit or getattr(chk, "real_time_limit", 20.0)
    try:
        with time_limit(limit), process_env(case.get("penv") if isinstance(case, dict) else None):
            return chk.run_real(case)
    except CaseTimeout as e:
        return {"__timeout__": str(e)}
    except Exception as e:
        # an exception that comes out of stackscope itself (the innermost frames of the traceback are the library's) is the
        # implementation's behaviour on this input, not a failure of the harness
        tb = e.__traceback__
        files = []
        while tb is not None:
            files.append(tb.tb_frame.f_code.co_filename)
            tb = tb.tb_next
        from_lib = bool(files) and str(REPO / "stackscope") in files[-1] and "_tests" not in files[-1]
        d = {"__harness_exception__": f"{type(e).__name__}: {e}", "tb": traceback.format_exc()[-1500:]}
        if from_lib:
            d["__raised_by_implementation__"] = True
        return d


def main_check(chk: PropCheck, argv: Optional[List[str]] = None) -> int:
    import argparse

    ap = argparse.ArgumentParser()
    ap.add_argument("--tier", default=os.environ.get("VERIF_TIER", "quick"), choices=["quick", "thorough"])
    ap.add_argument("--replay", default=None)
    ap.add_argument("--no-lean", action="store_true", help="debug: skip the Lean side")
    args = ap.parse_args(argv)
    chk = _WithWitnesses(chk)  # type: ignore[assignment]
    seed = int(os.environ.get("VERIF_SEED", "0") or 0)
    tier = args.tier
    pid = chk.pid
    t0 = time.time()
    os.environ[GUARD] = "1"
    if str(REPO) not in sys.path:
        sys.path.insert(0, str(REPO))
    rng = random.Random(seed * 1000003 + int(pid[1:]))
    known = [k for k in load_known() if k.get("property") == pid]
    violations: List[Tuple[str, Path]] = []
    known_lines: List[str] = []

    if args.replay:
        payload = json.loads(Path(args.replay).read_text())
        case = payload.get("case")
        if case is None:
            print(f"replay file names no concrete case: {payload.get('broken')}")
            return 1
        chk.setup()
        real = safe_run_real(chk, case)
        fail = chk.oracle(case, real)
        print("observation:", chk.canon(case, real))
        print("oracle:", fail or "holds")
        return 1 if fail else 0

    # ---- Lean side -------------------------------------------------------------------------
    lean = LeanResult()
    if not args.no_lean:
        lean = lean_side(pid, tier)
    else:
        lean.build_ok = True

    # ---- correspondence + oracle on the real code ------------------------------------------
    chk.setup()
    cases = chk.corpus() + chk.cases(rng, tier)
    envs = list(getattr(chk, "process_envs", ()))
    if envs and cases:
        step = max(1, len(cases) // (25 if tier == "quick" else 150))
        extra = []
        for i in range(0, len(cases), step):
            c = cases[i]
            if isinstance(c, dict) and c.get("k") != "witness":
                extra.append(dict(json.loads(json.dumps({k: v for k, v in c.items() if not k.startswith("_")})), penv=envs[(i // step) % len(envs)]))
        cases = cases + extra
    cases = cases + chk.witness_cases()
    reals = []
    n_timeouts = 0
    t_real = time.time()
    real_budget = float(os.environ.get("VERIF_REAL_BUDGET", "900" if tier == "quick" else "3000"))
    for c in cases:
        if n_timeouts >= 3 or time.time() - t_real > real_budget:
            # a tree on which inputs hang (or crawl): a few witnesses are enough, do not sit through thousands
            reals.append({"__skipped__": True})
            continue
        r = safe_run_real(chk, c)
        if isinstance(r, dict) and "__timeout__" in r:
            n_timeouts += 1
        reals.append(r)
    skipped = [i for i, r in enumerate(reals) if isinstance(r, dict) and "__skipped__" in r]
    if skipped:
        keep = [i for i in range(len(cases)) if i not in set(skipped)]
        cases = [cases[i] for i in keep]
        reals = [reals[i] for i in keep]
    canon = []
    for c, r in zip(cases, reals):
        if isinstance(r, dict) and ("__timeout__" in r or "__harness_exception__" in r):
            canon.append("!" + json.dumps(r)[:300])
        else:
            canon.append(chk.canon(c, r))
    model_out: List[Optional[str]] = [None] * len(cases)
    driver_error = None
    if lean.build_ok and not args.no_lean:
        def lines_for(c):
            """One driver line per case, or several (their outputs are joined with '§')."""
            if hasattr(chk, "model_lines"):
                return chk.model_lines(c)
            l = chk.model_line(c)
            return None if l is None else [l]

        per_case = [(i, lines_for(c)) for i, c in enumerate(cases)
                    if not (isinstance(reals[i], dict) and ("__timeout__" in reals[i] or "__harness_exception__" in reals[i]))]
        per_case = [(i, ls) for i, ls in per_case if ls]
        try:
            flat = [l for _, ls in per_case for l in ls]
            outs = run_driver(flat)
            pos = 0
            for i, ls in per_case:
                model_out[i] = "§".join(outs[pos:pos + len(ls)])
                pos += len(ls)
        except Exception as e:
            driver_error = str(e)
    mismatches = [i for i in range(len(cases)) if model_out[i] is not None and model_out[i] != canon[i]]
    oracle_fail: List[Tuple[int, str]] = []
    for i, (c, r) in enumerate(zip(cases, reals)):
        if isinstance(r, dict) and "__timeout__" in r:
            oracle_fail.append((i, f"did not terminate: {r['__timeout__']}"))
            continue
        if isinstance(r, dict) and r.get("__raised_by_implementation__"):
            oracle_fail.append((i, f"the call into stackscope raised {r['__harness_exception__']} (innermost frame inside the library)"))
            continue
        if isinstance(r, dict) and "__harness_exception__" in r:
            continue
        try:
            f = chk.oracle(c, r)
        except Exception as e:
            f = None
            mismatches.append(i) if i not in mismatches else None
            canon[i] += f" !oracle-crash {type(e).__name__}: {e}"
        if f:
            oracle_fail.append((i, f))
    harness_exc = [i for i, r in enumerate(reals) if isinstance(r, dict) and "__harness_exception__" in r]

    # ---- known findings: replay each listed witness on the real code ------------------------
    def match_known(case: dict, real: Any, failure: str) -> Optional[dict]:
        for k in known:
            if k.get("status") != "known":
                continue
            try:
                if chk.matches_known(k, case, real, failure):  # type: ignore[attr-defined]
                    return k
            except AttributeError:
                return None
        return None

    for w in chk.known_witnesses():
        k = next((k for k in known if k["id"] == w["id"] and k.get("status") == "known"), None)
        if k is None:
            continue
        real = safe_run_real(chk, w["case"])
        f = chk.oracle(w["case"], real)
        if isinstance(real, dict) and "__timeout__" in real:
            f = f or f"did not terminate: {real['__timeout__']}"
        if f:
            known_lines.append(f"KNOWN-FINDING: property={pid} {k['id']}: {k['what']}")

    unlisted = []
    for i, f in oracle_fail:
        k = match_known(cases[i], reals[i], f)
        if k is None:
            unlisted.append((i, f))
        else:
            line = f"KNOWN-FINDING: property={pid} {k['id']}: {k['what']}"
            if line not in known_lines:
                known_lines.append(line)

    broken: List[str] = []
    if not args.no_lean:
        if not lean.gen_ok:
            broken.append(f"generated constants: {lean.gen_msg}")
        if not lean.build_ok:
            errs = [l for l in lean.build_log.splitlines() if "error" in l][:5]
            broken.append("proof obligations no longer compile: " + " | ".join(errs)[:800])
        elif lean.audit_problems:
            broken.append("audit: " + "; ".join(lean.audit_problems[:5]))
        if driver_error:
            broken.append("driver: " + driver_error[:500])
    if mismatches:
        i = mismatches[0]
        broken.append(f"correspondence {chk.correspondence_name}: {len(mismatches)} of {len(cases)} cases disagree; first: case={json.dumps(cases[i])[:600]} model={model_out[i]!r} real={canon[i]!r}")
    if harness_exc:
        i = harness_exc[0]
        broken.append(f"harness could not observe {len(harness_exc)} cases; first: case={json.dumps(cases[i])[:400]} {reals[i]['__harness_exception__']} {reals[i].get('tb','')[-600:]}")

    searched = 0

    def judge(c, r):
        if isinstance(r, dict) and "__timeout__" in r:
            return "did not terminate"
        if isinstance(r, dict) and r.get("__raised_by_implementation__"):
            return f"the call into stackscope raised {r['__harness_exception__']} (innermost frame inside the library)"
        if isinstance(r, dict) and "__harness_exception__" in r:
            return None
        return chk.oracle(c, r)

    def show_real(c, r):
        if isinstance(r, dict) and ("__timeout__" in r or "__harness_exception__" in r):
            return r
        return chk.canon(c, r)

    def fails(c):
        return judge(c, safe_run_real(chk, c))

    def bounded_shrink(case):
        t_s = time.time()

        def failing(c):
            if time.time() - t_s > 60:
                return None
            return fails(c)

        try:
            return chk.shrink(case, failing)
        except Exception:
            return case

    if unlisted:
        for i, f in unlisted[:3]:
            case = bounded_shrink(cases[i])
            real = safe_run_real(chk, case)
            p = write_replay(pid, {"property": pid, "case": case, "failure": judge(case, real) or f,
                                   "observed": show_real(case, real),
                                   "model": model_out[i], "seed": seed, "tier": tier,
                                   "rerun": f"./check {pid} --replay <this file>"})
            violations.append((f, p))
    elif broken:
        # something no longer checks: search the implementation for a concrete failing input
        found = None
        srng = random.Random(seed + 7919)
        for c in chk.search_cases(srng):
            searched += 1
            r = safe_run_real(chk, c)
            f = judge(c, r)
            if f and match_known(c, r, f) is None:
                found = (c, f)
                break
            if time.time() - t0 > float(os.environ.get("VERIF_SEARCH_BUDGET", "600")):
                break
        if found:
            case = bounded_shrink(found[0])
            real = safe_run_real(chk, case)
            p = write_replay(pid, {"property": pid, "case": case, "failure": judge(case, real) or found[1],
                                   "observed": show_real(case, real),
                                   "broken": broken, "seed": seed, "tier": tier})
            violations.append((found[1], p))
        else:
            p = write_replay(pid, {"property": pid, "case": None, "broken": broken, "searched_inputs": searched,
                                   "seed": seed, "tier": tier,
                                   "note": "a theorem or correspondence no longer checks; no concrete failing input was found on the implementation"})
            violations.append(("no-failing-input-found", p))

    chk.teardown()

    # ---- evidence ----------------------------------------------------------------------------
    keys = set()
    for c, r in zip(cases, reals):
        try:
            k = chk.nontrivial_key(c, r)
        except Exception:
            k = None
        if k is not None:
            keys.add(k)
    samples = []
    for i in range(0, len(cases), max(1, len(cases) // 3))[:3] if cases else []:
        samples.append({"case": cases[i], "implementation": canon[i][:500], "model": model_out[i]})
    cov = {
        "obligations": max(1, len(lean.obligations)) if not args.no_lean else 1,
        "discharged": len(lean.discharged),
        "checker_cmd": f"cd lean && lake build SSProps.{pid} && lake env lean .audit/{pid}.lean  (#print axioms of every theorem)"
                       + ("; lake env leanchecker SSProps." + pid if tier == "thorough" else ""),
        "trusted_base": TRUSTED_BASE,
        "theorems": lean.obligations,
        "axioms": lean.axioms,
        "leanchecker": lean.leanchecker,
        "evaluations": len(cases),
        "distinct_nontrivial": len(keys),
        "rule": chk.rule,
        "samples": samples,
        "correspondence_disagreements": len(mismatches),
        "oracle_failures": len(oracle_fail),
        "known_findings_replayed": known_lines,
        "search_inputs": searched,
        "input_distribution": chk.stats(cases, reals),
        "python": sys.version.split()[0],
    }
    if cov["discharged"] == 0:
        # nothing compiled / passed the audit on this tree (a broken obligation): the proof-level keys cannot describe the run, the
        # exploration counts do (the schema's fallback); the count is kept under another name
        cov["obligations_discharged"] = cov.pop("discharged")
    ev = {
        "property_id": pid,
        "tier": tier,
        "seed": seed,
        "level": chk.level,
        "coverage": cov,
        "assumptions": chk.assumptions,
        "wall_s": round(time.time() - t0, 2),
        "violations": len(violations),
    }
    EVID.mkdir(exist_ok=True)
    (EVID / f"{pid}.json").write_text(json.dumps(ev, indent=1, default=str))

    for l in known_lines:
        print(l)
    if violations:
        for f, p in violations:
            rel = p.relative_to(VERIF)
            if f == "no-failing-input-found":
                print(f"broken: {broken}")
                print(f"VIOLATION property={pid} replay={rel} no-failing-input-found")
            else:
                print(f"failure: {f}")
                print(f"VIOLATION property={pid} replay={rel}")
        return 1
    print(f"{pid} ok: {len(lean.discharged)}/{len(lean.obligations)} theorems, {len(cases)} cases agree "
          f"({len(keys)} distinct non-trivial), {round(time.time()-t0,1)}s")
    return 0
