import SSLemmas.ExcTable
import SSLemmas.Bisect
/-! The real `bisect_left` (binary search) on a disjoint table is the partition point the walk lemma uses. -/
namespace SS.ExcTable
open SS.Bisect

theorem disjoint_getElem (hs : List View) (hd : Disjoint hs) : ∀ (i : Nat) (h : i < hs.length), ((hs[i]).start : Int) ≤ (hs[i]).end_ := by
  induction hs with
  | nil => intro i h; simp at h
  | cons v vs ih =>
    intro i h
    cases i with
    | zero => exact disjoint_head hd
    | succ i => simpa using ih (disjoint_tail hd) i (by simpa using h)

theorem disjoint_starts_mono (hs : List View) (hd : Disjoint hs) : ∀ (i j : Nat) (hi : i < hs.length) (hj : j < hs.length),
    i ≤ j → (hs[i]).start ≤ (hs[j]).start := by
  induction hs with
  | nil => intro i j hi; simp at hi
  | cons v vs ih =>
    intro i j hi hj hij
    cases i with
    | zero =>
      cases j with
      | zero => simp
      | succ j =>
        have hmem : vs[j]'(by simpa using hj) ∈ vs := List.getElem_mem _
        have h1 := disjoint_starts hd _ hmem
        have h2 := disjoint_head hd
        simp only [List.getElem_cons_zero, List.getElem_cons_succ]
        omega
    | succ i =>
      cases j with
      | zero => omega
      | succ j =>
        simp only [List.getElem_cons_succ]
        exact ih (disjoint_tail hd) i j (by simpa using hi) (by simpa using hj) (by omega)

theorem bisectLeftBS_eq (hs : List View) (hd : Disjoint hs) (c : Nat) : bisectLeftBS hs c = bisectLeft hs c := by
  have hpre : Prefix (ltAt hs c) hs.length := by
    intro i j hij hj hpj
    have hi : i < hs.length := by omega
    simp only [ltAt, List.getElem?_eq_getElem hj, List.getElem?_eq_getElem hi] at hpj ⊢
    rw [ltKey_iff c (disjoint_getElem hs hd j hj)] at hpj
    rw [ltKey_iff c (disjoint_getElem hs hd i hi)]
    have := disjoint_starts_mono hs hd i j hi hj hij
    simp at hpj ⊢; omega
  obtain ⟨h1, h2, h3⟩ := bs_spec (ltAt hs c) hs.length hpre (hs.length + 1) 0 hs.length (by omega) (by omega) (by omega)
    (by intro i hi; omega) (by intro i h1 h2; omega)
  unfold bisectLeft
  symm
  apply takeWhile_length_eq (fun v => ltKey v c) hs (bisectLeftBS hs c) h3
  · intro i hi hik
    have := h1 i hik
    simpa [ltAt, List.getElem?_eq_getElem hi] using this
  · intro hk
    have := h2 (bisectLeftBS hs c) (Nat.le_refl _) hk
    simpa [ltAt, List.getElem?_eq_getElem hk] using this

theorem walkGo_eq_chainGo (hs : List View) (hd : Disjoint hs) : ∀ (f cur : Nat) (acc : List Block),
    walkGo hs f cur acc = chainGo hs f cur acc := by
  intro f
  induction f with
  | zero => intros; rfl
  | succ f ih =>
    intro cur acc
    simp only [walkGo, chainGo, lookup_eq_last hs hd cur, bisectLeftBS_eq hs hd cur]
    by_cases hz : bisectLeft hs cur = 0
    · simp [hz]
    · simp only [hz, if_false]
      cases hget : hs[bisectLeft hs cur - 1]? with
      | none => rfl
      | some h =>
        simp only []
        by_cases hc : covers h cur = true
        · simp only [hc, if_true]; exact ih _ _
        · simp [hc]


end SS.ExcTable
