import SSModel.Chain
import SSLemmas.Extract
namespace SS.Extract

theorem unwrapPhase_mono (env : Env) (n : Nat) (s s' : St) (h : unwrapPhase env n s = some s') :
    ∀ m, n ≤ m → unwrapPhase env m s = some s' := by
  induction n generalizing s with
  | zero => simp [unwrapPhase] at h
  | succ n ih =>
    intro m hm
    cases m with
    | zero => omega
    | succ m =>
      unfold unwrapPhase at h ⊢
      split
      · rename_i he; simp only [he] at h; exact h
      · rename_i q rest he
        simp only [he] at h
        exact ih _ h m (by omega)

/-- The nodes the unwrap phase produces for a chain whose head entry sits at depth `d`. -/
def chainFrames : List Link → Nat → List EE
  | [], _ => []
  | .gen g f :: rest, d => ⟨.frameObj ⟨f, some g⟩, d + 1⟩ :: chainFrames rest (d + 1)
  | .wrap _ :: rest, d => chainFrames rest (d + 1)

def chainTail (links : List Link) (d : Nat) : Option Item → List EE
  | none => []
  | some t => [⟨.item t, d + links.length⟩]

def entryList (cur : Option Item) (eo : Option Item) (d : Nat) : List QE :=
  match cur with
  | some x => [⟨eo, .item x, d⟩]
  | none => []

def nextOrigin (env : Env) (nxt : Option Item) (g : Item) : Option Item :=
  match nxt with
  | some n => betterOrigin env (.item n) (some g)
  | none => none

def GoodOrigin : List Link → Option Item → Prop
  | .gen g _ :: _, eo => eo = some g
  | _, _ => True

theorem goodOrigin_next (env : Env) (rest : List Link) (nxt : Item) (leaf : Option Item) (prev : Option Item)
    (h : IsChain env rest (some nxt) leaf) : GoodOrigin rest (betterOrigin env (.item nxt) prev) := by
  cases rest with
  | nil => trivial
  | cons l ls =>
    cases l with
    | wrap w => trivial
    | gen g f =>
      obtain ⟨hc, _, _, hg, _, hw, _, _⟩ := h
      cases hc
      simp [GoodOrigin, betterOrigin, hw, hg]

theorem chain_phase (env : Env) : ∀ (links : List Link) (cur leaf : Option Item) (s : St) (eo : Option Item) (d : Nat),
    IsChain env links cur leaf → RunsOK links leaf s.loops → GoodOrigin links eo →
    s.toUnwrap = entryList cur eo d →
    ∃ s', unwrapPhase env (2 * links.length + 2) s = some s' ∧ s'.toUnwrap = []
      ∧ s'.toElab = s.toElab ++ chainFrames links d ++ chainTail links d leaf
      ∧ s'.errors = s.errors ∧ s'.out = s.out := by
  intro links
  induction links with
  | nil =>
    intro cur leaf s eo d hc hr _ hq
    obtain ⟨hcl, hleaf⟩ := hc
    subst hcl
    cases cur with
    | none =>
      refine ⟨s, ?_, by simpa [entryList] using hq, by simp [chainFrames, chainTail], rfl, rfl⟩
      simp [unwrapPhase, hq, entryList]
    | some t =>
      obtain ⟨hf, hra, hno⟩ := hleaf t rfl
      have hg : ¬ (s.loops + 1 > SS.Gen.unwrapGuard) := by
        rcases hr with h | h
        · cases h
        · omega
      refine ⟨asLeaf { s with toUnwrap := [] } (.item t) d [], ?_, rfl, ?_, by simp [asLeaf], rfl⟩
      · simp [unwrapPhase, hq, entryList, unwrapStep, hf, handleUnwrap, hra, hno, hg, asLeaf]
      · simp [asLeaf, chainFrames, chainTail]
  | cons l rest ih =>
    intro cur leaf s eo d hc hr hgo hq
    cases l with
    | gen g f =>
      obtain ⟨hcur, hfg, hff, hgl, hfo, hw, hgf, nxt, hu, hrest⟩ := hc
      subst hcur
      obtain ⟨hr1, hr2⟩ := hr
      simp only [GoodOrigin] at hgo
      subst hgo
      have hg : ¬ (s.loops + 1 > SS.Gen.unwrapGuard) := by omega
      have hbf : betterOrigin env (.item f) (some g) = some g := by
        simp only [betterOrigin]
        by_cases hwf : env.weakrefable f = true
        · simp [hwf, hgf, hgl]
        · simp [hwf]
      -- state after the two determined steps
      let s2 : St := { s with toUnwrap := entryList nxt (nextOrigin env nxt g) (d + 1), toElab := s.toElab ++ [⟨.frameObj ⟨f, some g⟩, d + 1⟩], loops := 0 }
      have hstep : unwrapPhase env (2 * (rest.length + 1) + 2) s = unwrapPhase env (2 * rest.length + 2) s2 := by
        have e : 2 * (rest.length + 1) + 2 = (2 * rest.length + 2) + 1 + 1 := by omega
        rw [e]
        simp only [unwrapPhase, hq, entryList]
        have e1 : unwrapStep env { s with toUnwrap := [] } (⟨some g, .item g, d⟩ : QE)
            = { s with toUnwrap := (⟨some g, .item f, d + 1⟩ : QE) :: entryList nxt (nextOrigin env nxt g) (d + 1), loops := s.loops + 1 } := by
          cases nxt <;>
            simp [unwrapStep, hfg, hu, handleUnwrap, UnwrapRes.raised, UnwrapRes.isNone, UnwrapRes.children,
              UnwrapRes.iterErrs, hg, pushUnwrapped, hbf, entryList, nextOrigin]
        rw [e1]
        simp only []
        have e2 : unwrapStep env { s with toUnwrap := entryList nxt (nextOrigin env nxt g) (d + 1), loops := s.loops + 1 }
              (⟨some g, .item f, d + 1⟩ : QE) = s2 := by
          simp [unwrapStep, hff, wrapOrigin, hgl, hfo, s2]
        rw [e2]
      have hgo2 : GoodOrigin rest (nextOrigin env nxt g) := by
        unfold nextOrigin
        cases nxt with
        | none => cases rest with
          | nil => trivial
          | cons l ls => cases l with
            | gen g' f' => exact absurd hrest.1 (by simp)
            | wrap w' => trivial
        | some n => exact goodOrigin_next env rest n leaf (some g) hrest
      obtain ⟨s', hp, hu', he', herr, hout⟩ := ih nxt leaf s2 _ (d + 1) hrest (by simpa [s2] using hr2) hgo2 rfl
      refine ⟨s', by simp only [List.length_cons]; rw [hstep]; exact hp, hu', ?_, by rw [herr], by rw [hout]⟩
      rw [he']
      simp only [s2, chainFrames, chainTail, List.length_cons, List.append_assoc, List.cons_append, List.nil_append]
      have : d + 1 + rest.length = d + (rest.length + 1) := by omega
      cases leaf <;> simp [chainTail, this]
    | wrap w =>
      obtain ⟨hcur, hfw, hgw, nxt, hu, hrest⟩ := hc
      subst hcur
      obtain ⟨hr1, hr2⟩ := hr
      have hg : ¬ (s.loops + 1 > SS.Gen.unwrapGuard) := by omega
      let s1 : St := { s with toUnwrap := entryList (some nxt) (betterOrigin env (.item nxt) eo) (d + 1), loops := s.loops + 1 }
      have hstep : unwrapPhase env (2 * (rest.length + 1) + 2) s = unwrapPhase env (2 * rest.length + 2 + 1) s1 := by
        have e : 2 * (rest.length + 1) + 2 = (2 * rest.length + 2 + 1) + 1 := by omega
        rw [e]
        simp only [unwrapPhase, hq, entryList]
        have e1 : unwrapStep env { s with toUnwrap := [] } (⟨eo, .item w, d⟩ : QE) = s1 := by
          simp [unwrapStep, hfw, hu, handleUnwrap, UnwrapRes.raised, UnwrapRes.isNone, UnwrapRes.children,
            UnwrapRes.iterErrs, hg, pushUnwrapped, entryList, s1]
        rw [e1]
      obtain ⟨s', hp, hu', he', herr, hout⟩ :=
        ih (some nxt) leaf s1 _ (d + 1) hrest (by simpa [s1] using hr2) (goodOrigin_next env rest nxt leaf eo hrest) rfl
      refine ⟨s', by simp only [List.length_cons]; rw [hstep]; exact unwrapPhase_mono env _ s1 s' hp _ (by omega), hu', ?_, by rw [herr], by rw [hout]⟩
      rw [he']
      simp only [s1, chainFrames, chainTail, List.length_cons]
      have : d + 1 + rest.length = d + (rest.length + 1) := by omega
      cases leaf <;> simp [chainTail, this]

/-- Elaborating a run of plain frames emits them in order and finishes with the tail as leaf. -/
theorem run_plain_frames (env : Env) (hp : PlainFrames env) :
    ∀ (fr : List (FrameRec × Nat)) (tail : List EE) (lf : Option Item) (s : St) (k : Nat),
    s.toUnwrap = [] → s.toElab = fr.map (fun p => (⟨.frameObj p.1, p.2⟩ : EE)) ++ tail →
    (tail = [] ∧ lf = none ∨ ∃ t d, tail = [⟨.item t, d⟩] ∧ lf = some t) →
    run env (fr.length + 1 + k) s = .done (s.out ++ fr.map (fun p => (⟨p.1, false⟩ : OutFrame))) (leafOf lf) s.errors := by
  intro fr
  induction fr with
  | nil =>
    intro tail lf s k hu he ht
    simp only [List.length_nil, Nat.zero_add, List.map_nil, List.nil_append, List.append_nil] at he ⊢
    have e : 1 + k = k + 1 := by omega
    rw [e]
    unfold run
    have hph : unwrapPhase env (k + 1) s = some s := by simp [unwrapPhase, hu]
    rw [hph]
    simp only []
    rcases ht with ⟨h1, h2⟩ | ⟨t, d, h1, h2⟩
    · subst h1; subst h2
      simp [elabStep, he, leafOf]
    · subst h1; subst h2
      simp [elabStep, he, leafOf]
  | cons p ps ih =>
    intro tail lf s k hu he ht
    obtain ⟨f, d⟩ := p
    have e : ((f, d) :: ps).length + 1 + k = (ps.length + 1 + k) + 1 := by simp only [List.length_cons]; omega
    rw [e]
    unfold run
    have hph : unwrapPhase env (ps.length + 1 + k + 1) s = some s := by simp [unwrapPhase, hu]
    rw [hph]
    simp only []
    obtain ⟨h1, h2, h3⟩ := hp
    simp only [List.map_cons, List.cons_append] at he
    have hstep : elabStep env s = .inr { s with toElab := ps.map (fun p => (⟨.frameObj p.1, p.2⟩ : EE)) ++ tail, out := s.out ++ [⟨f, false⟩], loops := 0 } := by
      simp [elabStep, he, h1, h2, h3, elabOutcome]
    rw [hstep]
    simp only []
    rw [ih tail lf { s with toElab := ps.map (fun p => (⟨.frameObj p.1, p.2⟩ : EE)) ++ tail, out := s.out ++ [⟨f, false⟩], loops := 0 } k hu rfl ht]
    simp

end SS.Extract

namespace SS.Extract

theorem chainFrames_eq (links : List Link) (d : Nat) :
    ∃ ds : List Nat, ds.length = (throwPath links).length ∧
      chainFrames links d = ((throwPath links).zip ds).map (fun p => (⟨.frameObj p.1, p.2⟩ : EE)) := by
  induction links generalizing d with
  | nil => exact ⟨[], rfl, rfl⟩
  | cons l rest ih =>
    cases l with
    | gen g f =>
      obtain ⟨ds, h1, h2⟩ := ih (d + 1)
      exact ⟨(d + 1) :: ds, by simp [throwPath, h1], by simp [chainFrames, throwPath, h2]⟩
    | wrap w =>
      obtain ⟨ds, h1, h2⟩ := ih (d + 1)
      exact ⟨ds, by simpa [throwPath] using h1, by simpa [chainFrames, throwPath] using h2⟩

theorem throwPath_length_le (links : List Link) : (throwPath links).length ≤ links.length := by
  induction links with
  | nil => simp [throwPath]
  | cons l rest ih => cases l <;> simp [throwPath] <;> omega

theorem run_phase_idem (env : Env) (k : Nat) (s s' : St) (h : unwrapPhase env (k + 1) s = some s')
    (hu : s'.toUnwrap = []) : run env (k + 1) s = run env (k + 1) s' := by
  have h2 : unwrapPhase env (k + 1) s' = some s' := by simp [unwrapPhase, hu]
  unfold run
  rw [h, h2]

theorem chain_extract (env : Env) (links : List Link) (x : Item) (leaf : Option Item)
    (hc : IsChain env links (some x) leaf) (hr : RunsOK links leaf 0) (hp : PlainFrames env)
    (fuel : Nat) (hf : 2 * links.length + 3 ≤ fuel) :
    extract env fuel x = .done ((throwPath links).map (fun f => ⟨f, false⟩)) (leafOf leaf) [] := by
  have hgo : GoodOrigin links (betterOrigin env (.item x) none) := goodOrigin_next env links x leaf none hc
  obtain ⟨s', hph, hu', he', herr, hout⟩ :=
    chain_phase env links (some x) leaf (initSt env x) (betterOrigin env (.item x) none) 0 hc (by simpa [initSt] using hr) hgo rfl
  obtain ⟨ds, hdl, hds⟩ := chainFrames_eq links 0
  obtain ⟨n, rfl⟩ : ∃ n, fuel = n + 1 := ⟨fuel - 1, by omega⟩
  unfold extract
  rw [run_phase_idem env n _ s' (unwrapPhase_mono env _ _ s' hph (n + 1) (by omega)) hu']
  have hE : s'.toElab = ((throwPath links).zip ds).map (fun p => (⟨.frameObj p.1, p.2⟩ : EE)) ++ chainTail links 0 leaf := by
    rw [he', hds]; simp [initSt]
  have hlen : ((throwPath links).zip ds).length = (throwPath links).length := by simp [hdl]
  have hTl := throwPath_length_le links
  have htail : (chainTail links 0 leaf = [] ∧ leaf = none ∨ ∃ t d, chainTail links 0 leaf = [⟨.item t, d⟩] ∧ leaf = some t) := by
    cases leaf with
    | none => exact Or.inl ⟨rfl, rfl⟩
    | some t => exact Or.inr ⟨t, _, rfl, rfl⟩
  have hrun := run_plain_frames env hp ((throwPath links).zip ds) (chainTail links 0 leaf) leaf s'
      (n + 1 - (((throwPath links).zip ds).length + 1)) hu' hE htail
  have hfu : ((throwPath links).zip ds).length + 1 + (n + 1 - (((throwPath links).zip ds).length + 1)) = n + 1 := by
    rw [hlen]; omega
  rw [hfu] at hrun
  rw [hrun, hout, herr]
  simp only [initSt, List.nil_append]
  congr 1
  have hz : (throwPath links) = ((throwPath links).zip ds).map (·.1) := by
    rw [List.map_fst_zip]; omega
  conv => rhs; rw [hz]
  rw [List.map_map]
  rfl

end SS.Extract
