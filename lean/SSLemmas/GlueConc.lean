import SSModel.GlueConc
import SSLemmas.Glue
/-! Invariant of the concurrent installation routine. -/
namespace SS.GlueConc
open SS.Glue

theorem pend_cons (p : PC) (ps : List PC) : pend (p :: ps) = (pendOf p).toList ++ pend ps := by
  unfold pend
  cases h : pendOf p <;> simp [List.filterMap_cons, h]

/-- Replacing thread `t`'s program counter only exchanges that thread's contribution to the pending list. -/
theorem pend_split (pcs : List PC) : ∀ (t : Nat) (old new : PC), pcs[t]? = some old →
    ∃ R, (pend pcs).Perm ((pendOf old).toList ++ R) ∧ (pend (pcs.set t new)).Perm ((pendOf new).toList ++ R) := by
  induction pcs with
  | nil => intro t old new h; simp at h
  | cons p ps ih =>
    intro t old new h
    cases t with
    | zero =>
      simp at h; subst h
      exact ⟨pend ps, by rw [pend_cons], by rw [List.set_cons_zero, pend_cons]⟩
    | succ t =>
      simp at h
      obtain ⟨R, h1, h2⟩ := ih t old new h
      refine ⟨(pendOf p).toList ++ R, ?_, ?_⟩
      · rw [pend_cons]
        exact ((List.Perm.append_left _ h1).trans (List.perm_append_comm_assoc _ _ _))
      · rw [List.set_cons_succ, pend_cons]
        exact ((List.Perm.append_left _ h2).trans (List.perm_append_comm_assoc _ _ _))

structure CInv (st : Static) (c : CState) : Prop where
  nodup : (ranOf c.g.log ++ pend c.pcs).Nodup
  done : ∀ m, m ∈ ranOf c.g.log ++ pend c.pcs → Done st c.g m
  modThenBuiltin : ∀ m, m ∈ c.g.modPopped → st.hasBuiltin m = true → m ∈ c.g.builtinPopped
  builtinOnlyIfNoMod : ∀ m, m ∈ builtinRan c.g.log → st.hasModGlue m = false
  pendBuiltin : ∀ p ∈ c.pcs, ∀ m, pendBuiltinOf p = some m → st.hasModGlue m = false

/-- Steps that neither pop nor call glue. -/
theorem cinv_transfer (st : Static) (c c' : CState)
    (hperm : (ranOf c'.g.log ++ pend c'.pcs).Perm (ranOf c.g.log ++ pend c.pcs))
    (hmp : c'.g.modPopped = c.g.modPopped) (hbp : c'.g.builtinPopped = c.g.builtinPopped)
    (hbr : builtinRan c'.g.log = builtinRan c.g.log)
    (hpb : ∀ p ∈ c'.pcs, p ∈ c.pcs ∨ pendBuiltinOf p = none) (h : CInv st c) : CInv st c' := by
  obtain ⟨nd, dn, mb, bo, pb⟩ := h
  refine ⟨hperm.nodup_iff.mpr nd, ?_, ?_, ?_, ?_⟩
  · intro m hm
    have := dn m (hperm.mem_iff.mp hm)
    exact ⟨fun a => by rw [hmp]; exact this.1 a, fun a => by rw [hbp]; exact this.2 a⟩
  · intro m hm hb; rw [hmp] at hm; rw [hbp]; exact mb m hm hb
  · intro m hm; rw [hbr] at hm; exact bo m hm
  · intro p hp m hpm
    rcases hpb p hp with h1 | h1
    · exact pb p h1 m hpm
    · rw [h1] at hpm; cases hpm

theorem mem_set_cases {α : Type} (l : List α) (t : Nat) (new a : α) (h : a ∈ l.set t new) : a ∈ l ∨ a = new :=
  List.mem_or_eq_of_mem_set h

/-- A step that only replaces `t`'s program counter by one without a pending call, `g` changing at most in
`present`, `cache` and non-glue log entries. -/
theorem cinv_quiet (st : Static) (c : CState) (t : Nat) (old new : PC) (g' : GState) (lock' : Option Nat)
    (hold : c.pcs[t]? = some old) (ho : pendOf old = none) (hn : pendOf new = none) (hnb : pendBuiltinOf new = none)
    (hlog : ranOf g'.log = ranOf c.g.log) (hbr : builtinRan g'.log = builtinRan c.g.log)
    (hmp : g'.modPopped = c.g.modPopped) (hbp : g'.builtinPopped = c.g.builtinPopped)
    (h : CInv st c) : CInv st ⟨g', lock', c.pcs.set t new⟩ := by
  obtain ⟨R, h1, h2⟩ := pend_split c.pcs t old new hold
  rw [ho] at h1; rw [hn] at h2
  simp only [Option.toList, List.nil_append] at h1 h2
  apply cinv_transfer st c _ _ hmp hbp hbr _ h
  · simp only [hlog]
    exact List.Perm.append_left _ (h2.trans h1.symm)
  · intro p hp
    rcases mem_set_cases _ _ _ _ hp with h3 | h3
    · exact Or.inl h3
    · exact Or.inr (by rw [h3]; exact hnb)

theorem ranOf_callLog (st : Static) (m : Mod) (b mf : Bool) :
    ranOf (callLog st m b mf) = (if mf || b then some m else none).toList := by
  unfold callLog
  cases mf <;> cases b <;> simp [ranOf, ranOf_warns] <;> (cases st.modRaises m <;> simp) <;> (cases st.builtinRaises m <;> simp)

theorem builtinRan_callLog (st : Static) (m : Mod) (b mf : Bool) :
    builtinRan (callLog st m b mf) = (if !mf && b then some m else none).toList := by
  unfold callLog
  cases mf <;> cases b <;> simp [builtinRan] <;> (cases st.modRaises m <;> simp) <;> (cases st.builtinRaises m <;> simp)

/-- The glue call: the pending module moves from the pending list to the log. -/
theorem cinv_call (st : Static) (c : CState) (t : Nat) (m : Mod) (b mf : Bool) (todo : List Mod) (total : Nat) (complete : Bool)
    (hold : c.pcs[t]? = some (.popped m b mf todo total complete)) (h : CInv st c) :
    CInv st ⟨{ c.g with log := c.g.log ++ callLog st m b mf }, c.lock, c.pcs.set t (.scan todo total complete)⟩ := by
  obtain ⟨R, h1, h2⟩ := pend_split c.pcs t _ (.scan todo total complete) hold
  have hmemold : PC.popped m b mf todo total complete ∈ c.pcs := List.mem_of_getElem? hold
  obtain ⟨nd, dn, mb, bo, pb⟩ := h
  simp only [pendOf] at h1 h2
  simp only [Option.toList, List.nil_append] at h2
  have hperm : (ranOf (c.g.log ++ callLog st m b mf) ++ pend (c.pcs.set t (.scan todo total complete))).Perm
      (ranOf c.g.log ++ pend c.pcs) := by
    rw [ranOf_append, ranOf_callLog, List.append_assoc]
    exact List.Perm.append_left _ ((List.Perm.append_left _ h2).trans h1.symm)
  refine ⟨hperm.nodup_iff.mpr nd, ?_, mb, ?_, ?_⟩
  · intro k hk; exact dn k (hperm.mem_iff.mp hk)
  · intro k hk
    rw [builtinRan_append, builtinRan_callLog, List.mem_append] at hk
    rcases hk with hk | hk
    · exact bo k hk
    · have : pendBuiltinOf (.popped m b mf todo total complete) = some k := by
        simp only [pendBuiltinOf]
        cases hc : (!mf && b) <;> simp [hc] at hk ⊢
        exact hk.symm
      exact pb _ hmemold k this
  · intro p hp k hpk
    rcases mem_set_cases _ _ _ _ hp with h3 | h3
    · exact pb p h3 k hpk
    · rw [h3] at hpk; simp [pendBuiltinOf] at hpk

/-- The two pops for a name whose module is present. -/
theorem cinv_pop (st : Static) (c : CState) (t : Nat) (m : Mod) (todo : List Mod) (total : Nat) (complete : Bool)
    (hold : c.pcs[t]? = some (.scan (m :: todo) total complete)) (h : CInv st c) :
    let b := st.hasBuiltin m && !c.g.builtinPopped.contains m
    let mf := st.hasModGlue m && !c.g.modPopped.contains m
    CInv st ⟨{ c.g with builtinPopped := if b then m :: c.g.builtinPopped else c.g.builtinPopped,
                         modPopped := if mf then m :: c.g.modPopped else c.g.modPopped },
             c.lock, c.pcs.set t (.popped m b mf todo total complete)⟩ := by
  intro b mf
  obtain ⟨R, h1, h2⟩ := pend_split c.pcs t _ (.popped m b mf todo total complete) hold
  obtain ⟨nd, dn, mb, bo, pb⟩ := h
  simp only [pendOf, Option.toList, List.nil_append] at h1
  -- popped sets only grow
  have gm : ∀ k, k ∈ c.g.modPopped → k ∈ (if mf then m :: c.g.modPopped else c.g.modPopped) := by
    intro k hk; split <;> simp [hk]
  have gb : ∀ k, k ∈ c.g.builtinPopped → k ∈ (if b then m :: c.g.builtinPopped else c.g.builtinPopped) := by
    intro k hk; split <;> simp [hk]
  -- after the pops nothing is pending for m
  have hdone_m : (st.hasModGlue m = true → m ∈ (if mf then m :: c.g.modPopped else c.g.modPopped)) ∧
      (st.hasBuiltin m = true → m ∈ (if b then m :: c.g.builtinPopped else c.g.builtinPopped)) := by
    constructor
    · intro hg
      by_cases hc : c.g.modPopped.contains m = true
      · have : m ∈ c.g.modPopped := by simpa using hc
        exact gm m this
      · have hn : m ∉ c.g.modPopped := by simpa using hc
        have : mf = true := by simp [mf, hg, hn]
        simp [this]
    · intro hg
      by_cases hc : c.g.builtinPopped.contains m = true
      · have : m ∈ c.g.builtinPopped := by simpa using hc
        exact gb m this
      · have hn : m ∉ c.g.builtinPopped := by simpa using hc
        have : b = true := by simp [b, hg, hn]
        simp [this]
  -- a module that already ran (or is pending) yields no new pop
  have hfresh : (mf || b) = true → m ∉ ranOf c.g.log ++ pend c.pcs := by
    intro hmb hmem
    have hd := dn m hmem
    rcases Bool.or_eq_true_iff.mp hmb with hx | hx
    · have h1' : st.hasModGlue m = true := by simp [mf] at hx; exact hx.1
      have h2' : m ∉ c.g.modPopped := by simp [mf] at hx; exact hx.2
      exact h2' (hd.1 h1')
    · have h1' : st.hasBuiltin m = true := by simp [b] at hx; exact hx.1
      have h2' : m ∉ c.g.builtinPopped := by simp [b] at hx; exact hx.2
      exact h2' (hd.2 h1')
  have hperm : (ranOf c.g.log ++ pend (c.pcs.set t (.popped m b mf todo total complete))).Perm
      ((if mf || b then some m else none).toList ++ (ranOf c.g.log ++ pend c.pcs)) := by
    have : (pend (c.pcs.set t (.popped m b mf todo total complete))).Perm ((if mf || b then some m else none).toList ++ pend c.pcs) :=
      h2.trans (List.Perm.append_left _ h1.symm)
    exact (List.Perm.append_left _ this).trans (List.perm_append_comm_assoc _ _ _)
  refine ⟨?_, ?_, ?_, bo, ?_⟩
  · refine hperm.nodup_iff.mpr ?_
    cases hmb : (mf || b)
    · simpa using nd
    · simp only [if_true, Option.toList, List.singleton_append, List.nodup_cons]
      exact ⟨hfresh hmb, nd⟩
  · intro k hk
    have hk' := hperm.mem_iff.mp hk
    rw [List.mem_append] at hk'
    rcases hk' with hk' | hk'
    · have : k = m := by
        cases hmb : (mf || b) <;> simp [hmb] at hk'
        exact hk'
      subst this
      exact ⟨hdone_m.1, hdone_m.2⟩
    · have := dn k hk'
      exact ⟨fun a => gm k (this.1 a), fun a => gb k (this.2 a)⟩
  · intro k hk hb
    by_cases hkm : k = m
    · subst hkm; exact hdone_m.2 hb
    · have : k ∈ c.g.modPopped := by
        revert hk; split
        · intro hk; rcases List.mem_cons.mp hk with h3 | h3
          · exact absurd h3 hkm
          · exact h3
        · exact id
      exact gb k (mb k this hb)
  · intro p hp k hpk
    rcases mem_set_cases _ _ _ _ hp with h3 | h3
    · exact pb p h3 k hpk
    · rw [h3] at hpk
      simp only [pendBuiltinOf] at hpk
      -- built-in pending and module glue not: the module has none (else it was popped before, and then the built-in too)
      cases hmf : mf <;> cases hb : b <;> simp [hmf, hb] at hpk
      subst hpk
      cases hg : st.hasModGlue m with
      | false => rfl
      | true =>
        exfalso
        have hmp : m ∈ c.g.modPopped := by
          have : (st.hasModGlue m && !c.g.modPopped.contains m) = false := hmf
          simp [hg] at this; exact this
        have hbi : st.hasBuiltin m = true := by
          have : (st.hasBuiltin m && !c.g.builtinPopped.contains m) = true := hb
          simp at this; exact this.1
        have hnb : m ∉ c.g.builtinPopped := by
          have : (st.hasBuiltin m && !c.g.builtinPopped.contains m) = true := hb
          simp at this; exact this.2
        exact hnb (mb m hmp hbi)

theorem ranOf_returned (log : List Ev) : ranOf (log ++ [Ev.returned]) = ranOf log := by simp [ranOf]
theorem builtinRan_returned (log : List Ev) : builtinRan (log ++ [Ev.returned]) = builtinRan log := by simp [builtinRan]

theorem cstep_inv (st : Static) (c : CState) (t : Nat) (h : CInv st c) : CInv st (cstep st c t) := by
  unfold cstep
  cases hp : c.pcs[t]? with
  | none => exact h
  | some pc =>
    cases pc with
    | idle => exact cinv_quiet st c t _ .fast c.g c.lock hp rfl rfl rfl rfl rfl rfl rfl h
    | fast =>
      simp only []
      split
      · exact cinv_quiet st c t _ .idle _ c.lock hp rfl rfl rfl (ranOf_returned _) (builtinRan_returned _) rfl rfl h
      · exact cinv_quiet st c t _ .wantLock c.g c.lock hp rfl rfl rfl rfl rfl rfl rfl h
    | wantLock =>
      simp only []
      split
      · exact h
      · exact cinv_quiet st c t _ (.scan c.g.present c.g.present.length true) c.g (some t) hp rfl rfl rfl rfl rfl rfl rfl h
    | scan todo total complete =>
      cases todo with
      | nil =>
        exact cinv_quiet st c t _ .idle _ none hp rfl rfl rfl (ranOf_returned _) (builtinRan_returned _) rfl rfl h
      | cons m todo =>
        simp only []
        split
        · exact cinv_pop st c t m todo total complete hp h
        · exact cinv_quiet st c t _ (.scan todo total false) c.g c.lock hp rfl rfl rfl rfl rfl rfl rfl h
    | popped m b mf todo total complete => exact cinv_call st c t m b mf todo total complete hp h

theorem cinv_present (st : Static) (c : CState) (g' : GState) (hl : g'.log = c.g.log) (hm : g'.modPopped = c.g.modPopped)
    (hb : g'.builtinPopped = c.g.builtinPopped) (h : CInv st c) : CInv st { c with g := g' } := by
  apply cinv_transfer st c _ _ hm hb _ _ h
  · simp only [hl]; exact List.Perm.refl _
  · simp only [hl]
  · intro p hp; exact Or.inl hp

theorem cmove_inv (st : Static) (c : CState) (mv : CMove) (h : CInv st c) : CInv st (cmove st c mv) := by
  cases mv with
  | thread t => exact cstep_inv st c t h
  | insert m =>
    simp only [cmove, step]
    split
    · exact cinv_present st c c.g rfl rfl rfl h
    · exact cinv_present st c _ rfl rfl rfl h
  | remove m => exact cinv_present st c _ rfl rfl rfl h

theorem cinit_inv (st : Static) (n : Nat) : CInv st (cinit n) := by
  have hp : pend (List.replicate n PC.idle) = [] := by
    induction n with
    | zero => rfl
    | succ n ih => rw [List.replicate_succ, pend_cons, ih]; rfl
  refine ⟨by simp [cinit, GState.init, ranOf, hp], by simp [cinit, GState.init, ranOf, hp], by simp [cinit, GState.init],
    by simp [cinit, GState.init, builtinRan], ?_⟩
  intro p hp' m hm
  have : p = .idle := List.eq_of_mem_replicate hp'
  rw [this] at hm; cases hm

theorem crun_inv (st : Static) (n : Nat) (sched : List CMove) : CInv st (crun st n sched) := by
  unfold crun
  have : ∀ (c : CState), CInv st c → CInv st (sched.foldl (cmove st) c) := by
    induction sched with
    | nil => intro c h; exact h
    | cons mv ms ih => intro c h; exact ih _ (cmove_inv st c mv h)
  exact this _ (cinit_inv st n)

/-! ### mutual exclusion -/

def scanning : PC → Bool
  | .scan _ _ _ => true
  | .popped _ _ _ _ _ _ => true
  | _ => false

/-- Whoever is scanning holds the lock. -/
def LockInv (c : CState) : Prop := ∀ t p, c.pcs[t]? = some p → scanning p = true → c.lock = some t

theorem getElem?_set_cases {α : Type} (l : List α) (t u : Nat) (new p : α) (h : (l.set t new)[u]? = some p) :
    (u = t ∧ p = new) ∨ (u ≠ t ∧ l[u]? = some p) := by
  by_cases hut : u = t
  · subst hut
    rw [List.getElem?_set_self'] at h
    cases hl : l[u]? with
    | none => simp [hl] at h
    | some x => simp [hl] at h; exact Or.inl ⟨rfl, h.symm⟩
  · rw [List.getElem?_set_ne (Ne.symm hut)] at h
    exact Or.inr ⟨hut, h⟩

theorem lock_quiet (c : CState) (t : Nat) (old new : PC) (g' : GState) (hold : c.pcs[t]? = some old)
    (hs : scanning new = true → scanning old = true) (h : LockInv c) : LockInv ⟨g', c.lock, c.pcs.set t new⟩ := by
  intro u p hu hsc
  rcases getElem?_set_cases _ _ _ _ _ hu with ⟨rfl, rfl⟩ | ⟨_, h2⟩
  · exact h u old hold (hs hsc)
  · exact h u p h2 hsc

theorem cstep_lock (st : Static) (c : CState) (t : Nat) (h : LockInv c) : LockInv (cstep st c t) := by
  unfold cstep
  cases hp : c.pcs[t]? with
  | none => exact h
  | some pc =>
    cases pc with
    | idle => exact lock_quiet c t _ .fast c.g hp (by simp [scanning]) h
    | fast =>
      simp only []
      split
      · exact lock_quiet c t _ .idle _ hp (by simp [scanning]) h
      · exact lock_quiet c t _ .wantLock c.g hp (by simp [scanning]) h
    | wantLock =>
      simp only []
      cases hl : c.lock with
      | some x => simpa [hl] using h
      | none =>
        simp only []
        intro u p hu hsc
        rcases getElem?_set_cases _ _ _ _ _ hu with ⟨rfl, _⟩ | ⟨_, h2⟩
        · rfl
        · have := h u p h2 hsc; rw [hl] at this; cases this
    | scan todo total complete =>
      cases todo with
      | nil =>
        simp only []
        intro u p hu hsc
        rcases getElem?_set_cases _ _ _ _ _ hu with ⟨rfl, rfl⟩ | ⟨hne, h2⟩
        · simp [scanning] at hsc
        · have h1 := h u p h2 hsc
          have h3 := h t _ hp (by simp [scanning])
          rw [h1] at h3; exact absurd (Option.some.inj h3) hne
      | cons m todo =>
        simp only []
        split
        · exact lock_quiet c t _ _ _ hp (by simp [scanning]) h
        · exact lock_quiet c t _ _ c.g hp (by simp [scanning]) h
    | popped m b mf todo total complete => exact lock_quiet c t _ _ _ hp (by simp [scanning]) h

theorem crun_lock (st : Static) (n : Nat) (sched : List CMove) : LockInv (crun st n sched) := by
  unfold crun
  have : ∀ (c : CState), LockInv c → LockInv (sched.foldl (cmove st) c) := by
    induction sched with
    | nil => intro c h; exact h
    | cons mv ms ih =>
      intro c h
      apply ih
      cases mv with
      | thread t => exact cstep_lock st c t h
      | insert m => exact h
      | remove m => exact h
  apply this
  intro t p hp hs
  have : p = .idle := by
    have := List.mem_of_getElem? hp
    exact List.eq_of_mem_replicate this
  rw [this] at hs; simp [scanning] at hs

end SS.GlueConc
