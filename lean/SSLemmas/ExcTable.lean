import SSModel.ExcTable
/-! Lemmas about M-A. -/
namespace SS.ExcTable

/-- What the decoder's accumulator becomes after reading the continuation bytes of `n`. -/
def shift (val n : Nat) : Nat := if h : n < 64 then val * 64 + n else shift val (n / 64) * 64 + n % 64
termination_by n
decreasing_by omega

theorem shift_zero (n : Nat) : shift 0 n = n := by
  induction n using Nat.strongRecOn with
  | _ n ih =>
    unfold shift
    split
    · omega
    · rename_i h
      rw [ih (n / 64) (by omega)]; omega

theorem pgo_encGo (n : Nat) : ∀ (val : Nat) (tail : List Nat), pgo val (encGo n tail) = pgo (shift val n) tail := by
  induction n using Nat.strongRecOn with
  | _ n ih =>
    intro val tail
    unfold encGo shift
    split
    · rename_i h
      simp only [pgo]
      have h1 : (n + 64) % 64 = n := by omega
      have h2 : (n + 64) / 64 % 2 = 1 := by omega
      rw [h1, if_pos h2]
    · rename_i h
      rw [ih (n / 64) (by omega)]
      simp only [pgo]
      have h1 : (n % 64 + 64) % 64 = n % 64 := by omega
      have h2 : (n % 64 + 64) / 64 % 2 = 1 := by omega
      rw [h1, if_pos h2]

theorem encGo_append (n : Nat) : ∀ (tail rest : List Nat), encGo n tail ++ rest = encGo n (tail ++ rest) := by
  induction n using Nat.strongRecOn with
  | _ n ih =>
    intro tail rest
    unfold encGo
    split
    · rfl
    · rename_i h
      rw [ih (n / 64) (by omega)]; rfl

theorem pgo0_encVarint (n : Nat) (rest : List Nat) : pgo 0 (encVarint n ++ rest) = some (n, rest) := by
  unfold encVarint
  split
  · rename_i h
    have h1 : n % 64 = n := by omega
    have h2 : ¬ (n / 64 % 2 = 1) := by omega
    simp [pgo, h1, h2]
  · rename_i h
    rw [encGo_append, pgo_encGo, shift_zero]
    have h1 : n % 64 % 64 = n % 64 := by omega
    have h2 : ¬ (n % 64 / 64 % 2 = 1) := by omega
    simp only [List.cons_append, List.nil_append, pgo, h1, h2, if_false]
    congr 2; omega

theorem encGo_ne_nil (n : Nat) (tail : List Nat) : encGo n tail ≠ [] := by
  induction n using Nat.strongRecOn generalizing tail with
  | _ n ih =>
    unfold encGo; split
    · simp
    · rename_i h; exact ih (n / 64) (by omega) _

theorem encVarint_ne_nil (n : Nat) : encVarint n ≠ [] := by
  unfold encVarint
  split
  · simp
  · exact encGo_ne_nil _ _

/-- Bit 7 on the first byte is invisible to the decoder. -/
theorem pgo_setMsb (val : Nat) (l : List Nat) : pgo val (setMsb l) = pgo val l := by
  cases l with
  | nil => rfl
  | cons b r =>
    simp only [setMsb, pgo]
    have h1 : (b + 128) % 64 = b % 64 := by omega
    have h2 : (b + 128) / 64 % 2 = b / 64 % 2 := by omega
    rw [h1, h2]

theorem setMsb_append (l rest : List Nat) (h : l ≠ []) : setMsb l ++ rest = setMsb (l ++ rest) := by
  cases l with
  | nil => exact absurd rfl h
  | cons b r => rfl

theorem parseVarint_enc (n : Nat) (rest : List Nat) : parseVarint (encVarint n ++ rest) = some (n, rest) :=
  pgo0_encVarint n rest

theorem parseVarint_encMsb (n : Nat) (rest : List Nat) : parseVarint (setMsb (encVarint n) ++ rest) = some (n, rest) := by
  unfold parseVarint
  rw [setMsb_append _ _ (encVarint_ne_nil n), pgo_setMsb]
  exact pgo0_encVarint n rest

theorem parseEntry_enc (e : Entry) (rest : List Nat) : parseEntry (encEntry e ++ rest) = some (e.view, rest) := by
  unfold parseEntry encEntry
  simp only [List.append_assoc]
  rw [parseVarint_encMsb]
  simp only []
  rw [parseVarint_enc]
  simp only []
  rw [parseVarint_enc]
  simp only []
  rw [parseVarint_enc]
  simp only [Entry.view]
  cases e.lasti <;> simp <;> omega

theorem encEntry_length_pos (e : Entry) : 0 < (encEntry e).length := by
  unfold encEntry
  have := encVarint_ne_nil e.size
  have h : 0 < (encVarint e.size).length := List.length_pos_iff.mpr this
  simp only [List.length_append]; omega

theorem parseTableF_enc (es : List Entry) : ∀ (f : Nat), es.length ≤ f → parseTableF f (encodeTable es) = es.map Entry.view := by
  induction es with
  | nil =>
    intro f _
    cases f with
    | zero => rfl
    | succ f => simp [parseTableF, encodeTable, parseEntry, parseVarint, pgo]
  | cons e es ih =>
    intro f hf
    cases f with
    | zero => simp at hf
    | succ f =>
      have : encodeTable (e :: es) = encEntry e ++ encodeTable es := by simp [encodeTable]
      rw [this]
      simp only [parseTableF, parseEntry_enc, List.map_cons]
      rw [ih f (by simpa using hf)]

theorem encodeTable_length (es : List Entry) : es.length ≤ (encodeTable es).length := by
  induction es with
  | nil => simp [encodeTable]
  | cons e es ih =>
    have : encodeTable (e :: es) = encEntry e ++ encodeTable es := by simp [encodeTable]
    rw [this, List.length_append, List.length_cons]
    have := encEntry_length_pos e
    omega

/-! ### walk = chain on disjoint tables -/

theorem disjoint_tail {v : View} {vs : List View} (h : Disjoint (v :: vs)) : Disjoint vs := by
  cases vs with
  | nil => trivial
  | cons w rest => exact h.2.2

theorem disjoint_head {v : View} {vs : List View} (h : Disjoint (v :: vs)) : (v.start : Int) ≤ v.end_ := by
  cases vs with
  | nil => exact h
  | cons w rest => exact h.1

theorem ltKey_iff {v : View} (c : Nat) (h : (v.start : Int) ≤ v.end_) : ltKey v c = decide (v.start ≤ c) := by
  unfold ltKey
  have : ¬ (v.end_ < 0) := by omega
  simp [this]; omega

/-- In a disjoint table every entry after the head starts after the head's end. -/
theorem disjoint_starts {v : View} {vs : List View} (h : Disjoint (v :: vs)) : ∀ w ∈ vs, v.end_ < (w.start : Int) := by
  induction vs generalizing v with
  | nil => intro w hw; cases hw
  | cons u rest ih =>
    intro w hw
    rcases List.mem_cons.mp hw with rfl | hw
    · exact h.2.1
    · have h2 := ih h.2.2 w hw
      have h3 := h.2.2
      have := disjoint_head h3
      have := h.2.1
      omega

theorem bisect_zero_of_start_gt {vs : List View} (hd : Disjoint vs) (c : Nat) (h : ∀ w ∈ vs, c < w.start) : bisectLeft vs c = 0 := by
  cases vs with
  | nil => rfl
  | cons w rest =>
    have hw := h w (by simp)
    have := disjoint_head hd
    simp only [bisectLeft, List.takeWhile_cons, ltKey_iff c this]
    have : ¬ (w.start ≤ c) := by omega
    simp [this]

/-- The entry stackscope looks at (the last one starting at or before `c`) is the one the interpreter
finds, and it covers `c` exactly when the interpreter finds one. -/
theorem lookup_eq_last (hs : List View) (hd : Disjoint hs) (c : Nat) :
    lookup hs c = (if bisectLeft hs c = 0 then none else
      match hs[bisectLeft hs c - 1]? with
      | none => none
      | some h => if covers h c then some h else none) := by
  induction hs with
  | nil => rfl
  | cons v vs ih =>
    have hv := disjoint_head hd
    have hvs := disjoint_tail hd
    have hst := disjoint_starts hd
    simp only [lookup, bisectLeft, List.takeWhile_cons, ltKey_iff c hv]
    by_cases h1 : v.start ≤ c
    · have : ¬ (v.start > c) := by omega
      simp only [this, if_false, h1, decide_true, if_true, List.length_cons]
      by_cases h2 : (c : Int) ≤ v.end_
      · -- v covers c; every later entry starts after c
        have hz : bisectLeft vs c = 0 := bisect_zero_of_start_gt hvs c (fun w hw => by have := hst w hw; omega)
        have hz' : (List.takeWhile (fun x => ltKey x c) vs).length = 0 := hz
        simp [h2, hz', covers, h1]
      · have ih' := ih hvs
        simp only [h2, if_false]
        rw [ih']
        have hb : bisectLeft vs c = (List.takeWhile (fun x => ltKey x c) vs).length := rfl
        by_cases hz : bisectLeft vs c = 0
        · have hz' : (List.takeWhile (fun x => ltKey x c) vs).length = 0 := hz
          simp [hz, hz', covers, h2]
        · have hz' : (List.takeWhile (fun x => ltKey x c) vs).length ≠ 0 := hz
          have hpos : 0 < (List.takeWhile (fun x => ltKey x c) vs).length := Nat.pos_of_ne_zero hz'
          simp only [hz, if_false, Nat.add_sub_cancel]
          rw [← hb]
          have : (v :: vs)[bisectLeft vs c]? = vs[bisectLeft vs c - 1]? := by
            have : bisectLeft vs c = (bisectLeft vs c - 1) + 1 := by omega
            rw [this, List.getElem?_cons_succ]; simp
          have hne : ¬ (bisectLeft vs c + 1 = 0) := by omega
          rw [if_neg hne, this]
    · have : v.start > c := by omega
      simp [this, h1]

/-! ### termination -/

theorem lookup_some {hs : List View} {c : Nat} {h : View} (hl : lookup hs c = some h) :
    h ∈ hs ∧ h.start ≤ c ∧ (c : Int) ≤ h.end_ := by
  induction hs with
  | nil => simp [lookup] at hl
  | cons v vs ih =>
    simp only [lookup] at hl
    split at hl
    · cases hl
    · rename_i h1
      split at hl
      · rename_i h2
        cases hl
        exact ⟨by simp, by omega, h2⟩
      · have := ih hl
        exact ⟨by simp [this.1], this.2⟩

/-- Entries whose range has not been passed yet. -/
def rem : List View → Nat → Nat
  | [], _ => 0
  | v :: vs, c => (if (c : Int) ≤ v.end_ then 1 else 0) + rem vs c

theorem rem_le_length (hs : List View) (c : Nat) : rem hs c ≤ hs.length := by
  induction hs with
  | nil => simp [rem]
  | cons v vs ih => simp only [rem, List.length_cons]; split <;> omega

theorem rem_mono (hs : List View) {c c' : Nat} (h : c ≤ c') : rem hs c' ≤ rem hs c := by
  induction hs with
  | nil => simp [rem]
  | cons v vs ih =>
    simp only [rem]
    by_cases h1 : (c' : Int) ≤ v.end_
    · have : (c : Int) ≤ v.end_ := by omega
      simp [h1, this]; exact ih
    · simp only [h1, if_false]; split <;> omega

theorem rem_lt (hs : List View) {c c' : Nat} {h : View} (hm : h ∈ hs) (h1 : (c : Int) ≤ h.end_) (h2 : h.end_ < (c' : Int)) (hc : c ≤ c') :
    rem hs c' < rem hs c := by
  induction hs with
  | nil => cases hm
  | cons v vs ih =>
    simp only [rem]
    rcases List.mem_cons.mp hm with rfl | hm
    · have a : ¬ ((c' : Int) ≤ h.end_) := by omega
      have := rem_mono vs hc
      simp [a, h1]; omega
    · have := ih hm
      by_cases h3 : (c' : Int) ≤ v.end_
      · have : (c : Int) ≤ v.end_ := by omega
        simp [h3, this]; omega
      · simp only [h3, if_false]; split <;> omega

theorem chainGo_terminates (hs : List View) (hf : Forward hs) : ∀ (f cur : Nat) (acc : List Block),
    rem hs cur < f → ∃ r, chainGo hs f cur acc = some r := by
  intro f
  induction f with
  | zero => intro cur acc h; omega
  | succ f ih =>
    intro cur acc hlt
    simp only [chainGo]
    cases hl : lookup hs cur with
    | none => exact ⟨acc, rfl⟩
    | some h =>
      simp only []
      have ⟨hm, hs1, hs2⟩ := lookup_some hl
      have hfw := hf h hm
      have hc : cur ≤ h.target := by omega
      have := rem_lt hs hm hs2 hfw hc
      exact ih _ _ (by omega)

/-! ### the innermost block and the trim depth -/

theorem chainGo_suffix (hs : List View) : ∀ (f cur : Nat) (acc r : List Block), chainGo hs f cur acc = some r → ∃ pre, r = pre ++ acc := by
  intro f
  induction f with
  | zero => intro cur acc r h; simp [chainGo] at h
  | succ f ih =>
    intro cur acc r h
    simp only [chainGo] at h
    cases hl : lookup hs cur with
    | none => rw [hl] at h; cases h; exact ⟨[], rfl⟩
    | some v =>
      rw [hl] at h
      obtain ⟨pre, hp⟩ := ih _ _ _ h
      exact ⟨pre ++ [⟨v.target, v.depth⟩], by simp [hp]⟩

theorem firstCover_eq_lookup (hs : List View) (hd : Disjoint hs) (pos : Nat) :
    firstCover hs pos = ((lookup hs pos).map (·.depth)).getD 0 := by
  induction hs with
  | nil => rfl
  | cons v vs ih =>
    have hv := disjoint_head hd
    have hvs := disjoint_tail hd
    have hst := disjoint_starts hd
    simp only [firstCover, lookup, covers]
    by_cases h1 : v.start ≤ pos
    · have : ¬ (v.start > pos) := by omega
      simp only [this, if_false, h1, decide_true, Bool.true_and]
      by_cases h2 : (pos : Int) ≤ v.end_
      · simp [h2]
      · simp only [h2, decide_false, if_false]
        exact ih hvs
    · have hgt : v.start > pos := by omega
      simp only [hgt, if_true, h1, decide_false, Bool.false_and, if_false]
      -- no later entry covers pos either
      have : ∀ (ws : List View), (∀ w ∈ ws, pos < w.start) → firstCover ws pos = 0 := by
        intro ws
        induction ws with
        | nil => intro _; rfl
        | cons w ws ihw =>
          intro hw
          have := hw w (by simp)
          have hn : ¬ (w.start ≤ pos) := by omega
          simp only [firstCover, covers, hn, decide_false, Bool.false_and, if_false]
          exact ihw (fun x hx => hw x (by simp [hx]))
      rw [this vs (fun w hw => by have := hst w hw; omega)]
      rfl

end SS.ExcTable
