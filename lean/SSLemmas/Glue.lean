import SSModel.Glue
namespace SS.Glue

/-- The modules for which some glue function has been called, in call order. -/
def ranOf (log : List Ev) : List Mod :=
  log.filterMap (fun e => match e with | .ranMod m => some m | .ranBuiltin m => some m | _ => none)

def builtinRan (log : List Ev) : List Mod :=
  log.filterMap (fun e => match e with | .ranBuiltin m => some m | _ => none)

/-- Nothing is pending for `m` any more. -/
def Done (st : Static) (g : GState) (m : Mod) : Prop :=
  (st.hasModGlue m = true → m ∈ g.modPopped) ∧ (st.hasBuiltin m = true → m ∈ g.builtinPopped)

structure SInv (st : Static) (g : GState) : Prop where
  nodup : (ranOf g.log).Nodup
  ranDone : ∀ m, m ∈ ranOf g.log → Done st g m
  modThenBuiltin : ∀ m, m ∈ g.modPopped → st.hasBuiltin m = true → m ∈ g.builtinPopped
  builtinOnlyIfNoMod : ∀ m, m ∈ builtinRan g.log → st.hasModGlue m = false

theorem ranOf_append (a b : List Ev) : ranOf (a ++ b) = ranOf a ++ ranOf b := by simp [ranOf, List.filterMap_append]
theorem builtinRan_append (a b : List Ev) : builtinRan (a ++ b) = builtinRan a ++ builtinRan b := by
  simp [builtinRan, List.filterMap_append]
theorem ranOf_warns (m : Mod) (b : Bool) : ranOf (if b then [Ev.warn m] else []) = [] := by cases b <;> rfl
theorem builtinRan_warns (m : Mod) (b : Bool) : builtinRan (if b then [Ev.warn m] else []) = [] := by cases b <;> rfl

theorem visit_present (st : Static) (g : GState) (m : Mod) :
    (visit st g m).present = g.present ∧ (visit st g m).cache = g.cache := ⟨rfl, rfl⟩

/-- After visiting `m` (still present), nothing is pending for it. -/
theorem visit_done (st : Static) (g : GState) (m : Mod) (hp : g.present.contains m = true) :
    Done st (visit st g m) m := by
  constructor
  · intro hmg
    simp only [visit, modFn, hp, hmg, Bool.true_and]
    by_cases hc : g.modPopped.contains m = true
    · simp only [hc, Bool.not_true, Bool.false_eq_true, if_false]; simpa using hc
    · have hn : m ∉ g.modPopped := by simpa using hc
      simp [hn]
  · intro hb
    simp only [visit, builtinFn, hb, Bool.true_and]
    by_cases hc : g.builtinPopped.contains m = true
    · simp only [hc, Bool.not_true, Bool.false_eq_true, if_false]; simpa using hc
    · have hn : m ∉ g.builtinPopped := by simpa using hc
      simp [hn]

/-- Popped sets only grow. -/
theorem visit_mono (st : Static) (g : GState) (m k : Mod) :
    (k ∈ g.modPopped → k ∈ (visit st g m).modPopped) ∧ (k ∈ g.builtinPopped → k ∈ (visit st g m).builtinPopped) := by
  constructor <;> intro h <;> simp only [visit] <;> split <;> simp [h]

theorem visit_inv (st : Static) (g : GState) (m : Mod) (hp : g.present.contains m = true) (h : SInv st g) :
    SInv st (visit st g m) := by
  have hdone := visit_done st g m hp
  have hmono := visit_mono st g m
  obtain ⟨nd, rd, mb, bo⟩ := h
  by_cases hM : modFn st g m = true
  · have hM' := hM
    simp only [modFn, hp, Bool.true_and, Bool.and_eq_true, Bool.not_eq_true', List.contains_eq_mem,
      decide_eq_false_iff_not] at hM'
    have hnotran : m ∉ ranOf g.log := fun hr => hM'.2 ((rd m hr).1 hM'.1)
    have hlog : ranOf (visit st g m).log = ranOf g.log ++ [m] ∧ builtinRan (visit st g m).log = builtinRan g.log := by
      simp only [visit, visitLog, hM, if_true, ranOf_append, ranOf_warns, builtinRan_append, builtinRan_warns]
      exact ⟨by simp [ranOf], by simp [builtinRan]⟩
    refine ⟨?_, ?_, ?_, ?_⟩
    · rw [hlog.1]; exact List.nodup_append.mpr ⟨nd, by simp, by intro a ha b hb; simp at hb; subst hb; intro e; subst e; exact hnotran ha⟩
    · intro k hk
      rw [hlog.1] at hk
      simp only [List.mem_append, List.mem_singleton] at hk
      rcases hk with hk | rfl
      · exact ⟨fun a => (hmono k).1 ((rd k hk).1 a), fun a => (hmono k).2 ((rd k hk).2 a)⟩
      · exact hdone
    · intro k hk hbk
      by_cases hkm : k = m
      · subst hkm; exact hdone.2 hbk
      · have : k ∈ g.modPopped := by
          simp only [visit, hM, if_true, List.mem_cons] at hk
          rcases hk with hk | hk
          · exact absurd hk hkm
          · exact hk
        exact (hmono k).2 (mb k this hbk)
    · intro k hk; rw [hlog.2] at hk; exact bo k hk
  · by_cases hB : builtinFn st g m = true
    · have hB' := hB
      simp only [builtinFn, Bool.and_eq_true, Bool.not_eq_true', List.contains_eq_mem, decide_eq_false_iff_not] at hB'
      have hnotran : m ∉ ranOf g.log := fun hr => hB'.2 ((rd m hr).2 hB'.1)
      have hnomod : st.hasModGlue m = false := by
        cases hmg : st.hasModGlue m with
        | false => rfl
        | true =>
          exfalso
          simp only [modFn, hp, hmg, Bool.true_and, Bool.not_eq_true', Bool.not_eq_false, List.contains_eq_mem,
            decide_eq_true_eq] at hM
          exact hB'.2 (mb m hM hB'.1)
      have hlog : ranOf (visit st g m).log = ranOf g.log ++ [m] ∧ builtinRan (visit st g m).log = builtinRan g.log ++ [m] := by
        simp only [visit, visitLog, hM, hB, Bool.false_eq_true, if_false, if_true, ranOf_append, ranOf_warns,
          builtinRan_append, builtinRan_warns]
        exact ⟨by simp [ranOf], by simp [builtinRan]⟩
      have hmp : (visit st g m).modPopped = g.modPopped := by
        simp only [visit, hM, Bool.false_eq_true, if_false]
      refine ⟨?_, ?_, ?_, ?_⟩
      · rw [hlog.1]; exact List.nodup_append.mpr ⟨nd, by simp, by intro a ha b hb; simp at hb; subst hb; intro e; subst e; exact hnotran ha⟩
      · intro k hk
        rw [hlog.1] at hk
        simp only [List.mem_append, List.mem_singleton] at hk
        rcases hk with hk | rfl
        · exact ⟨fun a => (hmono k).1 ((rd k hk).1 a), fun a => (hmono k).2 ((rd k hk).2 a)⟩
        · exact hdone
      · intro k hk hbk
        rw [hmp] at hk
        exact (hmono k).2 (mb k hk hbk)
      · intro k hk
        rw [hlog.2] at hk
        simp only [List.mem_append, List.mem_singleton] at hk
        rcases hk with hk | rfl
        · exact bo k hk
        · exact hnomod
    · have hsame : visit st g m = g := by
        simp only [visit, visitLog, hM, hB, Bool.false_eq_true, if_false, List.append_nil]
      rw [hsame]; exact ⟨nd, rd, mb, bo⟩

theorem done_mono_fold (st : Static) (xs : List Mod) (g : GState) (k : Mod) (hd : Done st g k) :
    Done st (xs.foldl (visit st) g) k := by
  induction xs generalizing g with
  | nil => exact hd
  | cons x xs ih =>
    simp only [List.foldl_cons]
    apply ih
    exact ⟨fun a => (visit_mono st g x k).1 (hd.1 a), fun a => (visit_mono st g x k).2 (hd.2 a)⟩

theorem fold_visit_inv (st : Static) (names : List Mod) (g : GState) (hn : ∀ m ∈ names, g.present.contains m = true)
    (h : SInv st g) : SInv st (names.foldl (visit st) g) ∧ (names.foldl (visit st) g).present = g.present
      ∧ (names.foldl (visit st) g).cache = g.cache ∧ ∀ m ∈ names, Done st (names.foldl (visit st) g) m := by
  induction names generalizing g with
  | nil => exact ⟨h, rfl, rfl, by simp⟩
  | cons m ms ih =>
    simp only [List.foldl_cons]
    have hv := visit_inv st g m (hn m (by simp)) h
    have hp := visit_present st g m
    have := ih (visit st g m) (by intro k hk; rw [hp.1]; exact hn k (by simp [hk])) hv
    refine ⟨this.1, by rw [this.2.1, hp.1], by rw [this.2.2.1, hp.2], ?_⟩
    intro k hk
    simp only [List.mem_cons] at hk
    rcases hk with rfl | hk
    · exact done_mono_fold st ms _ k (visit_done st g k (hn k (by simp)))
    · exact this.2.2.2 k hk

theorem sinv_log_returned (st : Static) (g : GState) (h : SInv st g) : SInv st { g with log := g.log ++ [.returned] } := by
  obtain ⟨nd, rd, mb, bo⟩ := h
  have e1 : ranOf (g.log ++ [Ev.returned]) = ranOf g.log := by simp [ranOf]
  have e2 : builtinRan (g.log ++ [Ev.returned]) = builtinRan g.log := by simp [builtinRan]
  exact ⟨by simp only [e1]; exact nd, by intro m hm; simp only [e1] at hm; exact rd m hm, mb,
         by intro m hm; simp only [e2] at hm; exact bo m hm⟩

theorem addGlue_inv (st : Static) (g : GState) (h : SInv st g) : SInv st (addGlue st g) := by
  unfold addGlue
  split
  · exact sinv_log_returned st g h
  · have := fold_visit_inv st g.present g (by intro m hm; simpa using hm) h
    obtain ⟨nd, rd, mb, bo⟩ := sinv_log_returned st _ this.1
    exact ⟨nd, rd, mb, bo⟩

theorem step_inv (st : Static) (g : GState) (op : Op) (h : SInv st g) : SInv st (step st g op) := by
  cases op with
  | insert m =>
    simp only [step]
    split
    · exact h
    · obtain ⟨nd, rd, mb, bo⟩ := h; exact ⟨nd, rd, mb, bo⟩
  | remove m => obtain ⟨nd, rd, mb, bo⟩ := h; exact ⟨nd, rd, mb, bo⟩
  | extract => exact addGlue_inv st g h

theorem foldl_step_inv (st : Static) (ops : List Op) (g : GState) (h : SInv st g) : SInv st (ops.foldl (step st) g) := by
  induction ops generalizing g with
  | nil => exact h
  | cons op ops ih => exact ih _ (step_inv st g op h)

theorem init_inv (st : Static) : SInv st GState.init :=
  ⟨by simp [GState.init, ranOf], by simp [GState.init, ranOf], by simp [GState.init], by simp [GState.init, builtinRan]⟩

theorem runOps_inv (st : Static) (ops : List Op) : SInv st (runOps st ops) := foldl_step_inv st ops _ (init_inv st)

/-! ### scans during which modules vanish (after the repair of F16) -/

theorem sinv_present (st : Static) (g : GState) (p : List Mod) (h : SInv st g) : SInv st { g with present := p } := by
  obtain ⟨nd, rd, mb, bo⟩ := h; exact ⟨nd, rd, mb, bo⟩

theorem visitR_inv (st : Static) (g : GState) (m : Mod) (h : SInv st g) : SInv st (visitR st g m) := by
  unfold visitR
  split
  · rename_i hp; exact visit_inv st g m hp h
  · exact h

theorem fold_visitR_inv (st : Static) (names : List Mod) (g : GState) (h : SInv st g) : SInv st (names.foldl (visitR st) g) := by
  induction names generalizing g with
  | nil => exact h
  | cons m ms ih => exact ih _ (visitR_inv st g m h)

theorem sinv_cache (st : Static) (g : GState) (c : Nat) (h : SInv st g) : SInv st { g with cache := c } := by
  obtain ⟨nd, rd, mb, bo⟩ := h; exact ⟨nd, rd, mb, bo⟩

theorem addGlueR_inv (st : Static) (g : GState) (gone : List Mod) (h : SInv st g) : SInv st (addGlueR st g gone) := by
  unfold addGlueR
  split
  · obtain ⟨nd, rd, mb, bo⟩ := sinv_log_returned st _ (sinv_present st g (g.present.filter (fun m => !gone.contains m)) h)
    exact ⟨nd, rd, mb, bo⟩
  · have h0 := sinv_present st g (g.present.filter (fun m => !gone.contains m)) h
    have h1 := fold_visitR_inv st g.present _ h0
    obtain ⟨nd, rd, mb, bo⟩ := sinv_log_returned st _ (sinv_cache st _ _ h1)
    exact ⟨nd, rd, mb, bo⟩

theorem stepR_inv (st : Static) (g : GState) (op : OpR) (h : SInv st g) : SInv st (stepR st g op) := by
  cases op with
  | insert m => exact step_inv st g (.insert m) h
  | remove m => exact step_inv st g (.remove m) h
  | extract gone => exact addGlueR_inv st g gone h

theorem runOpsR_inv (st : Static) (ops : List OpR) : SInv st (runOpsR st ops) := by
  unfold runOpsR
  have : ∀ (g : GState), SInv st g → SInv st (ops.foldl (stepR st) g) := by
    induction ops with
    | nil => intro g h; exact h
    | cons op ops ih => intro g h; exact ih _ (stepR_inv st g op h)
  exact this _ (init_inv st)

/-- With nothing vanishing the new scan is the old one. -/
theorem fold_visitR_eq (st : Static) (names : List Mod) (g : GState) (hn : ∀ m ∈ names, g.present.contains m = true) :
    names.foldl (visitR st) g = names.foldl (visit st) g := by
  induction names generalizing g with
  | nil => rfl
  | cons m ms ih =>
    simp only [List.foldl_cons]
    have hm : visitR st g m = visit st g m := by
      have := hn m (by simp)
      unfold visitR; rw [if_pos this]
    rw [hm]
    exact ih _ (by intro k hk; rw [(visit_present st g m).1]; exact hn k (by simp [hk]))

theorem addGlueR_nil (st : Static) (g : GState) : addGlueR st g [] = addGlue st g := by
  unfold addGlueR addGlue
  split
  · have hf : g.present.filter (fun m => !([] : List Mod).contains m) = g.present := by simp
    rw [hf]
  · have hf : g.present.filter (fun m => !([] : List Mod).contains m) = g.present := by simp
    have hg : ({ g with present := g.present.filter (fun m => !([] : List Mod).contains m) } : GState) = g := by rw [hf]
    simp only [hg]
    have hall : (g.present.all fun m => g.present.contains m) = true := by simp
    rw [fold_visitR_eq st g.present g (by intro m hm; simpa using hm)]
    simp [hall]

end SS.Glue

namespace SS.Glue

/-! ### in time (histories without removals) -/

def NoRemove (ops : List Op) : Prop := ∀ op ∈ ops, ∀ m, op ≠ .remove m

/-- the first `cache` modules (insertion order) have been dealt with, and the cache never runs ahead -/
structure TInv (st : Static) (g : GState) : Prop where
  le : g.cache ≤ g.present.length
  pre : ∀ m ∈ g.present.take g.cache, Done st g m

theorem done_of_popped_mono (st : Static) (g g' : GState) (m : Mod)
    (h1 : ∀ k, k ∈ g.modPopped → k ∈ g'.modPopped) (h2 : ∀ k, k ∈ g.builtinPopped → k ∈ g'.builtinPopped)
    (hd : Done st g m) : Done st g' m := ⟨fun a => h1 m (hd.1 a), fun a => h2 m (hd.2 a)⟩

theorem addGlue_all_done (st : Static) (g : GState) (h : SInv st g) (ht : TInv st g) :
    TInv st (addGlue st g) ∧ ∀ m ∈ (addGlue st g).present, Done st (addGlue st g) m := by
  unfold addGlue
  split
  · rename_i hc
    have hc' : g.present.length = g.cache := by simpa using hc
    refine ⟨⟨ht.le, ?_⟩, ?_⟩
    · intro m hm; exact done_of_popped_mono st g _ m (fun _ a => a) (fun _ a => a) (ht.pre m hm)
    · intro m hm
      have : m ∈ g.present.take g.cache := by rw [← hc', List.take_length]; exact hm
      exact done_of_popped_mono st g _ m (fun _ a => a) (fun _ a => a) (ht.pre m this)
  · have hf := fold_visit_inv st g.present g (by intro m hm; simpa using hm) h
    refine ⟨⟨?_, ?_⟩, ?_⟩
    · simp [hf.2.1]
    · intro m hm
      simp only [hf.2.1, List.take_length] at hm
      exact done_of_popped_mono st _ _ m (fun _ a => a) (fun _ a => a) (hf.2.2.2 m hm)
    · intro m hm
      simp only [hf.2.1] at hm
      exact done_of_popped_mono st _ _ m (fun _ a => a) (fun _ a => a) (hf.2.2.2 m hm)

theorem step_tinv (st : Static) (g : GState) (op : Op) (hnr : ∀ m, op ≠ .remove m) (h : SInv st g) (ht : TInv st g) :
    TInv st (step st g op) := by
  cases op with
  | insert m =>
    simp only [step]
    split
    · exact ht
    · refine ⟨by simp; have := ht.le; omega, ?_⟩
      intro k hk
      simp only [] at hk
      rw [List.take_append_of_le_length ht.le] at hk
      exact done_of_popped_mono st g _ k (fun _ a => a) (fun _ a => a) (ht.pre k hk)
  | remove m => exact absurd rfl (hnr m)
  | extract => exact (addGlue_all_done st g h ht).1

theorem foldl_step_tinv (st : Static) (ops : List Op) (g : GState) (hnr : NoRemove ops) (h : SInv st g) (ht : TInv st g) :
    SInv st (ops.foldl (step st) g) ∧ TInv st (ops.foldl (step st) g) := by
  induction ops generalizing g with
  | nil => exact ⟨h, ht⟩
  | cons op ops ih =>
    simp only [List.foldl_cons]
    exact ih _ (fun o ho => hnr o (by simp [ho])) (step_inv st g op h) (step_tinv st g op (hnr op (by simp)) h ht)

theorem in_time_no_removal (st : Static) (ops : List Op) (hnr : NoRemove ops) :
    ∀ m ∈ (runOps st (ops ++ [.extract])).present, Done st (runOps st (ops ++ [.extract])) m := by
  unfold runOps
  rw [List.foldl_append]
  simp only [List.foldl_cons, List.foldl_nil, step]
  have h0 : TInv st GState.init := ⟨by simp [GState.init], by simp [GState.init]⟩
  have := foldl_step_tinv st ops GState.init hnr (init_inv st) h0
  exact (addGlue_all_done st _ this.1 this.2).2

/-! ### modules still being imported -/

theorem visitI_inv (st : Static) (init : List Mod) (g : GState) (m : Mod) (h : SInv st g) : SInv st (visitI st init g m) := by
  unfold visitI
  split
  · exact h
  · exact visitR_inv st g m h

theorem fold_visitI_inv (st : Static) (init names : List Mod) (g : GState) (h : SInv st g) :
    SInv st (names.foldl (visitI st init) g) := by
  induction names generalizing g with
  | nil => exact h
  | cons m ms ih => exact ih _ (visitI_inv st init g m h)

theorem addGlueI_inv (st : Static) (g : GState) (init : List Mod) (h : SInv st g) : SInv st (addGlueI st g init) := by
  unfold addGlueI
  split
  · exact sinv_log_returned st g h
  · have := fold_visitI_inv st init g.present g h
    obtain ⟨nd, rd, mb, bo⟩ := sinv_log_returned st _ this
    exact ⟨nd, rd, mb, bo⟩

/-- An initializing module is left completely alone by the scan: nothing popped, nothing run for it. -/
theorem visitI_skips (st : Static) (init : List Mod) (g : GState) (m : Mod) (hm : init.contains m = true) :
    visitI st init g m = g := by
  unfold visitI
  rw [if_pos hm]

/-! ### scans during which modules appear -/

theorem insertAll_prefix (p ms : List Mod) : ∃ t, insertAll p ms = p ++ t := by
  induction ms generalizing p with
  | nil => exact ⟨[], by simp [insertAll]⟩
  | cons m ms ih =>
    simp only [insertAll, List.foldl_cons]
    split
    · exact ih p
    · obtain ⟨t, ht⟩ := ih (p ++ [m])
      refine ⟨[m] ++ t, ?_⟩
      simp only [insertAll] at ht
      rw [ht]; simp

theorem insertAll_mem (p ms : List Mod) (m : Mod) (hm : m ∈ ms) : m ∈ insertAll p ms := by
  induction ms generalizing p with
  | nil => cases hm
  | cons x xs ih =>
    simp only [insertAll, List.foldl_cons]
    rcases List.mem_cons.mp hm with rfl | hm
    · split
      · rename_i hc
        obtain ⟨t, ht⟩ := insertAll_prefix p xs
        simp only [insertAll] at ht
        rw [ht]; exact List.mem_append_left _ (by simpa using hc)
      · obtain ⟨t, ht⟩ := insertAll_prefix (p ++ [m]) xs
        simp only [insertAll] at ht
        rw [ht]; simp
    · split
      · exact ih p hm
      · exact ih _ hm

theorem addGlueA_inv (st : Static) (g : GState) (appear : List Mod) (h : SInv st g) : SInv st (addGlueA st g appear) := by
  unfold addGlueA
  split
  · obtain ⟨nd, rd, mb, bo⟩ := sinv_log_returned st g h
    exact ⟨nd, rd, mb, bo⟩
  · have := fold_visit_inv st g.present g (by intro m hm; simpa using hm) h
    obtain ⟨nd, rd, mb, bo⟩ := sinv_log_returned st _ this.1
    exact ⟨nd, rd, mb, bo⟩

/-- The cache invariant survives a scan during which modules appear: the cache is the size of the visited snapshot, which
is a prefix of the new module list, and everything in it has been dealt with. -/
theorem addGlueA_tinv (st : Static) (g : GState) (appear : List Mod) (h : SInv st g) (ht : TInv st g) :
    TInv st (addGlueA st g appear) := by
  unfold addGlueA
  split
  · obtain ⟨t, hp⟩ := insertAll_prefix g.present appear
    refine ⟨?_, ?_⟩
    · simp only [hp, List.length_append]; have := ht.le; omega
    · intro m hm
      simp only [hp] at hm
      rw [List.take_append_of_le_length ht.le] at hm
      exact done_of_popped_mono st g _ m (fun _ a => a) (fun _ a => a) (ht.pre m hm)
  · have hf := fold_visit_inv st g.present g (by intro m hm; simpa using hm) h
    obtain ⟨t, hp⟩ := insertAll_prefix g.present appear
    refine ⟨?_, ?_⟩
    · simp only [hf.2.1, hp, List.length_append]; omega
    · intro m hm
      simp only [hf.2.1, hp] at hm
      rw [List.take_append_of_le_length (Nat.le_refl _), List.take_length] at hm
      exact done_of_popped_mono st _ _ m (fun _ a => a) (fun _ a => a) (hf.2.2.2 m hm)

end SS.Glue

namespace SS.Glue

def quiet' (st : Static) : Static := { st with modRaises := fun _ => false, builtinRaises := fun _ => false }
def dropWarns' (l : List Ev) : List Ev := l.filter (fun e => match e with | .warn _ => false | _ => true)

/-- states equal up to warnings in the log -/
def SameUpToWarns (g g' : GState) : Prop :=
  dropWarns' g.log = g'.log ∧ g.modPopped = g'.modPopped ∧ g.builtinPopped = g'.builtinPopped ∧ g.cache = g'.cache
  ∧ g.present = g'.present

theorem dropWarns_append (a b : List Ev) : dropWarns' (a ++ b) = dropWarns' a ++ dropWarns' b := by
  simp [dropWarns', List.filter_append]

theorem visit_same (st : Static) (g g' : GState) (m : Mod) (h : SameUpToWarns g g') :
    SameUpToWarns (visit st g m) (visit (quiet' st) g' m) := by
  obtain ⟨hl, hm, hb, hc, hp⟩ := h
  have e1 : modFn (quiet' st) g' m = modFn st g m := by simp [modFn, quiet', hm, hp]
  have e2 : builtinFn (quiet' st) g' m = builtinFn st g m := by simp [builtinFn, quiet', hb]
  refine ⟨?_, ?_, ?_, hc, hp⟩
  · simp only [visit, dropWarns_append, hl]
    congr 1
    simp only [visitLog]
    rw [e1, e2]
    have q1 : (quiet' st).modRaises m = false := rfl
    have q2 : (quiet' st).builtinRaises m = false := rfl
    rw [q1, q2]
    by_cases h1 : modFn st g m = true
    · simp only [h1, if_true]; cases st.modRaises m <;> simp [dropWarns']
    · simp only [h1, Bool.false_eq_true, if_false]
      by_cases h2 : builtinFn st g m = true
      · simp only [h2, if_true]; cases st.builtinRaises m <;> simp [dropWarns']
      · simp [h2, dropWarns']
  · simp only [visit, e1, hm]
  · simp only [visit, e2, hb]

theorem fold_visit_same (st : Static) (names : List Mod) (g g' : GState) (h : SameUpToWarns g g') :
    SameUpToWarns (names.foldl (visit st) g) (names.foldl (visit (quiet' st)) g') := by
  induction names generalizing g g' with
  | nil => exact h
  | cons m ms ih => simp only [List.foldl_cons]; exact ih _ _ (visit_same st g g' m h)

theorem step_same (st : Static) (g g' : GState) (op : Op) (h : SameUpToWarns g g') :
    SameUpToWarns (step st g op) (step (quiet' st) g' op) := by
  obtain ⟨hl, hm, hb, hc, hp⟩ := h
  cases op with
  | insert m =>
    simp only [step, hp]
    split
    · exact ⟨hl, hm, hb, hc, hp⟩
    · exact ⟨hl, hm, hb, hc, by simp [hp]⟩
  | remove m => exact ⟨hl, hm, hb, hc, by simp [step, hp]⟩
  | extract =>
    simp only [step, addGlue, hp, hc]
    split
    · refine ⟨?_, hm, hb, rfl, rfl⟩
      show dropWarns' (g.log ++ [Ev.returned]) = g'.log ++ [Ev.returned]
      rw [dropWarns_append, hl]; rfl
    · have := fold_visit_same st g'.present g g' ⟨hl, hm, hb, hc, hp⟩
      obtain ⟨fl, fm, fb, fc, fp⟩ := this
      refine ⟨?_, fm, fb, rfl, fp⟩
      show dropWarns' (_ ++ [Ev.returned]) = _ ++ [Ev.returned]
      rw [dropWarns_append, fl]; rfl

theorem raise_only_warns' (st : Static) (ops : List Op) (g g' : GState) (h : SameUpToWarns g g') :
    SameUpToWarns (ops.foldl (step st) g) (ops.foldl (step (quiet' st)) g') := by
  induction ops generalizing g g' with
  | nil => exact h
  | cons op ops ih => simp only [List.foldl_cons]; exact ih _ _ (step_same st g g' op h)

end SS.Glue
