import SSModel.Format
namespace SS.Format

/-- Split lines into blocks: a block is a start line followed by the continuation lines right after it. -/
def splitBlocks (isStart isCont : Line → Bool) : List Line → List (List Line)
  | [] => []
  | l :: ls =>
    if isStart l then (l :: ls.takeWhile isCont) :: splitBlocks isStart isCont ls
    else splitBlocks isStart isCont ls

/-- A well-formed block: a start line followed by continuation lines (none of which is a start line). -/
def GoodBlock (isStart isCont : Line → Bool) (b : List Line) : Prop :=
  ∃ h t, b = h :: t ∧ isStart h = true ∧ ∀ x ∈ t, isCont x = true ∧ isStart x = false

theorem takeWhile_append_of_all {α : Type} (p : α → Bool) (a b : List α) (ha : ∀ x ∈ a, p x = true) :
    (a ++ b).takeWhile p = a ++ b.takeWhile p := by
  induction a with
  | nil => rfl
  | cons x xs ih =>
    simp only [List.cons_append, List.takeWhile_cons, ha x (by simp), if_true]
    rw [ih (fun y hy => ha y (by simp [hy]))]

theorem splitBlocks_skip (isStart isCont : Line → Bool) (t rest : List Line) (ht : ∀ x ∈ t, isStart x = false) :
    splitBlocks isStart isCont (t ++ rest) = splitBlocks isStart isCont rest := by
  induction t with
  | nil => rfl
  | cons x xs ih =>
    simp only [List.cons_append, splitBlocks, ht x (by simp), Bool.false_eq_true, if_false]
    exact ih (fun y hy => ht y (by simp [hy]))

theorem takeWhile_nil_of_head {α : Type} (p : α → Bool) (l : List α) (h : ∀ x, l.head? = some x → p x = false) :
    l.takeWhile p = [] := by
  cases l with
  | nil => rfl
  | cons x xs => simp [List.takeWhile_cons, h x rfl]

/-- **block decoding**: blocks concatenated (and followed by a tail of lines that are neither start
nor — at its head — continuation lines) split back into exactly those blocks, provided a start line
is never a continuation line. -/
theorem splitBlocks_flatten (isStart isCont : Line → Bool) (blocks : List (List Line)) (tail : List Line)
    (hsc : ∀ x, isStart x = true → isCont x = false)
    (hb : ∀ b ∈ blocks, GoodBlock isStart isCont b)
    (ht : ∀ x ∈ tail, isStart x = false) (hth : ∀ x, tail.head? = some x → isCont x = false) :
    splitBlocks isStart isCont (blocks.flatten ++ tail) = blocks := by
  induction blocks with
  | nil =>
    simp only [List.flatten_nil, List.nil_append]
    have := splitBlocks_skip isStart isCont tail [] ht
    simpa [splitBlocks] using this
  | cons b bs ih =>
    obtain ⟨h, t, rfl, hh, htl⟩ := hb b (by simp)
    have ihh := ih (fun x hx => hb x (by simp [hx]))
    simp only [List.flatten_cons, List.cons_append, List.append_assoc, splitBlocks, hh, if_true]
    have hrest : (bs.flatten ++ tail).takeWhile isCont = [] := by
      apply takeWhile_nil_of_head
      intro x hx
      cases bs with
      | nil => simp only [List.flatten_nil, List.nil_append] at hx; exact hth x hx
      | cons b2 bs2 =>
        obtain ⟨h2, t2, rfl, hh2, _⟩ := hb (b2) (by simp)
        simp only [List.flatten_cons, List.cons_append, List.head?_cons, Option.some.injEq] at hx
        subst hx
        exact hsc _ hh2
    rw [takeWhile_append_of_all _ t _ (fun x hx => (htl x hx).1), hrest, List.append_nil,
        splitBlocks_skip isStart isCont t _ (fun x hx => (htl x hx).2), ihh]

/-! first-marker classifiers -/
def firstIs (m : Marker) (l : Line) : Bool := match l.markers with | x :: _ => x == m | [] => false

theorem markBlock_good (first cont : Marker) (hne : first ≠ cont) (l : Line) (ls : List Line) :
    GoodBlock (firstIs first) (firstIs cont) (markBlock first cont (l :: ls)) := by
  refine ⟨push first l, ls.map (push cont), rfl, by simp [firstIs, push], ?_⟩
  intro x hx
  rcases List.mem_map.mp hx with ⟨y, _, rfl⟩
  constructor
  · simp [firstIs, push]
  · simp only [firstIs, push, beq_eq_false_iff_ne, ne_eq]
    exact fun h => hne h.symm

end SS.Format
