import SSModel.ErrLines
namespace SS.ErrLines

theorem splitOn_ne_nil (c : Char) (l : List Char) : splitOn c l ≠ [] := by
  induction l with
  | nil => simp [splitOn]
  | cons x xs ih =>
    unfold splitOn
    split
    · simp
    · split <;> simp

theorem splitOn_cons_ne (c x : Char) (xs : List Char) (h : x ≠ c) :
    ∃ p ps, splitOn c xs = p :: ps ∧ splitOn c (x :: xs) = (x :: p) :: ps := by
  cases hs : splitOn c xs with
  | nil => exact absurd hs (splitOn_ne_nil c xs)
  | cons p ps =>
    refine ⟨p, ps, rfl, ?_⟩
    rw [splitOn]
    simp [h, hs]

theorem splitOn_cons_eq (c : Char) (xs : List Char) : splitOn c (c :: xs) = [] :: splitOn c xs := by
  rw [splitOn]; simp

/-- No piece contains the separator. -/
theorem splitOn_no_sep (c : Char) (l : List Char) : ∀ p ∈ splitOn c l, c ∉ p := by
  induction l with
  | nil => intro p hp; simp [splitOn] at hp; simp [hp]
  | cons x xs ih =>
    by_cases h : x = c
    · subst h
      rw [splitOn_cons_eq]
      intro p hp
      rcases List.mem_cons.mp hp with rfl | hp
      · simp
      · exact ih p hp
    · obtain ⟨p0, ps, h1, h2⟩ := splitOn_cons_ne c x xs h
      rw [h2]
      intro p hp
      rcases List.mem_cons.mp hp with rfl | hp
      · intro hc
        rcases List.mem_cons.mp hc with rfl | hc
        · exact h rfl
        · exact ih p0 (by rw [h1]; simp) hc
      · exact ih p (by rw [h1]; simp [hp])

/-- Splitting loses nothing: joining the pieces with the separator gives the input back. -/
theorem splitOn_join (c : Char) (l : List Char) : [c].intercalate (splitOn c l) = l := by
  induction l with
  | nil => simp [splitOn, List.intercalate]
  | cons x xs ih =>
    by_cases h : x = c
    · subst h
      rw [splitOn_cons_eq]
      cases hs : splitOn x xs with
      | nil => exact absurd hs (splitOn_ne_nil x xs)
      | cons q qs =>
        rw [hs] at ih
        simp only [List.intercalate] at ih ⊢
        simp [List.intersperse, ← ih]
    · obtain ⟨p0, ps, h1, h2⟩ := splitOn_cons_ne c x xs h
      rw [h2]
      rw [h1] at ih
      simp only [List.intercalate] at ih ⊢
      cases ps with
      | nil => simp [List.intersperse] at ih ⊢; exact ih
      | cons q qs => simp [List.intersperse] at ih ⊢; exact ih

/-- One piece more than there are separators. -/
theorem splitOn_length (c : Char) (l : List Char) : (splitOn c l).length = l.count c + 1 := by
  induction l with
  | nil => simp [splitOn]
  | cons x xs ih =>
    by_cases h : x = c
    · subst h
      rw [splitOn_cons_eq]
      simp [ih]
    · obtain ⟨p0, ps, h1, h2⟩ := splitOn_cons_ne c x xs h
      rw [h2]
      rw [h1] at ih
      have : (x == c) = false := by simp [h]
      simp [List.count_cons, this] at ih ⊢
      omega

end SS.ErrLines
