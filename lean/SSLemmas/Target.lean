import SSModel.Target
/-!
The documented grammar of `as` targets, what CPython 3.12 compiles it to (as `dis.get_instructions` shows it,
without CACHE entries), and its source text.
-/
namespace SS.Target

inductive Scope | fast | global | name | deref
  deriving DecidableEq, Repr

def loadOp : Scope → String
  | .fast => "LOAD_FAST" | .global => "LOAD_GLOBAL" | .name => "LOAD_NAME" | .deref => "LOAD_DEREF"
def storeOp : Scope → String
  | .fast => "STORE_FAST" | .global => "STORE_GLOBAL" | .name => "STORE_NAME" | .deref => "STORE_DEREF"

mutual
  /-- Load expressions that may occur inside a target. -/
  inductive Expr
    | var (sc : Scope) (s : String)
    | const (repr : String)
    | attr (e : Expr) (a : String)
    | subscr (c i : Expr)
    | call (pushNull : Bool) (f : Expr) (args : Args)   -- PUSH_NULL precedes a plain callee; not a method-style or global one
    /-- `super(c, o).a` read (3.12+: LOAD_GLOBAL super, c, o, LOAD_SUPER_ATTR with bit 1 set; bit 0 = it is being called as a method) -/
    | superAttr (meth : Bool) (c o : Expr) (a : String)
  inductive Args
    | nil
    | cons (e : Expr) (rest : Args)
end

mutual
  inductive Tgt
    | var (sc : Scope) (s : String)
    | attr (e : Expr) (a : String)
    | subscr (c i : Expr)
    | tuple (ts : Tgts)
    | starred (before : Tgts) (star : Tgt) (after : Tgts)
  inductive Tgts
    | nil
    | cons (t : Tgt) (rest : Tgts)
end

mutual
  def Args.length : Args → Nat
    | .nil => 0
    | .cons _ r => r.length + 1
end
mutual
  def Tgts.length : Tgts → Nat
    | .nil => 0
    | .cons _ r => r.length + 1
end

/-- An argument of 256 or more is emitted with an `EXTENDED_ARG` prefix. -/
def extPrefix (arg : Nat) : List Insn := if 256 ≤ arg then [{ op := "EXTENDED_ARG" }] else []

mutual
  def compileExpr : Expr → List Insn
    | .var sc s => [{ op := loadOp sc, argval := s }]
    | .const r => [{ op := "LOAD_CONST", argrepr := r }]
    | .attr e a => compileExpr e ++ [{ op := "LOAD_ATTR", argval := a }]
    | .subscr c i => compileExpr c ++ compileExpr i ++ [{ op := "BINARY_SUBSCR" }]
    | .call pn f as => (if pn then [{ op := "PUSH_NULL" }] else []) ++ compileExpr f ++ compileArgs as ++ extPrefix as.length ++ [{ op := "CALL", arg := as.length }]
    | .superAttr m c o a => [{ op := "LOAD_GLOBAL", argval := "super" }] ++ compileExpr c ++ compileExpr o
        ++ [{ op := "LOAD_SUPER_ATTR", argval := a, arg := if m then 3 else 2 }]
  def compileArgs : Args → List Insn
    | .nil => []
    | .cons e r => compileExpr e ++ compileArgs r
end

mutual
  def renderExpr : Expr → String
    | .var _ s => s
    | .const r => r
    | .attr e a => renderExpr e ++ "." ++ a
    | .subscr c i => renderExpr c ++ "[" ++ renderExpr i ++ "]"
    | .call _ f as => renderExpr f ++ "(" ++ ", ".intercalate (renderArgs as) ++ ")"
    | .superAttr _ c o a => "super" ++ "(" ++ renderExpr c ++ ", " ++ renderExpr o ++ ")." ++ a
  def renderArgs : Args → List String
    | .nil => []
    | .cons e r => renderExpr e :: renderArgs r
end

mutual
  def compileStore : Tgt → List Insn
    | .var sc s => [{ op := storeOp sc, argval := s }]
    | .attr e a => compileExpr e ++ [{ op := "STORE_ATTR", argval := a }]
    | .subscr c i => compileExpr c ++ compileExpr i ++ [{ op := "STORE_SUBSCR" }]
    | .tuple ts => extPrefix ts.length ++ [{ op := "UNPACK_SEQUENCE", arg := ts.length }] ++ compileStores ts
    | .starred b s a => extPrefix (b.length + 256 * a.length) ++ [{ op := "UNPACK_EX", arg := b.length + 256 * a.length }]
        ++ compileStores b ++ compileStore s ++ compileStores a
  def compileStores : Tgts → List Insn
    | .nil => []
    | .cons t r => compileStore t ++ compileStores r
end

mutual
  def renderTgt : Tgt → String
    | .var _ s => s
    | .attr e a => renderExpr e ++ "." ++ a
    | .subscr c i => renderExpr c ++ "[" ++ renderExpr i ++ "]"
    | .tuple ts => formatTuple (renderTgts ts)
    | .starred b s a => formatTuple (renderTgts b ++ ["*" ++ renderTgt s] ++ renderTgts a)
  def renderTgts : Tgts → List String
    | .nil => []
    | .cons t r => renderTgt t :: renderTgts r
end

-- Fuel that is certainly enough: instructions are consumed one per unit, nesting costs one more per level.
mutual
  def need : Tgt → Nat
    | .var _ _ => 1
    | .attr e _ => (compileExpr e).length + 1
    | .subscr c i => (compileExpr c).length + (compileExpr i).length + 1
    | .tuple ts => needs ts + 1 + (extPrefix ts.length).length
    | .starred b s a => max (needs b) (max (need s) (needs a)) + 1 + (extPrefix (b.length + 256 * a.length)).length
  def needs : Tgts → Nat
    | .nil => 1
    | .cons t r => max (need t) (needs r) + 1
end

-- Star-unpacking with 256 or more targets before the star is rejected by the compiler.
mutual
  def WF : Tgt → Prop
    | .var _ _ => True
    | .attr _ _ => True
    | .subscr _ _ => True
    | .tuple ts => WFs ts
    | .starred b s a => b.length < 256 ∧ WFs b ∧ WF s ∧ WFs a
  def WFs : Tgts → Prop
    | .nil => True
    | .cons t r => WF t ∧ WFs r
end

/-! ### single steps -/

theorem nt_load (f : Nat) (sc : Scope) (s : String) (rest : List Insn) (st : List String) :
    nextTarget (f + 1) ({ op := loadOp sc, argval := s } :: rest) st = nextTarget f rest (s :: st) := by
  cases sc <;> simp [nextTarget, loadOp, isNameOp, endsTarget] <;> rfl

theorem nt_const (f : Nat) (r : String) (rest : List Insn) (st : List String) :
    nextTarget (f + 1) ({ op := "LOAD_CONST", argrepr := r } :: rest) st = nextTarget f rest (r :: st) := by
  simp [nextTarget, isNameOp, isAttrOp, endsTarget]

theorem nt_attr (f : Nat) (a x : String) (rest : List Insn) (st : List String) :
    nextTarget (f + 1) ({ op := "LOAD_ATTR", argval := a } :: rest) (x :: st) = nextTarget f rest ((x ++ "." ++ a) :: st) := by
  simp [nextTarget, isNameOp, isAttrOp, endsTarget, pop, Functor.map, Except.map, bind, Except.bind, pure, Except.pure]

theorem nt_subscr (f : Nat) (i c : String) (rest : List Insn) (st : List String) :
    nextTarget (f + 1) ({ op := "BINARY_SUBSCR" } :: rest) (i :: c :: st) = nextTarget f rest ((c ++ "[" ++ i ++ "]") :: st) := by
  simp [nextTarget, isNameOp, isAttrOp, isSubscrOp, endsTarget, pop, Functor.map, Except.map, bind, Except.bind, pure, Except.pure]

theorem nt_pushnull (f : Nat) (rest : List Insn) (st : List String) :
    nextTarget (f + 1) ({ op := "PUSH_NULL" } :: rest) st = nextTarget f rest st := by
  simp [nextTarget, isNameOp, isAttrOp, isSubscrOp, isSliceOp, isCallOp, endsTarget]

theorem nt_super (f : Nat) (m : Bool) (a fn c o : String) (rest : List Insn) (st : List String) :
    nextTarget (f + 1) ({ op := "LOAD_SUPER_ATTR", argval := a, arg := if m then 3 else 2 } :: rest) (o :: c :: fn :: st)
      = nextTarget f rest ((fn ++ "(" ++ c ++ ", " ++ o ++ ")." ++ a) :: st) := by
  cases m <;>
  simp [nextTarget, isNameOp, isAttrOp, isSubscrOp, isSliceOp, isCallOp, endsTarget, pop, Functor.map, Except.map, bind, Except.bind, pure, Except.pure]

theorem nt_ext (f : Nat) (a : Nat) (rest : List Insn) (st : List String) :
    nextTarget (f + (extPrefix a).length) (extPrefix a ++ rest) st = nextTarget f rest st := by
  unfold extPrefix
  split
  · simp [nextTarget]
  · simp

theorem nt_call (f n : Nat) (args : List String) (fn : String) (rest : List Insn) (st : List String) (hn : args.length = n) :
    nextTarget (f + 1) ({ op := "CALL", arg := n } :: rest) (args.reverse ++ fn :: st)
      = nextTarget f rest ((fn ++ "(" ++ ", ".intercalate args ++ ")") :: st) := by
  have h1 : ¬ (args.length + (st.length + 1) < n) := by omega
  have h2 : (args.reverse ++ fn :: st).take n = args.reverse := by
    rw [List.take_append_of_le_length (by simp [hn])]; rw [List.take_of_length_le (by simp [hn])]
  have h3 : (args.reverse ++ fn :: st).drop n = fn :: st := by
    rw [List.drop_append_of_le_length (by simp [hn])]; rw [List.drop_of_length_le (by simp [hn])]; rfl
  simp only [nextTarget]
  simp [isNameOp, isAttrOp, isSubscrOp, isSliceOp, isCallOp, endsTarget, pop, h1, h2, h3, Functor.map, Except.map, bind, Except.bind, pure, Except.pure]

/-! ### load expressions -/

mutual
  theorem renderArgs_length : ∀ (as : Args), (renderArgs as).length = as.length
    | .nil => rfl
    | .cons _ r => by simp [renderArgs, Args.length, renderArgs_length r]
end

mutual
  /-- Running the machine over a compiled load expression pushes its source text and costs exactly one unit
  of fuel per instruction. -/
  theorem nt_expr : ∀ (e : Expr) (f : Nat) (rest : List Insn) (st : List String),
      nextTarget ((compileExpr e).length + f) (compileExpr e ++ rest) st = nextTarget f rest (renderExpr e :: st)
    | .var sc s, f, rest, st => by
      simp only [compileExpr, renderExpr, List.length_singleton, List.singleton_append]
      rw [Nat.add_comm]; exact nt_load f sc s rest st
    | .const r, f, rest, st => by
      simp only [compileExpr, renderExpr, List.length_singleton, List.singleton_append]
      rw [Nat.add_comm]; exact nt_const f r rest st
    | .attr e a, f, rest, st => by
      simp only [compileExpr, renderExpr, List.length_append, List.length_singleton, List.append_assoc, List.singleton_append]
      rw [Nat.add_assoc, nt_expr e (1 + f) _ st, Nat.add_comm 1 f]
      exact nt_attr f a _ rest st
    | .subscr c i, f, rest, st => by
      simp only [compileExpr, renderExpr, List.length_append, List.length_singleton, List.append_assoc, List.singleton_append]
      rw [Nat.add_assoc, Nat.add_assoc, nt_expr c _ _ st, nt_expr i _ _ _, Nat.add_comm 1 f]
      exact nt_subscr f _ _ rest st
    | .call pn fn as, f, rest, st => by
      cases pn with
      | true =>
        have hc : compileExpr (.call true fn as) ++ rest
            = { op := "PUSH_NULL" } :: (compileExpr fn ++ (compileArgs as ++ (extPrefix as.length ++ ({ op := "CALL", arg := as.length } :: rest)))) := by
          simp [compileExpr]
        have hl : (compileExpr (.call true fn as)).length + f
            = ((compileExpr fn).length + ((compileArgs as).length + ((f + 1) + (extPrefix as.length).length))) + 1 := by
          simp [compileExpr]; omega
        rw [hc, hl, nt_pushnull, nt_expr fn _ _ st, nt_args as _ _ _, nt_ext]
        simp only [renderExpr]
        exact nt_call f as.length (renderArgs as) (renderExpr fn) rest st (renderArgs_length as)
      | false =>
        have hc : compileExpr (.call false fn as) ++ rest
            = compileExpr fn ++ (compileArgs as ++ (extPrefix as.length ++ ({ op := "CALL", arg := as.length } :: rest))) := by
          simp [compileExpr]
        have hl : (compileExpr (.call false fn as)).length + f
            = (compileExpr fn).length + ((compileArgs as).length + ((f + 1) + (extPrefix as.length).length)) := by
          simp [compileExpr]; omega
        rw [hc, hl, nt_expr fn _ _ st, nt_args as _ _ _, nt_ext]
        simp only [renderExpr]
        exact nt_call f as.length (renderArgs as) (renderExpr fn) rest st (renderArgs_length as)
    | .superAttr m c o a, f, rest, st => by
      have hc : compileExpr (.superAttr m c o a) ++ rest
          = { op := "LOAD_GLOBAL", argval := "super" } :: (compileExpr c ++ (compileExpr o ++
              ({ op := "LOAD_SUPER_ATTR", argval := a, arg := if m then 3 else 2 } :: rest))) := by
        simp [compileExpr]
      have hl : (compileExpr (.superAttr m c o a)).length + f
          = ((compileExpr c).length + ((compileExpr o).length + (f + 1))) + 1 := by
        simp [compileExpr]; omega
      rw [hc, hl]
      have h0 := nt_load ((compileExpr c).length + ((compileExpr o).length + (f + 1))) .global "super"
        (compileExpr c ++ (compileExpr o ++ ({ op := "LOAD_SUPER_ATTR", argval := a, arg := if m then 3 else 2 } :: rest))) st
      simp only [loadOp] at h0
      rw [h0, nt_expr c _ _ _, nt_expr o _ _ _]
      simp only [renderExpr]
      exact nt_super f m a "super" (renderExpr c) (renderExpr o) rest st
  theorem nt_args : ∀ (as : Args) (f : Nat) (rest : List Insn) (st : List String),
      nextTarget ((compileArgs as).length + f) (compileArgs as ++ rest) st = nextTarget f rest ((renderArgs as).reverse ++ st)
    | .nil, f, rest, st => by simp [compileArgs, renderArgs]
    | .cons e r, f, rest, st => by
      simp only [compileArgs, renderArgs, List.length_append, List.append_assoc, List.reverse_cons]
      rw [Nat.add_assoc, nt_expr e _ _ st, nt_args r _ _ _]
      simp
end

/-! ### store targets -/

theorem nt_store_var (f : Nat) (sc : Scope) (s : String) (rest : List Insn) :
    nextTarget (f + 1) ({ op := storeOp sc, argval := s } :: rest) [] = .ok (s, rest) := by
  cases sc <;> simp [nextTarget, storeOp, isNameOp, endsTarget]

theorem nt_store_attr (f : Nat) (a x : String) (rest : List Insn) :
    nextTarget (f + 1) ({ op := "STORE_ATTR", argval := a } :: rest) [x] = .ok (x ++ "." ++ a, rest) := by
  simp [nextTarget, isNameOp, isAttrOp, endsTarget, pop, Functor.map, Except.map, bind, Except.bind, pure, Except.pure]

theorem nt_store_subscr (f : Nat) (i c : String) (rest : List Insn) :
    nextTarget (f + 1) ({ op := "STORE_SUBSCR" } :: rest) [i, c] = .ok (c ++ "[" ++ i ++ "]", rest) := by
  simp [nextTarget, isNameOp, isAttrOp, isSubscrOp, endsTarget, pop, Functor.map, Except.map, bind, Except.bind, pure, Except.pure]

theorem nt_unpack_seq (f n : Nat) (is rest : List Insn) (vals : List String)
    (h : targets f n is = .ok (vals, rest)) :
    nextTarget (f + 1) ({ op := "UNPACK_SEQUENCE", arg := n } :: is) [] = .ok (formatTuple vals, rest) := by
  simp [nextTarget, isNameOp, isAttrOp, isSubscrOp, isSliceOp, endsTarget, h, Functor.map, Except.map, bind, Except.bind, pure, Except.pure]

theorem nt_unpack_ex (f nb na : Nat) (is r1 r2 r3 : List Insn) (before after : List String) (star : String) (hb : nb < 256)
    (h1 : targets f nb is = .ok (before, r1)) (h2 : nextTarget f r1 [] = .ok (star, r2)) (h3 : targets f na r2 = .ok (after, r3)) :
    nextTarget (f + 1) ({ op := "UNPACK_EX", arg := nb + 256 * na } :: is) [] = .ok (formatTuple (before ++ ["*" ++ star] ++ after), r3) := by
  have e1 : (nb + 256 * na) % 256 = nb := by omega
  have e2 : (nb + 256 * na) / 256 = na := by omega
  simp [nextTarget, isNameOp, isAttrOp, isSubscrOp, isSliceOp, endsTarget, e1, e2, h1, h2, h3, Functor.map, Except.map, bind, Except.bind, pure, Except.pure]

mutual
  theorem compileStores_length_ : ∀ (ts : Tgts), (renderTgts ts).length = ts.length
    | .nil => rfl
    | .cons _ r => by simp [renderTgts, Tgts.length, compileStores_length_ r]
end

mutual
  /-- The machine renders every well-formed store target to its source text, consuming exactly its instructions. -/
  theorem nt_tgt : ∀ (t : Tgt) (f : Nat) (rest : List Insn), WF t → need t ≤ f →
      nextTarget f (compileStore t ++ rest) [] = .ok (renderTgt t, rest)
    | .var sc s, f, rest, _, hf => by
      obtain ⟨f', rfl⟩ : ∃ f', f = f' + 1 := ⟨f - 1, by simp [need] at hf; omega⟩
      simp only [compileStore, renderTgt, List.singleton_append]
      exact nt_store_var f' sc s rest
    | .attr e a, f, rest, _, hf => by
      simp only [need] at hf
      obtain ⟨f', rfl⟩ : ∃ f', f = (compileExpr e).length + (f' + 1) := ⟨f - (compileExpr e).length - 1, by omega⟩
      simp only [compileStore, renderTgt, List.append_assoc, List.singleton_append]
      rw [nt_expr e _ _ []]
      exact nt_store_attr f' a _ rest
    | .subscr c i, f, rest, _, hf => by
      simp only [need] at hf
      obtain ⟨f', rfl⟩ : ∃ f', f = (compileExpr c).length + ((compileExpr i).length + (f' + 1)) :=
        ⟨f - (compileExpr c).length - (compileExpr i).length - 1, by omega⟩
      simp only [compileStore, renderTgt, List.append_assoc, List.singleton_append]
      rw [nt_expr c _ _ [], nt_expr i _ _ _]
      exact nt_store_subscr f' _ _ rest
    | .tuple ts, f, rest, hw, hf => by
      simp only [need] at hf
      obtain ⟨f', rfl⟩ : ∃ f', f = (f' + 1) + (extPrefix ts.length).length :=
        ⟨f - 1 - (extPrefix ts.length).length, by omega⟩
      have hle : needs ts ≤ f' := by omega
      simp only [compileStore, renderTgt, List.append_assoc, List.singleton_append]
      rw [nt_ext]
      exact nt_unpack_seq f' ts.length _ rest _ (nt_tgts ts f' rest (by simpa [WF] using hw) hle)
    | .starred b s a, f, rest, hw, hf => by
      simp only [need] at hf
      simp only [WF] at hw
      obtain ⟨f', rfl⟩ : ∃ f', f = (f' + 1) + (extPrefix (b.length + 256 * a.length)).length :=
        ⟨f - 1 - (extPrefix (b.length + 256 * a.length)).length, by omega⟩
      simp only [compileStore, renderTgt, List.append_assoc, List.singleton_append]
      rw [nt_ext]
      have h := nt_unpack_ex f' b.length a.length _ _ _ rest _ _ _ hw.1
        (nt_tgts b f' (compileStore s ++ (compileStores a ++ rest)) hw.2.1 (by omega))
        (nt_tgt s f' (compileStores a ++ rest) hw.2.2.1 (by omega)) (nt_tgts a f' rest hw.2.2.2 (by omega))
      simp only [List.append_assoc, List.singleton_append] at h
      exact h
  theorem nt_tgts : ∀ (ts : Tgts) (f : Nat) (rest : List Insn), WFs ts → needs ts ≤ f →
      targets f ts.length (compileStores ts ++ rest) = .ok (renderTgts ts, rest)
    | .nil, f, rest, _, hf => by
      obtain ⟨f', rfl⟩ : ∃ f', f = f' + 1 := ⟨f - 1, by simp [needs] at hf; omega⟩
      simp [targets, Tgts.length, compileStores, renderTgts]
    | .cons t r, f, rest, hw, hf => by
      simp only [needs] at hf
      simp only [WFs] at hw
      obtain ⟨f', rfl⟩ : ∃ f', f = f' + 1 := ⟨f - 1, by omega⟩
      simp only [targets, Tgts.length, compileStores, renderTgts, List.append_assoc]
      rw [nt_tgt t f' _ hw.1 (by omega)]
      simp only [bind, Except.bind]
      rw [nt_tgts r f' rest hw.2 (by omega)]
      rfl
end

-- The bound used by `describeTarget` (2·|instructions| + 2) is enough.
mutual
  theorem need_le : ∀ (t : Tgt), need t ≤ 2 * (compileStore t).length
    | .var _ _ => by simp [need, compileStore]
    | .attr e _ => by simp [need, compileStore]; omega
    | .subscr c i => by simp [need, compileStore]; omega
    | .tuple ts => by have := needs_le ts; simp [need, compileStore]; omega
    | .starred b s a => by
      have := needs_le b; have := need_le s; have := needs_le a
      simp [need, compileStore]; omega
  theorem needs_le : ∀ (ts : Tgts), needs ts ≤ 2 * (compileStores ts).length + 1
    | .nil => by simp [needs, compileStores]
    | .cons t r => by
      have := need_le t; have := needs_le r
      have hpos : 0 < (compileStore t).length := by cases t <;> simp [compileStore] <;> omega
      simp [needs, compileStores]; omega
end

end SS.Target
