import SSLemmas.Format
/-! Read-back one level down: the contexts of a frame from that frame's block of lines. -/
namespace SS.Format

def Contexts.toList : Contexts → List Context
  | .nil => []
  | .cons c rest => c :: rest.toList

/-- Remove the outermost marker of a line (the inverse of `push`). -/
def pop (l : Line) : Line := { l with markers := l.markers.drop 1 }

theorem pop_push (m : Marker) (l : Line) : pop (push m l) = l := by
  cases l; rfl

theorem map_pop_markBlock (a b : Marker) (ls : List Line) : (markBlock a b ls).map pop = ls := by
  cases ls with
  | nil => rfl
  | cons l ls =>
    simp only [markBlock, List.map_cons, pop_push, List.map_map]
    congr 1
    induction ls with
    | nil => rfl
    | cons x xs ih => simp [pop_push, ih]

/-- A line continues a context's block: `continue_context` or `start_child_context`. -/
def contCtx (l : Line) : Bool := firstIs .continueContext l || firstIs .startChildContext l

theorem markContext_good (l : Line) (ls : List Line) :
    GoodBlock (firstIs .startContext) contCtx (markContext (l :: ls)) := by
  refine ⟨push .startContext l, _, rfl, by simp [firstIs, push], ?_⟩
  intro x hx
  rcases List.mem_map.mp hx with ⟨y, _, rfl⟩
  cases hm : y.markers with
  | nil => simp [hm, contCtx, firstIs, push]
  | cons m ms =>
    cases m <;> simp [hm, contCtx, firstIs, push]

/-- A line belongs to a child of a context: its outermost marker is `start_child` or `continue_child`. -/
def childLine (l : Line) : Bool := firstIs .startChild l || firstIs .continueChild l

theorem markBlock_child (ls : List Line) : ∀ l ∈ markBlock .startChild .continueChild ls, childLine l = true := by
  intro l hl
  cases ls with
  | nil => cases hl
  | cons x xs =>
    simp only [markBlock, List.mem_cons, List.mem_map] at hl
    rcases hl with rfl | ⟨y, _, rfl⟩ <;> simp [childLine, firstIs, push]

/-- Everything the `for child in self.children` loop emits carries a child marker outermost. -/
theorem fmtChildren_childLines (sc sh : Bool) : ∀ (cs : Children) (db : Bool), ∀ l ∈ fmtChildren sc sh db cs, childLine l = true
  | .nil, _ => by intro l hl; simp [fmtChildren] at hl
  | .ctx c rest, db => by
    intro l hl
    simp only [fmtChildren, List.mem_append] at hl
    rcases hl with hl | hl
    · exact markBlock_child _ l hl
    · exact fmtChildren_childLines sc sh rest _ l hl
  | .stack (.mk root frames leaf err) rest, db => by
    intro l hl
    simp only [fmtChildren, List.mem_append] at hl
    rcases hl with (hl | hl) | hl
    · split at hl
      · simp at hl; subst hl; simp [childLine, firstIs]
      · cases hl
    · exact markBlock_child _ l hl
    · exact fmtChildren_childLines sc sh rest _ l hl

end SS.Format
