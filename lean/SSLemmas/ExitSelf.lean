import SSModel.ExitSelf
namespace SS.ExitSelf

theorem lookup_cons_self (n : String) (v : Val) (rest : Locals) : lookup ((n, v) :: rest) n = some v := by
  simp [lookup, List.find?]

theorem lookup_cons_ne (n m : String) (v : Val) (rest : Locals) (h : m ≠ n) : lookup ((m, v) :: rest) n = lookup rest n := by
  have : ((m == n) = false) := by simpa using h
  simp [lookup, List.find?, this]

/-- Looking a name up in a list none of whose keys is that name finds nothing before the list ends. -/
theorem lookup_append_notin (ls rest : Locals) (n : String) (h : ∀ p ∈ ls, p.1 ≠ n) : lookup (ls ++ rest) n = lookup rest n := by
  induction ls with
  | nil => rfl
  | cons p ps ih =>
    obtain ⟨m, v⟩ := p
    have hm : m ≠ n := h (m, v) (by simp)
    rw [List.cons_append, lookup_cons_ne n m v _ hm]
    exact ih (fun q hq => h q (by simp [hq]))

end SS.ExitSelf
