import SSModel.Localsplus
namespace SS.Localsplus

def addNew (acc : List String) (x : String) : List String := if x ∈ acc then acc else acc ++ [x]

theorem dedup_eq (l : List String) : dedup l = l.foldl addNew [] := rfl

/-- Folding a duplicate-free list into an accumulator adds exactly its elements that are not there yet. -/
theorem foldl_addNew_length (ys acc : List String) (hy : ys.Nodup) :
    (ys.foldl addNew acc).length = acc.length + (ys.filter (fun c => !decide (c ∈ acc))).length := by
  induction ys generalizing acc with
  | nil => simp
  | cons y ys ih =>
    have h := List.nodup_cons.mp hy
    simp only [List.foldl_cons]
    rw [ih _ h.2]
    by_cases hc : y ∈ acc
    · have e : addNew acc y = acc := by simp [addNew, hc]
      rw [e]
      simp [List.filter_cons, hc]
    · have e : addNew acc y = acc ++ [y] := by simp [addNew, hc]
      rw [e]
      have hf : ys.filter (fun c => !decide (c ∈ acc ++ [y])) = ys.filter (fun c => !decide (c ∈ acc)) := by
        apply List.filter_congr
        intro a ha
        have hne : a ≠ y := fun e => h.1 (e ▸ ha)
        simp [hne]
      rw [hf]
      simp [List.filter_cons, hc]
      omega

theorem foldl_addNew_mem (a : String) (l acc : List String) : a ∈ l.foldl addNew acc ↔ (a ∈ acc ∨ a ∈ l) := by
  induction l generalizing acc with
  | nil => simp
  | cons z zs ih =>
    simp only [List.foldl_cons, ih, List.mem_cons]
    by_cases hc : z ∈ acc
    · have e : addNew acc z = acc := by simp [addNew, hc]
      rw [e]
      constructor
      · rintro (h | h)
        · exact Or.inl h
        · exact Or.inr (Or.inr h)
      · rintro (h | h | h)
        · exact Or.inl h
        · exact Or.inl (h ▸ hc)
        · exact Or.inr h
    · have e : addNew acc z = acc ++ [z] := by simp [addNew, hc]
      rw [e]
      simp only [List.mem_append, List.mem_singleton]
      constructor
      · rintro ((h | h) | h)
        · exact Or.inl h
        · exact Or.inr (Or.inl h)
        · exact Or.inr (Or.inr h)
      · rintro (h | h | h)
        · exact Or.inl (Or.inl h)
        · exact Or.inl (Or.inr h)
        · exact Or.inr h

theorem dedup_append_nodup (xs ys : List String) (hx : xs.Nodup) (hy : ys.Nodup) :
    (dedup (xs ++ ys)).length = xs.length + (ys.filter (fun c => !decide (c ∈ xs))).length := by
  rw [dedup_eq, List.foldl_append]
  have h1 := foldl_addNew_length xs [] hx
  have h1' : (xs.foldl addNew []).length = xs.length := by
    rw [h1]; simp
  rw [foldl_addNew_length ys _ hy, h1']
  congr 2
  apply List.filter_congr
  intro a _
  have := foldl_addNew_mem a xs []
  simp only [List.not_mem_nil, false_or] at this
  simp [this]

end SS.Localsplus
