import SSModel.Extract
/-! Helper lemmas about `SSModel/Extract.lean` (used by SSProps C05, C10, C16). -/
namespace SS.Extract

/-- No unwrap result yields more than one (non-None) item. -/
def Linear (env : Env) : Prop := ∀ i, ((env.unwrap i).children.filterMap id).length ≤ 1

theorem pushUnwrapped_length (env : Env) (xs : List (Option Item)) (o : Option Item) (d : Nat) (q : List QE) :
    (pushUnwrapped env xs o d q).length = (xs.filterMap id).length + q.length := by
  unfold pushUnwrapped
  rw [List.length_append]
  congr 1
  induction xs with
  | nil => rfl
  | cons x xs ih => cases x <;> simp [ih]

/-- What one unwrap step can do: append one node (never a raw python frame), or expand the entry. -/
def StepShape (env : Env) (s : St) (q : QE) (t : St) : Prop :=
  (∃ (e : EE) (errs : List Err), (∀ i, e.node = .item i → env.isFrame i = false) ∧
      t = { s with toElab := s.toElab ++ [e], loops := 0, errors := s.errors ++ errs })
  ∨ (∃ r : UnwrapRes, (r = .none ∨ ∃ i, q.cur = .item i ∧ r = env.unwrap i) ∧ s.loops + 1 ≤ SS.Gen.unwrapGuard ∧
      t = { s with toUnwrap := pushUnwrapped env r.children q.origin q.depth s.toUnwrap,
                   loops := s.loops + 1, errors := s.errors ++ r.iterErrs })

theorem asLeaf_shape (env : Env) (s : St) (q : QE) (errs : List Err)
    (hn : ∀ i, q.cur = .item i → env.isFrame i = false) : StepShape env s q (asLeaf s q.cur q.depth errs) :=
  Or.inl ⟨⟨q.cur, q.depth⟩, errs, hn, rfl⟩

theorem handleUnwrap_shape (env : Env) (s : St) (q : QE) (r : UnwrapRes)
    (hn : ∀ i, q.cur = .item i → env.isFrame i = false)
    (hr : r = .none ∨ ∃ i, q.cur = .item i ∧ r = env.unwrap i) :
    StepShape env s q (handleUnwrap env s q r) := by
  unfold handleUnwrap
  split
  · exact asLeaf_shape env s q _ hn
  · split
    · exact asLeaf_shape env s q _ hn
    · split
      · exact asLeaf_shape env s q _ hn
      · rename_i hg _
        exact Or.inr ⟨r, hr, by omega, rfl⟩

theorem unwrapStep_shape (env : Env) (s : St) (q : QE) : StepShape env s q (unwrapStep env s q) := by
  unfold unwrapStep
  split
  · rename_i f hq
    exact Or.inl ⟨⟨.frameObj f, q.depth⟩, [], (by intro i h; cases h), (by simp)⟩
  · rename_i i hq
    split
    · exact Or.inl ⟨⟨.frameObj ⟨i, wrapOrigin env i q.origin⟩, q.depth⟩, [], (by intro i h; cases h), (by simp)⟩
    · rename_i hf
      apply handleUnwrap_shape
      · intro j hj; rw [hq] at hj; cases hj; simpa using hf
      · exact Or.inr ⟨i, hq, rfl⟩
  · rename_i hq
    apply handleUnwrap_shape
    · intro j hj; rw [hq] at hj; cases hj
    · exact Or.inl rfl

theorem unwrapStep_out (env : Env) (s : St) (q : QE) : (unwrapStep env s q).out = s.out := by
  rcases unwrapStep_shape env s q with ⟨e, errs, _, ht⟩ | ⟨r, _, _, ht⟩ <;> rw [ht]

theorem unwrapStep_errors (env : Env) (s : St) (q : QE) : s.errors <+: (unwrapStep env s q).errors := by
  rcases unwrapStep_shape env s q with ⟨e, errs, _, ht⟩ | ⟨r, _, _, ht⟩ <;> rw [ht] <;> simp

theorem unwrapPhase_empties (env : Env) (fuel : Nat) (s s' : St) (h : unwrapPhase env fuel s = some s') :
    s'.toUnwrap = [] := by
  induction fuel generalizing s with
  | zero => simp [unwrapPhase] at h
  | succ n ih =>
    unfold unwrapPhase at h
    split at h
    · rename_i he; cases h; exact he
    · exact ih _ h

theorem unwrapPhase_out (env : Env) (fuel : Nat) (s s' : St) (h : unwrapPhase env fuel s = some s') :
    s'.out = s.out := by
  induction fuel generalizing s with
  | zero => simp [unwrapPhase] at h
  | succ n ih =>
    unfold unwrapPhase at h
    split at h
    · cases h; rfl
    · rw [ih _ h, unwrapStep_out]

theorem unwrapPhase_errors (env : Env) (fuel : Nat) (s s' : St) (h : unwrapPhase env fuel s = some s') :
    s.errors <+: s'.errors := by
  induction fuel generalizing s with
  | zero => simp [unwrapPhase] at h
  | succ n ih =>
    unfold unwrapPhase at h
    split at h
    · cases h; exact List.prefix_refl _
    · rename_i q rest hq
      have h1 := ih _ h
      have h2 := unwrapStep_errors env { s with toUnwrap := rest } q
      exact List.IsPrefix.trans h2 h1

theorem unwrapStep_nodes (env : Env) (s : St) (q : QE) :
    ∀ e ∈ (unwrapStep env s q).toElab, e ∈ s.toElab ∨ (∀ i, e.node = .item i → env.isFrame i = false) := by
  rcases unwrapStep_shape env s q with ⟨e, errs, hn, ht⟩ | ⟨r, _, _, ht⟩
  · rw [ht]
    intro e' he'
    simp at he'
    rcases he' with h | h
    · exact Or.inl h
    · subst h; exact Or.inr hn
  · rw [ht]; intro e' he'; exact Or.inl he'

theorem unwrapPhase_nodes (env : Env) (fuel : Nat) (s s' : St) (h : unwrapPhase env fuel s = some s') :
    ∀ e ∈ s'.toElab, e ∈ s.toElab ∨ (∀ i, e.node = .item i → env.isFrame i = false) := by
  induction fuel generalizing s with
  | zero => simp [unwrapPhase] at h
  | succ n ih =>
    unfold unwrapPhase at h
    split at h
    · cases h; intro e he; exact Or.inl he
    · rename_i q rest hq
      intro e he
      rcases ih _ h e he with h1 | h1
      · rcases unwrapStep_nodes env _ q e h1 with h2 | h2
        · exact Or.inl h2
        · exact Or.inr h2
      · exact Or.inr h1

/-! ### the elaborate step only appends to `out` and `errors` -/

theorem elabStep_shape (env : Env) (s : St) :
    (∃ l, elabStep env s = .inl (.done s.out l s.errors))
    ∨ (∃ s' x errs, elabStep env s = .inr s' ∧ s'.out = s.out ++ [x] ∧ s'.errors = s.errors ++ errs) := by
  unfold elabStep
  split
  · exact Or.inl ⟨_, rfl⟩
  · right
    simp only []
    split <;> split <;> first
      | exact ⟨_, _, _, rfl, rfl, by simp [List.append_assoc]; rfl⟩
      | exact ⟨_, _, _, rfl, rfl, by simp [List.append_assoc]⟩
  · exact Or.inl ⟨_, rfl⟩

theorem run_out_prefix (env : Env) (fuel : Nat) (s : St) (fs : List OutFrame) (l : Leaf) (es : List Err)
    (h : run env fuel s = .done fs l es) : s.out <+: fs := by
  induction fuel generalizing s with
  | zero => simp [run] at h
  | succ n ih =>
    unfold run at h
    split at h
    · cases h
    · rename_i s' hs'
      have ho := unwrapPhase_out env _ s s' hs'
      rcases elabStep_shape env s' with ⟨l', hl⟩ | ⟨s'', x, errs, hs'', hout, _⟩
      · rw [hl] at h; cases h; rw [ho]; exact List.prefix_refl _
      · rw [hs''] at h
        have := ih s'' h
        rw [hout, ho] at this
        exact List.IsPrefix.trans (List.prefix_append _ _) this

theorem run_errors_prefix (env : Env) (fuel : Nat) (s : St) (fs : List OutFrame) (l : Leaf) (es : List Err)
    (h : run env fuel s = .done fs l es) : s.errors <+: es := by
  induction fuel generalizing s with
  | zero => simp [run] at h
  | succ n ih =>
    unfold run at h
    split at h
    · cases h
    · rename_i s' hs'
      have he := unwrapPhase_errors env _ s s' hs'
      rcases elabStep_shape env s' with ⟨l', hl⟩ | ⟨s'', x, errs, hs'', _, herr⟩
      · rw [hl] at h; cases h; exact he
      · rw [hs''] at h
        have := ih s'' h
        rw [herr] at this
        exact List.IsPrefix.trans he (List.IsPrefix.trans (List.prefix_append _ _) this)

/-! ### termination of the unwrap phase for linear environments -/

def mu (s : St) : Nat := s.toUnwrap.length * (SS.Gen.unwrapGuard + 1) + (SS.Gen.unwrapGuard - s.loops)

theorem unwrapPhase_terminates (env : Env) (hlin : Linear env) (m : Nat) (s : St)
    (hl : s.loops ≤ SS.Gen.unwrapGuard) (hm : mu s ≤ m) :
    ∃ s', unwrapPhase env (m + 1) s = some s' := by
  induction m generalizing s with
  | zero =>
    unfold unwrapPhase
    cases hq : s.toUnwrap with
    | nil => exact ⟨s, rfl⟩
    | cons q rest =>
      exfalso
      unfold mu at hm
      rw [hq] at hm
      simp only [List.length_cons] at hm
      have : 0 < (rest.length + 1) * (SS.Gen.unwrapGuard + 1) := Nat.mul_pos (by omega) (by omega)
      omega
  | succ m ih =>
    unfold unwrapPhase
    cases hq : s.toUnwrap with
    | nil => exact ⟨s, rfl⟩
    | cons q rest =>
      simp only []
      have hmul : (rest.length + 1) * (SS.Gen.unwrapGuard + 1)
          = rest.length * (SS.Gen.unwrapGuard + 1) + (SS.Gen.unwrapGuard + 1) := by
        rw [Nat.add_mul]; simp
      unfold mu at hm
      rw [hq] at hm
      simp only [List.length_cons] at hm
      rcases unwrapStep_shape env { s with toUnwrap := rest } q with ⟨e, errs, hn, ht⟩ | ⟨r, hr, hg, ht⟩
      · rw [ht]
        apply ih
        · simp
        · unfold mu; simp only []; omega
      · rw [ht]
        apply ih
        · exact hg
        · unfold mu
          simp only []
          rw [pushUnwrapped_length]
          have hc : (r.children.filterMap id).length ≤ 1 := by
            rcases hr with h0 | ⟨i, _, hi⟩
            · subst h0; simp [UnwrapRes.children]
            · subst hi; exact hlin i
          have h2 : ((r.children.filterMap id).length + rest.length) * (SS.Gen.unwrapGuard + 1)
              ≤ (1 + rest.length) * (SS.Gen.unwrapGuard + 1) := Nat.mul_le_mul_right _ (by omega)
          have h3 : (1 + rest.length) * (SS.Gen.unwrapGuard + 1)
              = rest.length * (SS.Gen.unwrapGuard + 1) + (SS.Gen.unwrapGuard + 1) := by
            rw [Nat.add_mul]; simp; omega
          simp only [] at hg
          omega

/-! ### F9: a branching unwrap cycle never finishes -/

def f9Env : Env :=
  { isFrame := fun _ => false, unwrap := fun _ => .seq [some 0, some 0], elabFn := fun _ _ => .none, elabHide := fun _ => false,
    weakrefable := fun _ => true, genLike := fun _ => false, frameOf := fun _ => none, withContexts := false, ctxErrs := fun _ => [] }

def F9Inv (s : St) : Prop := s.toUnwrap.length ≥ s.loops + 1 ∧ ∀ q ∈ s.toUnwrap, q.cur = .item 0

theorem f9_step (s : St) (q : QE) (rest : List QE) (hq : q.cur = .item 0)
    (hlen : rest.length + 1 ≥ s.loops + 1) (hall : ∀ q ∈ rest, q.cur = .item 0) :
    F9Inv (unwrapStep f9Env { s with toUnwrap := rest } q) := by
  have hG : 1 ≤ SS.Gen.unwrapGuard := by decide
  unfold unwrapStep
  rw [hq]
  simp only [f9Env, Bool.false_eq_true, if_false]
  unfold handleUnwrap
  simp only [UnwrapRes.raised, UnwrapRes.isNone, UnwrapRes.children, UnwrapRes.iterErrs]
  split
  · unfold asLeaf F9Inv
    simp only []
    exact ⟨by omega, hall⟩
  · unfold F9Inv pushUnwrapped
    simp only [Bool.false_eq_true, if_false]
    refine ⟨by simp; omega, ?_⟩
    intro q' hq'
    simp only [List.filterMap_cons, List.filterMap_nil, Option.map_some, List.cons_append, List.nil_append,
      List.mem_cons] at hq'
    rcases hq' with h | h | h
    · rw [h]
    · rw [h]
    · exact hall q' h

theorem f9_phase_none (fuel : Nat) (s : St) (h : F9Inv s) : unwrapPhase f9Env fuel s = none := by
  induction fuel generalizing s with
  | zero => rfl
  | succ n ih =>
    unfold unwrapPhase
    cases hq : s.toUnwrap with
    | nil => exfalso; unfold F9Inv at h; rw [hq] at h; simp at h
    | cons q rest =>
      simp only []
      apply ih
      unfold F9Inv at h
      rw [hq] at h
      apply f9_step
      · exact h.2 q (by simp)
      · simpa using h.1
      · intro q' hq'; exact h.2 q' (by simp [hq'])

theorem f9_diverges (fuel : Nat) : extract f9Env fuel 0 = .outOfFuel := by
  unfold extract
  cases fuel with
  | zero => rfl
  | succ n =>
    unfold run
    rw [f9_phase_none]
    unfold F9Inv initSt
    simp

end SS.Extract
