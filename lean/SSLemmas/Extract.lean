import SSModel.Extract
/-! Helper lemmas about `SSModel/Extract.lean` (used by SSProps C05, C10, C16). -/
namespace SS.Extract

/-- No unwrap result yields more than one (non-None) item. -/
def Linear (env : Env) : Prop := ∀ i, ((env.unwrap i).children.filterMap id).length ≤ 1

theorem pushUnwrapped_length (env : Env) (xs : List (Option Item)) (o : Option Item) (d : Nat) (q : List QE) :
    (pushUnwrapped env xs o d q).length = (xs.filterMap id).length + q.length := by
  unfold pushUnwrapped
  rw [List.length_append]
  congr 1
  induction xs with
  | nil => rfl
  | cons x xs ih => cases x <;> simp [ih]

/-- What one unwrap step can do: append one node (never a raw python frame), or expand the entry. -/
def StepShape (env : Env) (s : St) (q : QE) (t : St) : Prop :=
  (∃ (e : EE) (errs : List Err), (∀ i, e.node = .item i → env.isFrame i = false) ∧
      t = { s with toElab := s.toElab ++ [e], loops := 0, errors := s.errors ++ errs })
  ∨ (∃ r : UnwrapRes, (r = .none ∨ ∃ i, q.cur = .item i ∧ r = env.unwrap i) ∧ s.loops + 1 ≤ SS.Gen.unwrapGuard ∧
      t = { s with toUnwrap := pushUnwrapped env r.children q.origin q.depth s.toUnwrap,
                   loops := s.loops + 1, errors := s.errors ++ r.iterErrs })

theorem asLeaf_shape (env : Env) (s : St) (q : QE) (errs : List Err)
    (hn : ∀ i, q.cur = .item i → env.isFrame i = false) : StepShape env s q (asLeaf s q.cur q.depth errs) :=
  Or.inl ⟨⟨q.cur, q.depth⟩, errs, hn, rfl⟩

theorem handleUnwrap_shape (env : Env) (s : St) (q : QE) (r : UnwrapRes)
    (hn : ∀ i, q.cur = .item i → env.isFrame i = false)
    (hr : r = .none ∨ ∃ i, q.cur = .item i ∧ r = env.unwrap i) :
    StepShape env s q (handleUnwrap env s q r) := by
  unfold handleUnwrap
  split
  · exact asLeaf_shape env s q _ hn
  · split
    · exact asLeaf_shape env s q _ hn
    · split
      · exact asLeaf_shape env s q _ hn
      · rename_i hg _
        exact Or.inr ⟨r, hr, by omega, rfl⟩

theorem unwrapStep_shape (env : Env) (s : St) (q : QE) : StepShape env s q (unwrapStep env s q) := by
  unfold unwrapStep
  split
  · rename_i f hq
    exact Or.inl ⟨⟨.frameObj f, q.depth⟩, [], (by intro i h; cases h), (by simp)⟩
  · rename_i i hq
    split
    · exact Or.inl ⟨⟨.frameObj ⟨i, wrapOrigin env i q.origin⟩, q.depth⟩, [], (by intro i h; cases h), (by simp)⟩
    · rename_i hf
      apply handleUnwrap_shape
      · intro j hj; rw [hq] at hj; cases hj; simpa using hf
      · exact Or.inr ⟨i, hq, rfl⟩
  · rename_i hq
    apply handleUnwrap_shape
    · intro j hj; rw [hq] at hj; cases hj
    · exact Or.inl rfl

theorem unwrapStep_out (env : Env) (s : St) (q : QE) : (unwrapStep env s q).out = s.out := by
  rcases unwrapStep_shape env s q with ⟨e, errs, _, ht⟩ | ⟨r, _, _, ht⟩ <;> rw [ht]

theorem unwrapStep_errors (env : Env) (s : St) (q : QE) : s.errors <+: (unwrapStep env s q).errors := by
  rcases unwrapStep_shape env s q with ⟨e, errs, _, ht⟩ | ⟨r, _, _, ht⟩ <;> rw [ht] <;> simp

theorem unwrapPhase_empties (env : Env) (fuel : Nat) (s s' : St) (h : unwrapPhase env fuel s = some s') :
    s'.toUnwrap = [] := by
  induction fuel generalizing s with
  | zero => simp [unwrapPhase] at h
  | succ n ih =>
    unfold unwrapPhase at h
    split at h
    · rename_i he; cases h; exact he
    · exact ih _ h

theorem unwrapPhase_out (env : Env) (fuel : Nat) (s s' : St) (h : unwrapPhase env fuel s = some s') :
    s'.out = s.out := by
  induction fuel generalizing s with
  | zero => simp [unwrapPhase] at h
  | succ n ih =>
    unfold unwrapPhase at h
    split at h
    · cases h; rfl
    · rw [ih _ h, unwrapStep_out]

theorem unwrapPhase_errors (env : Env) (fuel : Nat) (s s' : St) (h : unwrapPhase env fuel s = some s') :
    s.errors <+: s'.errors := by
  induction fuel generalizing s with
  | zero => simp [unwrapPhase] at h
  | succ n ih =>
    unfold unwrapPhase at h
    split at h
    · cases h; exact List.prefix_refl _
    · rename_i q rest hq
      have h1 := ih _ h
      have h2 := unwrapStep_errors env { s with toUnwrap := rest } q
      exact List.IsPrefix.trans h2 h1

theorem unwrapStep_nodes (env : Env) (s : St) (q : QE) :
    ∀ e ∈ (unwrapStep env s q).toElab, e ∈ s.toElab ∨ (∀ i, e.node = .item i → env.isFrame i = false) := by
  rcases unwrapStep_shape env s q with ⟨e, errs, hn, ht⟩ | ⟨r, _, _, ht⟩
  · rw [ht]
    intro e' he'
    simp at he'
    rcases he' with h | h
    · exact Or.inl h
    · subst h; exact Or.inr hn
  · rw [ht]; intro e' he'; exact Or.inl he'

theorem unwrapPhase_nodes (env : Env) (fuel : Nat) (s s' : St) (h : unwrapPhase env fuel s = some s') :
    ∀ e ∈ s'.toElab, e ∈ s.toElab ∨ (∀ i, e.node = .item i → env.isFrame i = false) := by
  induction fuel generalizing s with
  | zero => simp [unwrapPhase] at h
  | succ n ih =>
    unfold unwrapPhase at h
    split at h
    · cases h; intro e he; exact Or.inl he
    · rename_i q rest hq
      intro e he
      rcases ih _ h e he with h1 | h1
      · rcases unwrapStep_nodes env _ q e h1 with h2 | h2
        · exact Or.inl h2
        · exact Or.inr h2
      · exact Or.inr h1

/-! ### the elaborate step only appends to `out` and `errors` -/

theorem elabStep_shape (env : Env) (s : St) :
    (∃ l, elabStep env s = .inl (.done s.out l s.errors))
    ∨ (∃ s' x errs, elabStep env s = .inr s' ∧ s'.out = s.out ++ [x] ∧ s'.errors = s.errors ++ errs) := by
  unfold elabStep
  split
  · exact Or.inl ⟨_, rfl⟩
  · right
    simp only []
    split
    · exact ⟨_, _, _, rfl, rfl, by simp only [List.append_assoc]; rfl⟩
    · exact ⟨_, _, _, rfl, rfl, by simp only [List.append_assoc]; rfl⟩
  · exact Or.inl ⟨_, rfl⟩

theorem run_out_prefix (env : Env) (fuel : Nat) (s : St) (fs : List OutFrame) (l : Leaf) (es : List Err)
    (h : run env fuel s = .done fs l es) : s.out <+: fs := by
  induction fuel generalizing s with
  | zero => simp [run] at h
  | succ n ih =>
    unfold run at h
    split at h
    · cases h
    · rename_i s' hs'
      have ho := unwrapPhase_out env _ s s' hs'
      rcases elabStep_shape env s' with ⟨l', hl⟩ | ⟨s'', x, errs, hs'', hout, _⟩
      · rw [hl] at h; cases h; rw [ho]; exact List.prefix_refl _
      · rw [hs''] at h
        have := ih s'' h
        rw [hout, ho] at this
        exact List.IsPrefix.trans (List.prefix_append _ _) this

theorem run_errors_prefix (env : Env) (fuel : Nat) (s : St) (fs : List OutFrame) (l : Leaf) (es : List Err)
    (h : run env fuel s = .done fs l es) : s.errors <+: es := by
  induction fuel generalizing s with
  | zero => simp [run] at h
  | succ n ih =>
    unfold run at h
    split at h
    · cases h
    · rename_i s' hs'
      have he := unwrapPhase_errors env _ s s' hs'
      rcases elabStep_shape env s' with ⟨l', hl⟩ | ⟨s'', x, errs, hs'', _, herr⟩
      · rw [hl] at h; cases h; exact he
      · rw [hs''] at h
        have := ih s'' h
        rw [herr] at this
        exact List.IsPrefix.trans he (List.IsPrefix.trans (List.prefix_append _ _) this)

/-! ### termination of the unwrap phase for linear environments -/

def mu (s : St) : Nat := s.toUnwrap.length * (SS.Gen.unwrapGuard + 1) + (SS.Gen.unwrapGuard - s.loops)

theorem unwrapPhase_terminates (env : Env) (hlin : Linear env) (m : Nat) (s : St)
    (hl : s.loops ≤ SS.Gen.unwrapGuard) (hm : mu s ≤ m) :
    ∃ s', unwrapPhase env (m + 1) s = some s' := by
  induction m generalizing s with
  | zero =>
    unfold unwrapPhase
    cases hq : s.toUnwrap with
    | nil => exact ⟨s, rfl⟩
    | cons q rest =>
      exfalso
      unfold mu at hm
      rw [hq] at hm
      simp only [List.length_cons] at hm
      have : 0 < (rest.length + 1) * (SS.Gen.unwrapGuard + 1) := Nat.mul_pos (by omega) (by omega)
      omega
  | succ m ih =>
    unfold unwrapPhase
    cases hq : s.toUnwrap with
    | nil => exact ⟨s, rfl⟩
    | cons q rest =>
      simp only []
      have hmul : (rest.length + 1) * (SS.Gen.unwrapGuard + 1)
          = rest.length * (SS.Gen.unwrapGuard + 1) + (SS.Gen.unwrapGuard + 1) := by
        rw [Nat.add_mul]; simp
      unfold mu at hm
      rw [hq] at hm
      simp only [List.length_cons] at hm
      rcases unwrapStep_shape env { s with toUnwrap := rest } q with ⟨e, errs, hn, ht⟩ | ⟨r, hr, hg, ht⟩
      · rw [ht]
        apply ih
        · simp
        · unfold mu; simp only []; omega
      · rw [ht]
        apply ih
        · exact hg
        · unfold mu
          simp only []
          rw [pushUnwrapped_length]
          have hc : (r.children.filterMap id).length ≤ 1 := by
            rcases hr with h0 | ⟨i, _, hi⟩
            · subst h0; simp [UnwrapRes.children]
            · subst hi; exact hlin i
          have h2 : ((r.children.filterMap id).length + rest.length) * (SS.Gen.unwrapGuard + 1)
              ≤ (1 + rest.length) * (SS.Gen.unwrapGuard + 1) := Nat.mul_le_mul_right _ (by omega)
          have h3 : (1 + rest.length) * (SS.Gen.unwrapGuard + 1)
              = rest.length * (SS.Gen.unwrapGuard + 1) + (SS.Gen.unwrapGuard + 1) := by
            rw [Nat.add_mul]; simp; omega
          simp only [] at hg
          omega

/-! ### F9: a branching unwrap cycle never finishes -/

def f9Env : Env :=
  { isFrame := fun _ => false, unwrap := fun _ => .seq [some 0, some 0], elabFn := fun _ _ => .none, elabHide := fun _ => false,
    weakrefable := fun _ => true, genLike := fun _ => false, frameOf := fun _ => none, withContexts := false, ctxErrs := fun _ => [] }

def F9Inv (s : St) : Prop := s.toUnwrap.length ≥ s.loops + 1 ∧ ∀ q ∈ s.toUnwrap, q.cur = .item 0

theorem f9_step (s : St) (q : QE) (rest : List QE) (hq : q.cur = .item 0)
    (hlen : rest.length + 1 ≥ s.loops + 1) (hall : ∀ q ∈ rest, q.cur = .item 0) :
    F9Inv (unwrapStep f9Env { s with toUnwrap := rest } q) := by
  have hG : 1 ≤ SS.Gen.unwrapGuard := by decide
  unfold unwrapStep
  rw [hq]
  simp only [f9Env, Bool.false_eq_true, if_false]
  unfold handleUnwrap
  simp only [UnwrapRes.raised, UnwrapRes.isNone, UnwrapRes.children, UnwrapRes.iterErrs]
  split
  · unfold asLeaf F9Inv
    simp only []
    exact ⟨by omega, hall⟩
  · unfold F9Inv pushUnwrapped
    simp only [Bool.false_eq_true, if_false]
    refine ⟨by simp; omega, ?_⟩
    intro q' hq'
    simp only [List.filterMap_cons, List.filterMap_nil, Option.map_some, List.cons_append, List.nil_append,
      List.mem_cons] at hq'
    rcases hq' with h | h | h
    · rw [h]
    · rw [h]
    · exact hall q' h

theorem f9_phase_none (fuel : Nat) (s : St) (h : F9Inv s) : unwrapPhase f9Env fuel s = none := by
  induction fuel generalizing s with
  | zero => rfl
  | succ n ih =>
    unfold unwrapPhase
    cases hq : s.toUnwrap with
    | nil => exfalso; unfold F9Inv at h; rw [hq] at h; simp at h
    | cons q rest =>
      simp only []
      apply ih
      unfold F9Inv at h
      rw [hq] at h
      apply f9_step
      · exact h.2 q (by simp)
      · simpa using h.1
      · intro q' hq'; exact h.2 q' (by simp [hq'])

theorem f9_diverges (fuel : Nat) : extract f9Env fuel 0 = .outOfFuel := by
  unfold extract
  cases fuel with
  | zero => rfl
  | succ n =>
    unfold run
    rw [f9_phase_none]
    unfold F9Inv initSt
    simp

end SS.Extract

namespace SS.Extract

/-! ### origin invariant (C16) -/

/-- A frame's recorded origin, if any, is a generator-like object whose own frame is this frame. -/
def FrameOK (env : Env) (f : FrameRec) : Prop :=
  ∀ o, f.origin = some o → env.genLike o = true ∧ env.frameOf o = some f.pyframe

def ObjOK (env : Env) : Obj → Prop
  | .frameObj f => FrameOK env f
  | _ => True

structure StOK (env : Env) (s : St) : Prop where
  uw : ∀ q ∈ s.toUnwrap, ObjOK env q.cur
  el : ∀ e ∈ s.toElab, ObjOK env e.node
  out : ∀ f ∈ s.out, FrameOK env f.frame

theorem wrapOrigin_ok (env : Env) (i : Item) (o : Option Item) : FrameOK env ⟨i, wrapOrigin env i o⟩ := by
  intro o' h
  cases o with
  | none => simp [wrapOrigin] at h
  | some x =>
    simp only [wrapOrigin] at h
    split at h
    · rename_i hc
      cases h
      simp only [Bool.and_eq_true, beq_iff_eq] at hc
      exact hc
    · cases h

theorem pushUnwrapped_ok (env : Env) (xs : List (Option Item)) (o : Option Item) (d : Nat) (q : List QE)
    (h : ∀ e ∈ q, ObjOK env e.cur) : ∀ e ∈ pushUnwrapped env xs o d q, ObjOK env e.cur := by
  intro e he
  unfold pushUnwrapped at he
  rcases List.mem_append.mp he with h1 | h1
  · rcases List.mem_filterMap.mp h1 with ⟨x, _, hx⟩
    cases x with
    | none => simp at hx
    | some i => simp at hx; subst hx; trivial
  · exact h e h1

theorem asLeaf_ok (env : Env) (s : St) (q : QE) (errs : List Err) (hq : ObjOK env q.cur) (hs : StOK env s) :
    StOK env (asLeaf s q.cur q.depth errs) := by
  refine ⟨hs.uw, ?_, hs.out⟩
  intro e he
  simp [asLeaf] at he
  rcases he with h | h
  · exact hs.el e h
  · subst h; exact hq

theorem handleUnwrap_ok (env : Env) (s : St) (q : QE) (r : UnwrapRes) (hq : ObjOK env q.cur) (hs : StOK env s) :
    StOK env (handleUnwrap env s q r) := by
  unfold handleUnwrap
  split
  · exact asLeaf_ok env s q _ hq hs
  · split
    · exact asLeaf_ok env s q _ hq hs
    · split
      · exact asLeaf_ok env s q _ hq hs
      · exact ⟨pushUnwrapped_ok env _ _ _ _ hs.uw, hs.el, hs.out⟩

theorem unwrapStep_ok (env : Env) (s : St) (q : QE) (hq : ObjOK env q.cur) (hs : StOK env s) :
    StOK env (unwrapStep env s q) := by
  unfold unwrapStep
  split
  · rename_i f hf
    refine ⟨hs.uw, ?_, hs.out⟩
    intro e he
    simp at he
    rcases he with h | h
    · exact hs.el e h
    · subst h; rw [hf] at hq; exact hq
  · rename_i i hi
    split
    · refine ⟨hs.uw, ?_, hs.out⟩
      intro e he
      simp at he
      rcases he with h | h
      · exact hs.el e h
      · subst h; exact wrapOrigin_ok env i q.origin
    · exact handleUnwrap_ok env s q _ hq hs
  · exact handleUnwrap_ok env s q _ hq hs

theorem unwrapPhase_ok (env : Env) (fuel : Nat) (s s' : St) (h : unwrapPhase env fuel s = some s') (hs : StOK env s) :
    StOK env s' := by
  induction fuel generalizing s with
  | zero => simp [unwrapPhase] at h
  | succ n ih =>
    unfold unwrapPhase at h
    split at h
    · cases h; exact hs
    · rename_i q rest hq
      apply ih _ h
      apply unwrapStep_ok
      · exact hs.uw q (by rw [hq]; simp)
      · exact ⟨fun e he => hs.uw e (by rw [hq]; simp [he]), hs.el, hs.out⟩

theorem resolveElem_ok (env : Env) (next : Obj) (hn : ObjOK env next) (e : Elem) : ObjOK env (resolveElem next e) := by
  cases e with
  | item i => trivial
  | none => trivial
  | next => exact hn

theorem elabOutcome_ok (env : Env) (f : FrameRec) (next : Obj) (hn : ObjOK env next) (r : ElabRes) (items : List Obj)
    (h : (elabOutcome env f next r).1 = some items) : ∀ o ∈ items, ObjOK env o := by
  unfold elabOutcome at h
  split at h
  · cases h
  · split at h
    · cases h
    · simp only [Option.some.injEq] at h; subst h
      intro o ho; simp at ho; subst ho; exact resolveElem_ok env next hn _
  · simp only [Option.some.injEq] at h; subst h
    intro o ho
    rcases List.mem_map.mp ho with ⟨e, _, rfl⟩
    exact resolveElem_ok env next hn e
  · simp only [Option.some.injEq] at h; subst h
    intro o ho; simp at ho

theorem backOf_ok (env : Env) (rest : List EE) (h : ∀ e ∈ rest, ObjOK env e.node) : ∀ q ∈ backOf rest, ObjOK env q.cur := by
  intro q hq
  rcases List.mem_map.mp hq with ⟨e, he, rfl⟩
  exact h e he

theorem requeue_ok (env : Env) (d : Nat) (next : Obj) (items : List Obj) (rest : List EE)
    (hi : ∀ o ∈ items, ObjOK env o) (hr : ∀ e ∈ rest, ObjOK env e.node) :
    ∀ q ∈ requeue env d next items rest, ObjOK env q.cur := by
  intro q hq
  unfold requeue at hq
  split at hq
  · rcases List.mem_append.mp hq with h | h
    · rcases List.mem_map.mp h with ⟨o, ho, rfl⟩; exact hi o ho
    · exact backOf_ok env rest hr q ((List.dropWhile_sublist _).subset h)
  · rcases List.mem_append.mp hq with h | h
    · rcases List.mem_map.mp h with ⟨o, ho, rfl⟩; exact hi o (List.dropLast_subset _ ho)
    · -- capHead only changes a depth
      cases hb : backOf rest with
      | nil => rw [hb] at h; cases h
      | cons x xs =>
        rw [hb] at h
        simp only [capHead, List.mem_cons] at h
        rcases h with rfl | h
        · exact backOf_ok env rest hr x (by rw [hb]; simp)
        · exact backOf_ok env rest hr q (by rw [hb]; simp [h])

theorem elabStep_ok (env : Env) (s s' : St) (h : elabStep env s = .inr s') (hs : StOK env s) : StOK env s' := by
  unfold elabStep at h
  split at h
  · cases h
  · rename_i f d rest hE
    have hf : FrameOK env f := hs.el ⟨.frameObj f, d⟩ (by rw [hE]; simp)
    have hrest : ∀ e ∈ rest, ObjOK env e.node := fun e he => hs.el e (by rw [hE]; simp [he])
    have hnext : ObjOK env (nextObj rest.head?) := by
      cases rest with
      | nil => simp [nextObj, ObjOK]
      | cons x xs => simp [nextObj]; exact hrest x (by simp)
    have hout : ∀ hide, ∀ g ∈ s.out ++ [(⟨f, hide⟩ : OutFrame)], FrameOK env g.frame := by
      intro hide g hg
      simp at hg
      rcases hg with h1 | h1
      · exact hs.out g h1
      · subst h1; exact hf
    simp only [] at h
    split at h
    · simp only [Sum.inr.injEq] at h; subst h
      exact ⟨hs.uw, hrest, hout _⟩
    · rename_i items hit
      simp only [Sum.inr.injEq] at h; subst h
      exact ⟨requeue_ok env d _ items rest (elabOutcome_ok env f _ hnext _ items hit) hrest, by simp, hout _⟩
  · cases h

theorem run_ok (env : Env) (fuel : Nat) (s : St) (fs : List OutFrame) (l : Leaf) (es : List Err)
    (h : run env fuel s = .done fs l es) (hs : StOK env s) : ∀ f ∈ fs, FrameOK env f.frame := by
  induction fuel generalizing s with
  | zero => simp [run] at h
  | succ n ih =>
    unfold run at h
    split at h
    · cases h
    · rename_i s' hs'
      have hok := unwrapPhase_ok env _ s s' hs' hs
      cases hE : elabStep env s' with
      | inl o =>
        rw [hE] at h
        rcases elabStep_shape env s' with ⟨l', hl⟩ | ⟨s'', x, errs, hs'', _, _⟩
        · rw [hl] at hE; cases hE; cases h; exact hok.out
        · rw [hs''] at hE; cases hE
      | inr s'' =>
        rw [hE] at h
        exact ih s'' h (elabStep_ok env s' s'' hE hok)

end SS.Extract

namespace SS.Extract

theorem unwrapStep_toElab_prefix (env : Env) (s : St) (q : QE) : s.toElab <+: (unwrapStep env s q).toElab := by
  rcases unwrapStep_shape env s q with ⟨e, errs, _, ht⟩ | ⟨r, _, _, ht⟩ <;> rw [ht] <;> simp

theorem unwrapPhase_toElab_prefix (env : Env) (fuel : Nat) (s s' : St) (h : unwrapPhase env fuel s = some s') :
    s.toElab <+: s'.toElab := by
  induction fuel generalizing s with
  | zero => simp [unwrapPhase] at h
  | succ n ih =>
    unfold unwrapPhase at h
    split at h
    · cases h; exact List.prefix_refl _
    · rename_i q rest hq
      exact List.IsPrefix.trans (unwrapStep_toElab_prefix env { s with toUnwrap := rest } q) (ih _ h)

theorem origin_roundtrip (env : Env) (fuel : Nat) (o f : Item) (rest : List (Option Item))
    (ho : env.isFrame o = false) (hw : env.weakrefable o = true) (hg : env.genLike o = true)
    (hfo : env.frameOf o = some f) (hf : env.isFrame f = true) (hfg : env.genLike f = false)
    (hu : env.unwrap o = .seq (some f :: rest)) (hG : 1 ≤ SS.Gen.unwrapGuard)
    (fs : List OutFrame) (l : Leaf) (es : List Err) (h : extract env fuel o = .done fs l es) :
    ∃ hide tl, fs = ⟨⟨f, some o⟩, hide⟩ :: tl := by
  unfold extract at h
  cases fuel with
  | zero => simp [run] at h
  | succ n =>
    unfold run at h
    cases hp : unwrapPhase env (n+1) (initSt env o) with
    | none => rw [hp] at h; cases h
    | some s' =>
      rw [hp] at h
      simp only [] at h
      -- first two unwrap steps are determined
      have hbo : betterOrigin env (.item o) none = some o := by simp [betterOrigin, hw, hg]
      have hbf : betterOrigin env (.item f) (some o) = some o := by
        simp only [betterOrigin]
        by_cases hwf : env.weakrefable f = true
        · simp [hwf, hfg, hg]
        · simp [hwf]
      have hng : ¬ (0 + 1 > SS.Gen.unwrapGuard) := by omega
      cases n with
      | zero =>
        simp [unwrapPhase, initSt, unwrapStep, ho, hu, handleUnwrap, UnwrapRes.raised, UnwrapRes.isNone, hng] at hp
      | succ m =>
        have hstep : ∃ s1, unwrapPhase env (m+1+1) (initSt env o) = unwrapPhase env m s1
            ∧ s1.toElab = [⟨.frameObj ⟨f, some o⟩, 1⟩] ∧ s1.out = [] := by
          refine ⟨(⟨pushUnwrapped env rest (some o) 0 [], [⟨.frameObj ⟨f, wrapOrigin env f (some o)⟩, 1⟩], 0, [], []⟩ : St),
            ?_, ?_, rfl⟩
          · have e1 : unwrapStep env (⟨[], [], 0, [], []⟩ : St) (⟨some o, .item o, 0⟩ : QE)
                = (⟨(⟨some o, .item f, 1⟩ : QE) :: pushUnwrapped env rest (some o) 0 [], [], 1, [], []⟩ : St) := by
              simp [unwrapStep, ho, hu, handleUnwrap, UnwrapRes.raised, UnwrapRes.isNone, UnwrapRes.children,
                UnwrapRes.iterErrs, hng, pushUnwrapped, hbf]
            have e2 : unwrapStep env (⟨pushUnwrapped env rest (some o) 0 [], [], 1, [], []⟩ : St) (⟨some o, .item f, 1⟩ : QE)
                = (⟨pushUnwrapped env rest (some o) 0 [], [⟨.frameObj ⟨f, wrapOrigin env f (some o)⟩, 1⟩], 0, [], []⟩ : St) := by
              simp [unwrapStep, hf]
            simp only [unwrapPhase, initSt, hbo]
            rw [e1]
            simp only []
            rw [e2]
          · simp [wrapOrigin, hg, hfo]
        obtain ⟨s1, h1, h1e, h1o⟩ := hstep
        rw [h1] at hp
        have hpre := unwrapPhase_toElab_prefix env m s1 s' hp
        have hout := unwrapPhase_out env m s1 s' hp
        rw [h1e] at hpre
        obtain ⟨t, ht⟩ := hpre
        have hE : s'.toElab = ⟨.frameObj ⟨f, some o⟩, 1⟩ :: t := by rw [← ht]; rfl
        rcases elabStep_shape env s' with ⟨l', hl⟩ | ⟨s'', x, errs, hs'', hx, _⟩
        · exfalso
          unfold elabStep at hl
          rw [hE] at hl
          simp only [] at hl
          split at hl <;> cases hl
        · rw [hs''] at h
          have hpre2 := run_out_prefix env _ s'' fs l es h
          have hxv : ∃ hide, x = ⟨⟨f, some o⟩, hide⟩ := by
            unfold elabStep at hs''
            rw [hE] at hs''
            simp only [] at hs''
            split at hs'' <;> (simp only [Sum.inr.injEq] at hs''; subst hs''; simp at hx; exact ⟨_, hx.symm⟩)
          obtain ⟨hide, hxe⟩ := hxv
          rw [hx, hout, h1o, hxe] at hpre2
          obtain ⟨tl, htl⟩ := hpre2
          exact ⟨hide, tl, by simpa using htl.symm⟩

end SS.Extract
