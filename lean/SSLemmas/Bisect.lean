import SSModel.Bisect
/-!
`bisect.bisect_left` as the standard library implements it (binary search), over an index predicate
`p i` = "`a[i] < x`", and its specification on inputs where `p` holds on a prefix only (a sorted list).
-/
namespace SS.Bisect

/-- `p` is true on a prefix of `[0, n)` and false after it. -/
def Prefix (p : Nat → Bool) (n : Nat) : Prop := ∀ i j, i ≤ j → j < n → p j = true → p i = true

theorem bs_spec (p : Nat → Bool) (n : Nat) (hp : Prefix p n) : ∀ (f lo hi : Nat), hi - lo ≤ f → lo ≤ hi → hi ≤ n →
    (∀ i, i < lo → p i = true) → (∀ i, hi ≤ i → i < n → p i = false) →
    (∀ i, i < bs p f lo hi → p i = true) ∧ (∀ i, bs p f lo hi ≤ i → i < n → p i = false) ∧ bs p f lo hi ≤ n := by
  intro f
  induction f with
  | zero =>
    intro lo hi hf hle hn hlo hhi
    have : lo = hi := by omega
    subst this
    exact ⟨hlo, hhi, hn⟩
  | succ f ih =>
    intro lo hi hf hle hn hlo hhi
    simp only [bs]
    by_cases hlt : lo < hi
    · simp only [hlt, if_true]
      have hmid1 : lo ≤ (lo + hi) / 2 := by omega
      have hmid2 : (lo + hi) / 2 < hi := by omega
      by_cases hpm : p ((lo + hi) / 2) = true
      · simp only [hpm, if_true]
        apply ih (((lo + hi) / 2) + 1) hi (by omega) (by omega) hn
        · intro i hi'
          exact hp i ((lo + hi) / 2) (by omega) (by omega) hpm
        · exact hhi
      · have hpf : p ((lo + hi) / 2) = false := by simpa using hpm
        simp only [hpf, Bool.false_eq_true, if_false]
        apply ih lo ((lo + hi) / 2) (by omega) hmid1 (by omega) hlo
        intro i h1 h2
        cases hpi : p i with
        | false => rfl
        | true =>
          have := hp ((lo + hi) / 2) i h1 h2 hpi
          rw [hpf] at this; cases this
    · simp only [hlt, if_false]
      have : lo = hi := by omega
      subst this
      exact ⟨hlo, hhi, hn⟩

/-- On a list: the binary search returns the length of the longest prefix on which `q` holds. -/
theorem takeWhile_length_eq {α : Type} (q : α → Bool) : ∀ (l : List α) (k : Nat), k ≤ l.length →
    (∀ i (h : i < l.length), i < k → q l[i] = true) → (∀ (h : k < l.length), q l[k] = false) →
    (l.takeWhile q).length = k := by
  intro l
  induction l with
  | nil => intro k hk _ _; simp at hk; simp [hk]
  | cons a as ih =>
    intro k hk h1 h2
    cases k with
    | zero =>
      have := h2 (by simp)
      simp at this
      simp [List.takeWhile_cons, this]
    | succ k =>
      have ha : q a = true := by have := h1 0 (by simp) (by omega); simpa using this
      simp only [List.takeWhile_cons, ha, if_true, List.length_cons]
      congr 1
      apply ih k (by simpa using hk)
      · intro i hi hik
        have := h1 (i + 1) (by simpa using hi) (by omega)
        simpa using this
      · intro hk'
        have := h2 (by simpa using hk')
        simpa using this

end SS.Bisect
