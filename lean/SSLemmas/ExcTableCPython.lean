import SSLemmas.ExcTable
/-!
CPython's assembler (`assemble_emit_exception_table_item`, Python/assemble.c) writes a value below 2^30 with up to
five explicit cases.  It is the generic big-endian base-64 encoder of the model.
(`value >> k` and `& 0x3f` are written `/ 2^k` and `% 64`; `| 64` on a 6-bit value is `+ 64`.)
-/
namespace SS.ExcTable

def cpEnc (v : Nat) : List Nat :=
  (if v ≥ 2 ^ 24 then [v / 2 ^ 24 + 64] else []) ++
  (if v ≥ 2 ^ 18 then [v / 2 ^ 18 % 64 + 64] else []) ++
  (if v ≥ 2 ^ 12 then [v / 2 ^ 12 % 64 + 64] else []) ++
  (if v ≥ 2 ^ 6 then [v / 2 ^ 6 % 64 + 64] else []) ++
  [v % 64]

theorem encGo_small (n : Nat) (tail : List Nat) (h : n < 64) : encGo n tail = (n + 64) :: tail := by
  rw [encGo]; simp [h]

theorem encGo_big (n : Nat) (tail : List Nat) (h : ¬ n < 64) : encGo n tail = encGo (n / 64) ((n % 64 + 64) :: tail) := by
  rw [encGo]; simp [h]

theorem cpEnc_eq (v : Nat) (h : v < 2 ^ 30) : cpEnc v = encVarint v := by
  unfold cpEnc encVarint
  have e6 : (2 : Nat) ^ 6 = 64 := by decide
  have e12 : (2 : Nat) ^ 12 = 4096 := by decide
  have e18 : (2 : Nat) ^ 18 = 262144 := by decide
  have e24 : (2 : Nat) ^ 24 = 16777216 := by decide
  have e30 : (2 : Nat) ^ 30 = 1073741824 := by decide
  simp only [e6, e12, e18, e24, e30] at *
  by_cases h6 : v < 64
  · have h1 : ¬ v ≥ 16777216 := by omega
    have h2 : ¬ v ≥ 262144 := by omega
    have h3 : ¬ v ≥ 4096 := by omega
    have h4 : ¬ v ≥ 64 := by omega
    have h5 : v % 64 = v := by omega
    simp [h1, h2, h3, h4, h6, h5]
  · simp only [h6, if_false]
    by_cases h12 : v < 4096
    · have h1 : ¬ v ≥ 16777216 := by omega
      have h2 : ¬ v ≥ 262144 := by omega
      have h3 : ¬ v ≥ 4096 := by omega
      have h4 : v ≥ 64 := by omega
      rw [encGo_small _ _ (by omega)]
      have a : v / 64 % 64 = v / 64 := by omega
      simp [h1, h2, h3, h4, a]
    · by_cases h18 : v < 262144
      · have h1 : ¬ v ≥ 16777216 := by omega
        have h2 : ¬ v ≥ 262144 := by omega
        have h3 : v ≥ 4096 := by omega
        have h4 : v ≥ 64 := by omega
        rw [encGo_big _ _ (by omega), encGo_small _ _ (by omega)]
        have a : v / 4096 % 64 = v / 64 / 64 := by omega
        simp [h1, h2, h3, h4, a]
      · by_cases h24 : v < 16777216
        · have h1 : ¬ v ≥ 16777216 := by omega
          have h2 : v ≥ 262144 := by omega
          have h3 : v ≥ 4096 := by omega
          have h4 : v ≥ 64 := by omega
          rw [encGo_big _ _ (by omega), encGo_big _ _ (by omega), encGo_small _ _ (by omega)]
          have a : v / 262144 % 64 = v / 64 / 64 / 64 := by omega
          have b : v / 4096 % 64 = v / 64 / 64 % 64 := by omega
          simp [h1, h2, h3, h4, a, b]
        · have h1 : v ≥ 16777216 := by omega
          have h2 : v ≥ 262144 := by omega
          have h3 : v ≥ 4096 := by omega
          have h4 : v ≥ 64 := by omega
          rw [encGo_big _ _ (by omega), encGo_big _ _ (by omega), encGo_big _ _ (by omega), encGo_small _ _ (by omega)]
          have a : v / 16777216 = v / 64 / 64 / 64 / 64 := by omega
          have b : v / 262144 % 64 = v / 64 / 64 / 64 % 64 := by omega
          have c : v / 4096 % 64 = v / 64 / 64 % 64 := by omega
          simp [h1, h2, h3, h4, a, b, c]

end SS.ExcTable
