import SSDriver.C13
import SSDriver.C10
import SSDriver.C01
import SSDriver.C06
import SSDriver.C07
import SSDriver.C20
import SSDriver.C08
import SSDriver.C09
import SSDriver.C04
import SSDriver.C18
import SSDriver.C11
import SSDriver.C12
import SSDriver.C17
/-!
Line-protocol driver: one JSON object per input line, one output line per input line.
Run:  lake env lean --run Driver.lean < cases.jsonl
The evaluated functions are the very definitions the theorems in SSProps are about.
-/
open Lean

def dispatch (j : Json) : Except String String := do
  let p ← (← j.getObjVal? "p").getStr?
  match p with
  | "C13" => SS.Drv.C13.handle j
  | "C01" => SS.Drv.C01.handle j
  | "C06" => SS.Drv.C06.handle j
  | "C07" => SS.Drv.C07.handle j
  | "C20" => SS.Drv.C20.handle j
  | "C08" => SS.Drv.C08.handle j
  | "C09" => SS.Drv.C09.handle j
  | "C04" => SS.Drv.C04.handle j
  | "C15" => SS.Drv.C04.handle j
  | "C18" => SS.Drv.C18.handle j
  | "C19" => SS.Drv.C18.handle j
  | "C11" => SS.Drv.C11.handle j
  | "C12" => SS.Drv.C12.handle j
  | "C17" => SS.Drv.C17.handle j
  | "C10" => SS.Drv.C10.handle j
  | "C05" => SS.Drv.C10.handle j
  | "C16" => SS.Drv.C10.handle j
  | "C03" => SS.Drv.C10.handle j
  | _ => throw s!"unknown property {p}"

partial def loop (h : IO.FS.Stream) (out : IO.FS.Stream) : IO Unit := do
  let line ← h.getLine
  if line.isEmpty then return ()
  let l := line.trimAscii.toString
  if l.isEmpty then
    out.putStrLn ""
  else
    match Json.parse l with
    | .error e => out.putStrLn s!"!driver-error parse: {e}"
    | .ok j =>
      match dispatch j with
      | .ok s => out.putStrLn s
      | .error e => out.putStrLn s!"!driver-error {e}"
  loop h out

def main : IO Unit := do
  loop (← IO.getStdin) (← IO.getStdout)
