import SSModel.Extract
import SSLemmas.Extract
/-!
C05 — extract never raises: faults contained, reported in `.error`, outer frames kept.
Property theorems only; the model is `SSModel/Extract.lean` (`run`, and `runX` with Python's partial
operations made explicit).
-/
open SS.Extract

theorem lastX_eq {α : Type} (l : List α) (h : l ≠ []) : last! l = .ok (l.getLast h) := by
  cases l with
  | nil => exact absurd rfl h
  | cons x xs => rfl

/-- One elaborate step never hits an unguarded `IndexError` / `AssertionError`, provided the unwrap
phase has emptied `to_unwrap` (which it always has, `C10_unwrap_fixpoint`). -/
theorem C05_elabStep_total (env : Env) (s : St) (h : s.toUnwrap = []) :
    elabStepX env s = .ok (elabStep env s) := by
  unfold elabStepX elabStep
  cases hE : s.toElab with
  | nil => simp [pure, Except.pure]
  | cons e rest =>
    obtain ⟨node, d⟩ := e
    cases node with
    | frameObj f =>
      simp only [List.isEmpty_cons, Bool.false_eq_true, if_false, popleft?, bind, Except.bind, pure, Except.pure]
      cases hr : (elabOutcome env f (nextObj rest.head?) (env.elabFn f.pyframe (nextView rest.head?))).1 with
      | none => simp
      | some items =>
        simp only []
        cases items with
        | nil => simp [requeue, replacing]
        | cons x xs =>
          have hl : (x :: xs).getLast? = some ((x :: xs).getLast (by simp)) := List.getLast?_eq_some_getLast (by simp)
          simp only [List.isEmpty_cons, Bool.false_eq_true, if_false, last!, requeue, replacing, hl]
          simp
    | item i => cases rest <;> simp [popleft?, bind, Except.bind, pure, Except.pure, h]
    | none => cases rest <;> simp [popleft?, bind, Except.bind, pure, Except.pure, h]

/-- **C05_total**: the whole traversal never raises, whatever the hooks return or raise and however
much fuel it is given: the only outcomes are a finished Stack or (fuel exhausted) non-termination. -/
theorem C05_total (env : Env) (fuel : Nat) (s : St) : runX env fuel s = .ok (run env fuel s) := by
  induction fuel generalizing s with
  | zero => rfl
  | succ n ih =>
    unfold runX run
    cases hp : unwrapPhase env (n+1) s with
    | none => rfl
    | some s' =>
      simp only []
      rw [C05_elabStep_total env s' (unwrapPhase_empties env _ s s' hp)]
      cases elabStep env s' with
      | inl o => rfl
      | inr s'' => exact ih s''

/-- Headline: `extract(x)` returns (never `Except.error`) for every environment and item. -/
theorem C05_extract_never_raises (env : Env) (fuel : Nat) (x : Item) :
    ∃ o, runX env fuel (initSt env x) = .ok o := ⟨_, C05_total env fuel _⟩

/-- A raising `unwrap_stackitem` hook: the exception is recorded, the item becomes a leaf candidate,
nothing already emitted or pending is disturbed. -/
theorem C05_unwrap_fail (env : Env) (s : St) (q : QE) (i : Item) (e : Nat)
    (hq : q.cur = .item i) (hf : env.isFrame i = false) (hr : env.unwrap i = .raise e) :
    unwrapStep env s q = { s with toElab := s.toElab ++ [⟨.item i, q.depth⟩], loops := 0, errors := s.errors ++ [.hook e] } := by
  simp [unwrapStep, hq, hf, hr, handleUnwrap, UnwrapRes.raised, asLeaf]

/-- A `@yields_frames` iterator that fails midway: the items it yielded before are queued, the
exception is recorded. -/
theorem C05_iter_fail (env : Env) (s : St) (q : QE) (i : Item) (xs : List (Option Item)) (e : Nat)
    (hq : q.cur = .item i) (hf : env.isFrame i = false) (hr : env.unwrap i = .iter xs (some e))
    (hg : s.loops + 1 ≤ SS.Gen.unwrapGuard) :
    unwrapStep env s q = { s with toUnwrap := pushUnwrapped env xs q.origin q.depth s.toUnwrap,
                                  loops := s.loops + 1, errors := s.errors ++ [.hook e] } := by
  have : ¬ (s.loops + 1 > SS.Gen.unwrapGuard) := by omega
  simp [unwrapStep, hq, hf, hr, handleUnwrap, UnwrapRes.raised, UnwrapRes.isNone, UnwrapRes.children,
        UnwrapRes.iterErrs, this]

/-- A raising `elaborate_frame` (or context analysis) keeps the frame, un-hidden, prunes its callees
only, and records the exceptions in order: context errors first, then the elaborate error. -/
theorem C05_elaborate_fail (env : Env) (s : St) (f : FrameRec) (d : Nat) (rest : List EE) (e : Nat)
    (h : s.toElab = ⟨.frameObj f, d⟩ :: rest)
    (hr : env.elabFn f.pyframe (nextView rest.head?) = .raise e) :
    ∃ s', elabStep env s = .inr s'
      ∧ s'.out = s.out ++ [⟨f, false⟩]
      ∧ s'.errors = s.errors ++ (if env.withContexts then (env.ctxErrs f.pyframe).map .hook else []) ++ [.hook e]
      ∧ s'.toUnwrap = (rest.map (fun e => (⟨none, e.node, e.depth⟩ : QE))).dropWhile (fun q => q.depth ≥ d) := by
  simp [elabStep, h, hr, elabOutcome, requeue, replacing, backOf]

/-- **outer frames kept**: every frame emitted before a failure (or before anything else that happens
later) is still in the result, identical, in the same position; errors are only ever appended, so
each recorded exception stays retrievable. -/
theorem C05_outer_frames_kept (env : Env) (fuel : Nat) (s : St) (fs : List OutFrame) (l : Leaf) (es : List Err)
    (h : run env fuel s = .done fs l es) : s.out <+: fs ∧ s.errors <+: es :=
  ⟨run_out_prefix env fuel s fs l es h, run_errors_prefix env fuel s fs l es h⟩

/-- `Stack.error` is the exception itself when there is exactly one, a group otherwise. -/
theorem C05_single_or_group (es : List Err) :
    (es = [] → stackError es = .none) ∧ (∀ e, es = [e] → stackError es = .single e)
    ∧ (es.length ≥ 2 → stackError es = .group es) := by
  refine ⟨by intro h; subst h; rfl, by intro e h; subst h; rfl, ?_⟩
  intro h
  match es, h with
  | _ :: _ :: _, _ => rfl

/-! non-vacuity: the F6 shape (insert-before on the innermost frame) now finishes, and a run with
three different faults records all three in order. -/
def f6Env : Env :=
  { isFrame := fun i => i ≥ 10, unwrap := fun i => if i = 0 then .one 10 else .none
    elabFn := fun i _ => if i = 10 then .seq [.item 11, .none] else .none
    elabHide := fun _ => false, weakrefable := fun _ => true, genLike := fun _ => false, frameOf := fun _ => none
    withContexts := false, ctxErrs := fun _ => [] }

example : run f6Env 20 (initSt f6Env 0) = .done [⟨⟨10, none⟩, false⟩, ⟨⟨11, none⟩, false⟩] .none [] := by
  decide +kernel

def faultyEnv : Env :=
  { isFrame := fun i => i ≥ 10
    unwrap := fun i => if i = 0 then .iter [some 10, some 1, some 11] (some 7) else if i = 1 then .raise 8 else .none
    elabFn := fun i _ => if i = 10 then .raise 9 else .none
    elabHide := fun _ => true, weakrefable := fun _ => true, genLike := fun _ => false, frameOf := fun _ => none
    withContexts := true, ctxErrs := fun i => if i = 10 then [5] else [] }

example : run faultyEnv 20 (initSt faultyEnv 0) = .done [⟨⟨10, none⟩, false⟩] .none [.hook 7, .hook 8, .hook 5, .hook 9] := by
  decide +kernel
