import SSModel.Extract
import SSLemmas.Extract
import SSModel.Origin
import SSModel.Gen.Consts
/-!
C16 — `Frame.origin` and `extract_outermost` keep their documented contracts.
Property theorems only; model `SSModel/Extract.lean` (`run`, `runFirst`), lemmas `SSLemmas/Extract.lean`.
-/
open SS.Extract

/-- **origin is the owner**: in every finished extraction, each frame's origin (if not None) is a
coroutine / generator / async-generator object whose own frame is that very frame. -/
theorem C16_origin_is_owner (env : Env) (fuel : Nat) (x : Item) (fs : List OutFrame) (l : Leaf) (es : List Err)
    (h : extract env fuel x = .done fs l es) :
    ∀ f ∈ fs, ∀ o, f.frame.origin = some o → env.genLike o = true ∧ env.frameOf o = some f.frame.pyframe := by
  intro f hf
  refine run_ok env fuel (initSt env x) fs l es h ?_ f hf
  refine ⟨?_, by simp [initSt], by simp [initSt]⟩
  intro q hq
  simp [initSt] at hq
  subst hq
  trivial

/-- What `extract_outermost` must do given the complete extraction's result. -/
def outermostSpec : Outcome → OutermostRes
  | .done (f :: _) _ _ => .frame f
  | .done [] l [] => .raiseNoFrame l
  | .done [] _ [e] => .raiseRecorded e
  | .done [] _ es => .raiseGroup es
  | .outOfFuel => .outOfFuel

/-- **extract_outermost = head of extract**: whenever the full extraction finishes, `extract_outermost`
returns exactly its first frame (same record, same `hide` flag), and raises exactly when there is
none — the recorded error if there is one, the group if several, else the no-frame RuntimeError. -/
theorem C16_outermost_head (env : Env) (fuel : Nat) (s : St) (fs : List OutFrame) (l : Leaf) (es : List Err)
    (hout : s.out = []) (h : run env fuel s = .done fs l es) :
    runFirst env fuel s = outermostSpec (.done fs l es) := by
  cases fuel with
  | zero => simp [run] at h
  | succ n =>
    unfold run at h
    unfold runFirst
    cases hp : unwrapPhase env (n+1) s with
    | none => rw [hp] at h; cases h
    | some s' =>
      rw [hp] at h
      simp only [] at h ⊢
      have ho' : s'.out = [] := by rw [unwrapPhase_out env _ s s' hp, hout]
      rcases elabStep_shape env s' with ⟨l', hl⟩ | ⟨s'', x, errs, hs'', hx, _⟩
      · rw [hl] at h ⊢
        cases h
        rw [ho']
        simp only []
        cases s'.errors with
        | nil => rfl
        | cons e rest => cases rest <;> rfl
      · rw [hs''] at h ⊢
        simp only []
        have hpre := run_out_prefix env n s'' fs l es h
        rw [hx, ho'] at hpre ⊢
        simp only [List.nil_append]
        obtain ⟨t, ht⟩ := hpre
        simp at ht
        subst ht
        rfl

theorem C16_extract_outermost (env : Env) (fuel : Nat) (x : Item) (fs : List OutFrame) (l : Leaf) (es : List Err)
    (h : extract env fuel x = .done fs l es) :
    extractOutermost env fuel x = outermostSpec (.done fs l es) :=
  C16_outermost_head env fuel (initSt env x) fs l es (by simp [initSt]) h

/-- **round trip**: for a generator-like object `o` that unwraps to its own frame first (as the built-in
glue does for suspended and running coroutines / generators / async generators), whenever
`extract(o)` finishes its first frame is `o`'s own frame with `o` as origin — so
`extract_outermost(f.origin).pyframe is f.pyframe` for every frame carrying an origin. -/
theorem C16_origin_roundtrip (env : Env) (fuel : Nat) (o f : Item) (rest : List (Option Item))
    (ho : env.isFrame o = false) (hw : env.weakrefable o = true) (hg : env.genLike o = true)
    (hfo : env.frameOf o = some f) (hf : env.isFrame f = true) (hfg : env.genLike f = false)
    (hu : env.unwrap o = .seq (some f :: rest)) (hG : 1 ≤ SS.Gen.unwrapGuard)
    (fs : List OutFrame) (l : Leaf) (es : List Err) (h : extract env fuel o = .done fs l es) :
    ∃ hide tl, fs = ⟨⟨f, some o⟩, hide⟩ :: tl :=
  origin_roundtrip env fuel o f rest ho hw hg hfo hf hfg hu hG fs l es h

/-! non-vacuity: a two-level generator chain -/
def genEnv : Env :=
  { isFrame := fun i => i ≥ 100, unwrap := fun i => if i = 1 then .seq [some 101, some 2] else if i = 2 then .seq [some 102, none] else .none
    elabFn := fun _ _ => .none, elabHide := fun _ => false, weakrefable := fun i => i < 100
    genLike := fun i => i = 1 || i = 2, frameOf := fun i => if i = 1 then some 101 else if i = 2 then some 102 else none
    withContexts := false, ctxErrs := fun _ => [] }

example : extract genEnv 20 1 = .done [⟨⟨101, some 1⟩, false⟩, ⟨⟨102, some 2⟩, false⟩] .none [] := by decide +kernel
example : extractOutermost genEnv 20 2 = .frame ⟨⟨102, some 2⟩, false⟩ := by decide +kernel


/-! ### which object becomes the origin (`better_origin`) -/

/-- What the model takes from the source, re-read on every run: the generator-like types and the condition of `better_origin`. -/
theorem C16_better_origin_source :
    SS.Gen.betterOriginTypes = "(types.CoroutineType, types.GeneratorType, types.AsyncGeneratorType)"
    ∧ SS.Gen.betterOriginCond = "isinstance(candidate, typelist) or not isinstance(fallback, typelist)" := by decide

/-- **C16_better_origin**: a coroutine, generator or async generator that is being looked into always becomes the origin,
whatever was remembered before (so each frame obtained by looking inside one gets that object, not the one that awaits it);
anything else replaces only a fallback that is not generator-like; an object that cannot be weakly referenced never does. -/
theorem C16_better_origin (cand fb : SS.Origin.Kind) :
    (cand.genlike = true → SS.Origin.betterOrigin cand fb = .candidate)
    ∧ (cand.weakrefable = false → SS.Origin.betterOrigin cand fb = .fallback)
    ∧ (cand.genlike = false → fb.genlike = true → SS.Origin.betterOrigin cand fb = .fallback) := by
  cases cand <;> cases fb <;> simp [SS.Origin.betterOrigin, SS.Origin.Kind.genlike, SS.Origin.Kind.weakrefable]

/-- The two slips that seeded changes made here (a kind dropped from the list; `or` → `and`) each lose the origin of an async
generator (resp. coroutine) reached through a coroutine. -/
theorem C16_better_origin_slips :
    SS.Origin.betterOriginNoAgen .asyncGenerator .coroutine = .fallback
    ∧ SS.Origin.betterOriginAnd .coroutine .coroutine = .fallback
    ∧ SS.Origin.betterOrigin .asyncGenerator .coroutine = .candidate
    ∧ SS.Origin.betterOrigin .coroutine .coroutine = .candidate := by decide

/-- **C16_origin_reset**: a frame keeps the origin it was reached with exactly when it is that origin's own frame — so
`extract_outermost(frame.origin).pyframe` (the origin's own frame) is the frame itself whenever an origin is recorded. -/
theorem C16_origin_reset (own : Option SS.Origin.PyFrame) (cur : SS.Origin.PyFrame) :
    SS.Origin.keepOrigin own cur = true ↔ ∃ f, own = some f ∧ f.id = cur.id := by
  cases own with
  | none => simp [SS.Origin.keepOrigin]
  | some f => simp [SS.Origin.keepOrigin]

/-- Comparing code objects instead is not the same rule: two activations of one function (a recursive generator driving
another instance of itself) share the code and not the frame; the nested activation would keep an origin that does not own it. -/
theorem C16_origin_reset_by_code_witness :
    ∃ own cur, SS.Origin.keepOriginByCode (some own) cur = true ∧ SS.Origin.keepOrigin (some own) cur = false ∧ own.id ≠ cur.id :=
  ⟨⟨1, 7⟩, ⟨2, 7⟩, by decide, by decide, by decide⟩

/-- … while on frames of distinct functions (every non-recursive chain) the two rules agree, which is why only recursion shows it. -/
theorem C16_origin_reset_by_code_agrees (own cur : SS.Origin.PyFrame)
    (h : own.code = cur.code → own.id = cur.id) (hid : own.id = cur.id → own.code = cur.code) :
    SS.Origin.keepOriginByCode (some own) cur = SS.Origin.keepOrigin (some own) cur := by
  show (own.code == cur.code) = (own.id == cur.id)
  by_cases hc : own.code = cur.code
  · have h1 : (own.code == cur.code) = true := by simpa using hc
    have h2 : (own.id == cur.id) = true := by simpa using h hc
    rw [h1, h2]
  · have hn : own.id ≠ cur.id := fun e => hc (hid e)
    have h1 : (own.code == cur.code) = false := by simpa using hc
    have h2 : (own.id == cur.id) = false := by simpa using hn
    rw [h1, h2]
