import SSModel.Extract
import SSLemmas.Extract
/-! C16 — placeholder; theorems follow. -/
open SS.Extract
theorem C16_placeholder : True := trivial
