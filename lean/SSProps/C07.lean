import SSModel.Snapshot
import SSModel.Gen.Consts
/-!
C07 — thread stacks: exact when the thread is blocked, memory-safe when it is racing (partial).
Property theorems only; model `SSModel/Snapshot.lean` (retry count = generated `SS.Gen.snapshotRetries`).
-/
open SS.Snapshot

/-- The target does not move during the attempt: every read instant sees the same state. -/
def Still (tr : Trace) (n : Nat) (s : TState) : Prop := ∀ k, k ≤ 2 * n + 2 → stateAt tr k = s

theorem go_still (tr : Trace) (n : Nat) (s : TState) (hs : Still tr n s) (hlen : n ≤ s.stack.length) :
    ∀ (fuel i : Nat) (acc : List Nat), i + fuel = n → acc = s.stack.take i →
      attemptGo tr n s.lasti i fuel acc = .accepted s.lasti (s.stack.take n) := by
  intro fuel
  induction fuel with
  | zero =>
    intro i acc hi hacc
    have : i = n := by omega
    subst this
    simp only [attemptGo, hs (2 * i + 2) (by omega), beq_self_eq_true, if_true, hacc]
  | succ f ih =>
    intro i acc hi hacc
    have h1 := hs (2 * i + 2) (by omega)
    have h2 := hs (2 * i + 3) (by omega)
    simp only [attemptGo, h1, bne_self_eq_false, Bool.false_eq_true, if_false, h2]
    apply ih (i + 1) _ (by omega)
    rw [hacc]
    have hil : i < s.stack.length := by omega
    rw [List.take_add_one]
    congr 1
    simp [List.getD_eq_getElem?_getD, List.getElem?_eq_getElem hil]

/-- **C07_blocked**: for a target that takes no step (a thread blocked at a fixed point) the first attempt is
accepted and the snapshot is exactly the target's stack (to the depth read) at its one position. -/
theorem C07_blocked (tr : Trace) (rest : List Trace) (n : Nat) (s : TState) (hs : Still tr n s) (hlen : n ≤ s.stack.length)
    (k : Nat) : inspect (tr :: rest) n (k + 1) = .snapshot s.lasti (s.stack.take n) := by
  have : attempt tr n = .accepted s.lasti (s.stack.take n) := by
    unfold attempt
    simp only [hs 0 (by omega), hs 1 (by omega), bne_self_eq_false, Bool.false_eq_true, if_false]
    exact go_still tr n s hs hlen n 0 [] (by omega) (by simp)
  simp [inspect, this]

/-- **C07_bounded_retries**: the loop makes at most `snapshotRetries` attempts; if every one of them is
rejected the result is the "inconsistent snapshot" error (contained by the caller, C05/C20) — never a hang. -/
theorem C07_bounded_retries (traces : List Trace) (n : Nat) (h : ∀ tr ∈ traces, attempt tr n = .retry) :
    inspectFrame traces n = .inconsistent := by
  unfold inspectFrame
  generalize SS.Gen.snapshotRetries = k
  induction k generalizing traces with
  | zero => simp [inspect]
  | succ k ih =>
    cases traces with
    | nil => rfl
    | cons tr rest =>
      simp only [inspect, h tr (by simp)]
      exact ih rest (fun t ht => h t (by simp [ht]))

/-- An accepted attempt saw the same `f_lasti` at the first read, before every slot read and at the end. -/
theorem go_accepted_checks (tr : Trace) (n l0 : Nat) :
    ∀ (fuel i : Nat) (acc : List Nat) (l : Nat) (snap : List Nat), i + fuel = n →
      attemptGo tr n l0 i fuel acc = .accepted l snap →
      l = l0 ∧ (stateAt tr (2 * n + 2)).lasti = l0 ∧ ∀ j, i ≤ j → j < n → (stateAt tr (2 * j + 2)).lasti = l0 := by
  intro fuel
  induction fuel with
  | zero =>
    intro i acc l snap hi h
    simp only [attemptGo] at h
    split at h
    · rename_i hc
      cases h
      exact ⟨rfl, by simpa using hc, by intro j h1 h2; omega⟩
    · cases h
  | succ f ih =>
    intro i acc l snap hi h
    simp only [attemptGo] at h
    split at h
    · cases h
    · rename_i hc
      have hci : (stateAt tr (2 * i + 2)).lasti = l0 := by simpa using hc
      obtain ⟨h1, h2, h3⟩ := ih (i + 1) _ l snap (by omega) h
      refine ⟨h1, h2, ?_⟩
      intro j hj1 hj2
      by_cases hji : j = i
      · subst hji; exact hci
      · exact h3 j (by omega) hj2

/-- **C07_position_consistent**: an accepted snapshot is consistent with a single instruction position — the
target was seen at the same `f_lasti` at the start, before every slot read and at the end; otherwise the
attempt is rejected and retried. -/
theorem C07_position_consistent (tr : Trace) (n l : Nat) (snap : List Nat) (h : attempt tr n = .accepted l snap) :
    l = (stateAt tr 0).lasti ∧ (stateAt tr 1).lasti = l ∧ (stateAt tr (2 * n + 2)).lasti = l
    ∧ ∀ j, j < n → (stateAt tr (2 * j + 2)).lasti = l := by
  unfold attempt at h
  simp only [] at h
  split at h
  · cases h
  · rename_i hc
    obtain ⟨h1, h2, h3⟩ := go_accepted_checks tr n _ n 0 [] l snap (by omega) h
    subst h1
    exact ⟨rfl, by simpa using hc, h2, fun j hj => h3 j (by omega) hj⟩

/-- **C07_snapshot_consistent_or_rejected** (partial: NoABA): if an attempt is accepted, all its position
checks agreed; and if in addition the target is *quiescent whenever it is seen at that position* (it does
not leave `lasti` and come back between two consecutive checks — no ABA), every slot value in the
snapshot was read from the stack the target had at that one position. -/
theorem C07_snapshot_partial (tr : Trace) (n : Nat) (l : Nat) (snap : List Nat) (s : TState)
    (hacc : attempt tr n = .accepted l snap)
    (noABA : ∀ k, k ≤ 2 * n + 2 → stateAt tr k = s) (hlen : n ≤ s.stack.length) :
    l = s.lasti ∧ snap = s.stack.take n := by
  have h := C07_blocked tr [] n s noABA hlen 0
  simp only [inspect, hacc] at h
  cases h
  exact ⟨rfl, rfl⟩

/-- **C07_aba_witness**: without that hypothesis the statement is false. The target is at position 10 with
stack [1, 2] while slot 0 is read, runs on and comes back to position 10 with stack [3, 9] — every check
sees 10, the attempt is accepted, and the snapshot [1, 9] mixes two visits: slot 0 was read during the first,
slot 1 during the second.  (Consistent with one *position*, as the property demands, not with one *state*.) -/
theorem C07_aba_witness :
    attempt [⟨10, [1, 2]⟩, ⟨10, [1, 2]⟩, ⟨10, [1, 2]⟩, ⟨10, [1, 2]⟩, ⟨10, [3, 9]⟩, ⟨10, [3, 9]⟩, ⟨10, [3, 9]⟩] 2 = .accepted 10 [1, 9] := by
  decide

/-- **C07_stale_read_witness** (known finding F11): the check before a slot read passes, the target then pops
that slot (its object may be freed) and only afterwards the inspector reads it: the read at instant 3 sees
slot 0 of a stack the target no longer has. The protocol cannot exclude this window. -/
theorem C07_stale_read_witness :
    ∃ tr : Trace, (stateAt tr 2).lasti = (stateAt tr 0).lasti ∧ (stateAt tr 3).stack = [] ∧
      attempt tr 1 = .retry := by
  exact ⟨[⟨10, [7]⟩, ⟨10, [7]⟩, ⟨10, [7]⟩, ⟨12, []⟩, ⟨12, []⟩], rfl, rfl, by decide⟩

/-! #### unwrap_thread -/

/-- **C07_not_alive**: a thread that has not started or has finished yields no frames. -/
theorem C07_not_alive (f : Option Nat) (after : Bool) : unwrapThread false f after = none := by
  cases f <;> simp [unwrapThread]

theorem C07_finished (f : Option Nat) (was : Bool) : unwrapThread was f false = none := by
  cases f <;> simp [unwrapThread]

/-- **C07_ident**: if the thread was alive before and after the frame lookup (its life is an interval), it
was alive at the lookup instant, so the frame found under its ident is its own and not that of a later
thread re-using the ident. -/
theorem C07_ident (l : Life) (t0 t1 t2 : Nat) (h01 : t0 ≤ t1) (h12 : t1 ≤ t2)
    (ha : l.aliveAt t0 = true) (hb : l.aliveAt t2 = true) : l.aliveAt t1 = true := by
  simp only [Life.aliveAt, Bool.and_eq_true, decide_eq_true_eq] at *
  omega

/-- The calling-thread test of `unwrap_thread`, re-read from the source on every run. -/
theorem C07_shortcut_source : SS.Gen.unwrapThreadShortcut = "thread.ident == threading.get_ident() and thread.is_alive()" := by decide

/-- **C07_finished_full**: a thread that is not alive -- before, at and after the lookup -- yields no frames, whoever asks: also a
caller that has been given the finished thread's ident since, and whatever frame is found under that ident. -/
theorem C07_finished_full (identIsCallers : Bool) (f : Option Nat) :
    unwrapThreadFull identIsCallers false false f false = .nothing := by
  cases identIsCallers <;> cases f <;> simp [unwrapThreadFull, unwrapThread]

/-- The calling thread itself (alive, its own ident) gets the slice that ends at the caller. -/
theorem C07_calling_thread (was : Bool) (f : Option Nat) (after : Bool) :
    unwrapThreadFull true true was f after = .callerSlice := by
  simp [unwrapThreadFull]

/-- With the ident alone deciding (the code between the repairs of F39 and F60) a finished thread whose ident the caller now holds
is answered with the caller's own stack. -/
theorem C07_F60_old_code_witness : unwrapThreadIdentOnly true false (some 7) false = .callerSlice := by decide

/-! non-vacuity -/
example : inspectFrame [[⟨4, [1]⟩, ⟨6, [1]⟩], [⟨6, [5, 6]⟩, ⟨6, [5, 6]⟩, ⟨6, [5, 6]⟩, ⟨6, [5, 6]⟩, ⟨6, [5, 6]⟩, ⟨6, [5, 6]⟩, ⟨6, [5, 6]⟩]] 2
    = .snapshot 6 [5, 6] := by decide
