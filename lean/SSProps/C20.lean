import SSModel.Trickery
import SSModel.Gen.Consts
/-!
C20 — fallback analysis is a sound ordered over-approximation; failures only warn.
Property theorems only; model `SSModel/Trickery.lean`.
-/
open SS.Trickery

/-- **C20_mode**: for every sequence of set_trickery_enabled calls and queries, each query sees the value
of the latest set before it, and auto-detection after `None` (or when nothing was ever set). -/
theorem C20_mode (auto : Bool) (ops : List Op) (cell : Option Bool) : run auto ops cell = spec auto ops cell := by
  induction ops generalizing cell with
  | nil => rfl
  | cons op rest ih =>
    cases op with
    | set v => simp [run, spec, ih]
    | query =>
      cases cell with
      | none =>
        simp only [run, spec, check, Option.getD_none]
        rw [ih]
        -- after auto-detection the cell holds `auto`: later queries see `auto`, which is what `none` specifies too
        congr 1
        clear ih
        induction rest with
        | nil => rfl
        | cons o r ihr =>
          cases o with
          | set v => rfl
          | query => simp [spec, ihr]
      | some b => simp [run, spec, check, ih]

/-- After `set (some b)`, every later query (until the next set) returns `b`; after `set none`, `auto`. -/
theorem C20_set_takes_effect (auto : Bool) (v : Option Bool) (n : Nat) (cell : Option Bool) :
    run auto (.set v :: List.replicate n .query) cell = List.replicate n (v.getD auto) := by
  rw [C20_mode]
  simp only [spec]
  induction n with
  | zero => rfl
  | succ k ih => simp [List.replicate_succ, spec, ih]

/-- **C20_fail_warns**: whatever exception the trickery analysis raises, the call returns the referents
result, issues exactly one warning, and raises nothing; when trickery succeeds or is disabled there is
no warning. -/
theorem C20_fail_warns {α : Type} (e : Nat) (referents : α) :
    (contextsActive true (.raises e) referents).result = referents
    ∧ (contextsActive true (.raises e) referents).warnings = 1
    ∧ (contextsActive true (.raises e : Analysis α) referents).raised = false := ⟨rfl, rfl, rfl⟩

theorem C20_no_spurious_warning {α : Type} (r referents : α) (t : Analysis α) :
    (contextsActive true (.ok r) referents).warnings = 0 ∧ (contextsActive false t referents).warnings = 0
    ∧ (contextsActive false t referents).result = referents := ⟨rfl, rfl, rfl⟩

/-- **C20_sound_ordered**: the referents result lists the managers whose exit methods the frame references,
in reference order: any sub-sequence of the references (in particular the truly active managers', which
CPython keeps on the value stack in entry order) appears as a sub-sequence of the result, with the same
obj and is_async. -/
theorem C20_sound_ordered (refs truth : List Ref) (exiting : Option Bool) (h : truth.Sublist refs) :
    (truth.filterMap ofRef).Sublist (byReferents refs exiting) := by
  unfold byReferents
  exact List.Sublist.trans (List.Sublist.filterMap ofRef h) (List.sublist_append_left _ _)

/-- **C20_exiting_iff**: there is an is_exiting entry exactly when an exit call is in progress, and it is last. -/
theorem C20_exiting_iff (refs : List Ref) (exiting : Option Bool) :
    ((byReferents refs exiting).any (·.isExiting)) = exiting.isSome
    ∧ (∀ a, exiting = some a → (byReferents refs exiting).getLast? = some ⟨none, a, true⟩) := by
  constructor
  · unfold byReferents
    have : ∀ l : List Ref, (l.filterMap ofRef).any (·.isExiting) = false := by
      intro l
      induction l with
      | nil => rfl
      | cons r rs ih => cases r <;> simp [List.filterMap_cons, ofRef, ih]
    cases exiting <;> simp [List.any_append, this]
  · intro a h; subst h; simp [byReferents]

/-- Every extra entry (one not accounted for by the truth) comes from an exit method the frame references:
the result contains nothing else. -/
theorem C20_extras_are_referenced (refs : List Ref) (exiting : Option Bool) (c : Ctx) (h : c ∈ byReferents refs exiting)
    (hne : c.isExiting = false) : ∃ m a, Ref.exitMethod m a ∈ refs ∧ c = ⟨some m, a, false⟩ := by
  unfold byReferents at h
  rcases List.mem_append.mp h with h1 | h1
  · rcases List.mem_filterMap.mp h1 with ⟨r, hr, hc⟩
    cases r with
    | exitMethod m a => exact ⟨m, a, hr, by simpa [ofRef] using hc.symm⟩
    | other => simp [ofRef] at hc
  · cases exiting with
    | none => cases h1
    | some a => simp at h1; subst h1; simp at hne

/-! non-vacuity -/
example : run true [.query, .set (some false), .query, .query, .set none, .query, .set (some true), .query] none
    = [true, false, false, true, true] := by decide
example : byReferents [.other, .exitMethod 1 false, .other, .exitMethod 2 true] (some true)
    = [⟨some 1, false, false⟩, ⟨some 2, true, false⟩, ⟨none, true, true⟩] := by decide


/-- The fast path of `_check_trickery_available` loads the module-level setting once (re-read from the source on every run). -/
theorem C20_fast_path_source : SS.Gen.trickeryFastPathReads = 1 := by decide

/-- **C20_fast_path_atomic**: with the fast path as the source has it, whatever other threads do to the setting while the call is
in progress, the call returns a Boolean that one of the settings it saw stands for -- the old value, the new value, or
auto-detection if it saw `None`; never Python's `None`. -/
theorem C20_fast_path_atomic (auto : Bool) (obs : Nat → Option Bool) :
    Explained auto obs 2 (checkConc SS.Gen.trickeryFastPathReads auto obs) := by
  rw [C20_fast_path_source]
  unfold checkConc Explained
  simp only [BEq.rfl, if_true]
  cases h0 : obs 0 with
  | some b => exact ⟨b, rfl, 0, by omega, by simp [h0]⟩
  | none =>
    cases h1 : obs 1 with
    | some b => exact ⟨b, rfl, 1, by omega, by simp [h1]⟩
    | none => exact ⟨auto, rfl, 1, by omega, by simp [h1]⟩

/-- The code before F55 read the setting twice: a `set_trickery_enabled(None)` landing between the two reads makes the call return
`None`, which no setting explains (before: True, after: auto-detect = True). -/
theorem C20_F55_old_code_witness :
    checkConc 2 true (fun k => if k = 0 then some true else none) = none
    ∧ ¬ Explained true (fun k => if k = 0 then some true else none) 3 (checkConc 2 true (fun k => if k = 0 then some true else none)) := by
  refine ⟨rfl, ?_⟩
  rintro ⟨b, hb, _⟩
  simp [checkConc] at hb

example : checkConc 1 true (fun k => if k = 0 then some true else none) = some true := rfl
