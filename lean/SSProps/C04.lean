import SSModel.Slice
/-!
C04 — running-stack extraction and StackSlice slicing equal slices of the true stack.
Property theorems only; model `SSModel/Slice.lean`.
Positions: `ttf = w.segs.flatten` lists the thread's frames innermost first (index 0 = the caller); the
true stack (outermost first) is its reverse.
-/
open SS.Slice

/-- The frames from index `ji` (inner) to index `jo` (outer) of the innermost-first list, outermost first. -/
def sliceOf (ttf : List Frame) (ji jo : Nat) : List Frame := ((ttf.take (jo + 1)).drop ji).reverse

/-- The same thing said on the true stack (outermost first): positions `len-1-jo … len-1-ji`. -/
theorem C04_sliceOf_is_true_stack_slice (ttf : List Frame) (ji jo : Nat) (h1 : ji ≤ jo) (h2 : jo < ttf.length) :
    sliceOf ttf ji jo = ((ttf.reverse).take (ttf.length - ji)).drop (ttf.length - 1 - jo) := by
  unfold sliceOf
  rw [List.reverse_drop, List.reverse_take]
  simp only [List.length_take]
  have e1 : min (jo + 1) ttf.length = jo + 1 := by omega
  rw [e1, List.take_drop]
  congr 1
  · omega
  · congr 1; omega

theorem indexOf_getElem (l : List Frame) (hn : l.Nodup) (k : Nat) (x : Frame) (hk : l[k]? = some x) : indexOf? l x = some k := by
  obtain ⟨hlt, hx⟩ := List.getElem?_eq_some_iff.mp hk
  unfold indexOf?
  have : l.findIdx (· == x) = k := by
    have := List.Nodup.idxOf_getElem hn k hlt
    rw [hx] at this
    exact this
  simp [this, hlt]

/-- **C04_since_none**: `extract_since(None)` / `StackSlice()` is the whole true stack — all frames of the
calling greenlet and, through the greenlet parents, of every enclosing one — for any number of greenlets. -/
theorem C04_since_none (w : World) (hne : w.segs ≠ []) (hseg : ∀ s ∈ w.segs, s ≠ []) (hnd : w.segs.flatten.Nodup) :
    unwrapSlice w none none none = .frames (trueStack w) := by
  unfold unwrapSlice trueStack
  by_cases hg : w.segs.length ≥ 2
  · -- nested greenlet: index / reverse-slice computation
    have hfl : w.segs.flatten ≠ [] := by
      cases hs : w.segs with
      | nil => exact absurd hs hne
      | cons s rest =>
        have := hseg s (by simp [hs])
        cases s with
        | nil => exact absurd rfl this
        | cons x xs => simp
    have hrev : revSlice w.segs.flatten w.segs.flatten.length none = w.segs.flatten.reverse := by
      unfold revSlice
      have : w.segs.flatten.isEmpty = false := by simpa using hfl
      have hl : 0 < w.segs.flatten.length := List.length_pos_iff.mpr hfl
      simp only [this, Bool.false_eq_true, if_false, List.drop_zero]
      congr 1
      apply List.take_of_length_le
      omega
    have hgs : greenletSlice w.segs.flatten none none = w.segs.flatten.reverse := by
      simp only [greenletSlice, hrev]
    simp only [hg, if_true, hgs]
    have : (w.segs.flatten.reverse).isEmpty = false := by simpa using hfl
    simp [this, applyLimit]
  · -- main greenlet: the f_back walk from the caller
    have h1 : w.segs.length = 1 := by
      have : w.segs.length ≠ 0 := by simpa using hne
      omega
    obtain ⟨s, hs⟩ : ∃ s, w.segs = [s] := by
      cases hw : w.segs with
      | nil => simp [hw] at h1
      | cons a rest => cases rest with
        | nil => exact ⟨a, rfl⟩
        | cons b r => simp [hw] at h1
    have hsne := hseg s (by simp [hs])
    obtain ⟨c, cs, hcs⟩ : ∃ c cs, s = c :: cs := by
      cases s with
      | nil => exact absurd rfl hsne
      | cons c cs => exact ⟨c, cs, rfl⟩
    subst hcs
    have hng : ¬ (w.segs.length ≥ 2) := hg
    simp only [hs, List.length_cons, List.length_nil, ge_iff_le, Nat.reduceLeDiff, decide_false,
      Bool.false_eq_true, if_false, List.isEmpty_nil, if_true, List.head?_cons, Option.bind_some,
      Option.getD_some, Option.getD_none, List.flatten_cons, List.flatten_nil, List.append_nil]
    have hchain : fbackChain w c = c :: cs := by
      unfold fbackChain
      simp [hs, List.dropWhile_cons]
    simp [tryFrom, hchain, applyLimit]

/-- **C04_limit**: a limit keeps the frames nearest the anchor: the first `n` (nearest `outer`) when only
`outer` is given, otherwise the last `n` (nearest `inner` / the caller); a limit not smaller than the slice
changes nothing. -/
theorem C04_limit (s : List Frame) (outer inner : Option Frame) (n : Nat) (hn : 0 < n) :
    applyLimit s outer inner (some n)
      = (if inner.isNone && outer.isSome then s.take n else s.drop (s.length - n))
    ∧ applyLimit s outer inner none = s := by
  refine ⟨?_, rfl⟩
  unfold applyLimit
  by_cases h : s.length > n
  · have : n ≠ 0 := by omega
    simp [h, this]
  · have h1 : s.take n = s := List.take_of_length_le (by omega)
    have h2 : s.length - n = 0 := by omega
    simp [h, h1, h2]

/-- **C04_greenlet_slice**: called from a nested greenlet (two or more segments), for any inner position
`ji` and outer position `jo ≥ ji` in the thread's frame list, `StackSlice(outer, inner)` yields exactly
the contiguous sub-sequence between them, outermost first — across greenlet boundaries. -/
theorem C04_greenlet_slice (w : World) (ttf : List Frame) (hT : w.segs.flatten = ttf) (hg : w.segs.length ≥ 2) (hnd : ttf.Nodup)
    (ji jo : Nat) (fi fo : Frame) (h1 : ji ≤ jo) (hi : ttf[ji]? = some fi) (ho : ttf[jo]? = some fo) :
    unwrapSlice w (some fo) (some fi) none = .frames (sliceOf ttf ji jo) := by
  obtain ⟨h2, _⟩ := List.getElem?_eq_some_iff.mp ho
  obtain ⟨hji, _⟩ := List.getElem?_eq_some_iff.mp hi
  unfold unwrapSlice
  rw [hT]
  have hio := indexOf_getElem ttf hnd jo fo ho
  have hii := indexOf_getElem ttf hnd ji fi hi
  have hne : ttf.isEmpty = false := by
    cases ttf with
    | nil => simp at h2
    | cons x xs => rfl
  have hfirst : greenletSlice ttf (some fo) (some fi) = sliceOf ttf ji jo := by
    unfold greenletSlice
    simp only []
    rw [hio, hii]
    by_cases h0 : ttf.head? == some fi
    · have hj0 : ji = 0 := by
        have h0' : ttf[0]? = some fi := by
          cases ttf with
          | nil => simp at h2
          | cons x xs => simpa using h0
        have := indexOf_getElem ttf hnd 0 fi h0'
        rw [hii] at this
        simpa using this
      subst hj0
      simp only [h0, if_true]
      unfold revSlice sliceOf
      simp only [hne, Bool.false_eq_true, if_false, List.drop_zero]
      congr 2
      omega
    · simp only [h0, Bool.false_eq_true, if_false, Option.map_some]
      have hjpos : 0 < ji := by
        rcases Nat.eq_zero_or_pos ji with h | h
        · subst h
          exfalso
          apply h0
          cases ttf with
          | nil => simp at h2
          | cons x xs => simpa using hi
        · exact h
      unfold revSlice sliceOf
      simp only [hne, Bool.false_eq_true, if_false]
      have e1 : min jo (ttf.length - 1) = jo := by omega
      have e2 : ji - 1 + 1 = ji := by omega
      rw [e1, e2]
  have hlen : (sliceOf ttf ji jo).length = jo + 1 - ji := by
    unfold sliceOf
    simp only [List.length_reverse, List.length_drop, List.length_take]
    omega
  have hnonempty : (sliceOf ttf ji jo).isEmpty = false := by
    cases hs : sliceOf ttf ji jo with
    | nil => rw [hs] at hlen; simp at hlen; omega
    | cons x xs => rfl
  simp only [hg, if_true, hfirst, hnonempty, Bool.false_eq_true, if_false, applyLimit, Bool.false_and]

/-! non-vacuity: a call depth of 3 in a child greenlet of a main greenlet with 2 frames -/
def exWorld : World := ⟨[[5, 4, 3], [2, 1]], [], []⟩

example : unwrapSlice exWorld none none none = .frames [1, 2, 3, 4, 5] := by decide
example : unwrapSlice exWorld (some 2) (some 4) none = .frames [2, 3, 4] := by decide
example : unwrapSlice exWorld (some 2) none (some 2) = .frames [2, 3] := by decide
example : unwrapSlice exWorld none (some 4) (some 2) = .frames [3, 4] := by decide

/-! ### `outer` running on another thread (finding F26) -/

/-- **C04_other_thread_limit**: the caller runs in the main greenlet with stack `c :: cs`; `outer` is not on that stack
but on the stack of another thread whose `f_back` chain from its innermost frame `t` is `t :: rest`.  Then
`StackSlice(outer=o, limit=n)` is `outer` followed by its callees, at most `n` frames — the limit is anchored at `outer`,
as documented ("a limit keeps the frames nearest the given anchor: outer if only outer is given"). -/
theorem C04_other_thread_limit (c t o : Frame) (cs rest : List Frame) (n : Nat)
    (ht : t ∉ c :: cs) (ho : o ∉ c :: cs) (hoc : o ∈ t :: rest) :
    unwrapSlice ⟨[c :: cs], [t :: rest], [t]⟩ (some o) none (some n) =
      .frames (((((t :: rest).takeWhile (· != o)) ++ [o]).reverse).take n) := by
  have hchainC : fbackChain ⟨[c :: cs], [t :: rest], [t]⟩ c = c :: cs := by
    unfold fbackChain; simp [List.dropWhile_cons]
  have hchainT : fbackChain ⟨[c :: cs], [t :: rest], [t]⟩ t = t :: rest := by
    unfold fbackChain
    have h1 : t ≠ c := fun h => ht (by simp [h])
    have h2 : t ∉ cs := fun h => ht (by simp [h])
    simp [List.find?_cons, h1, h2, List.dropWhile_cons]
  have hmine : tryFrom ⟨[c :: cs], [t :: rest], [t]⟩ (some o) c = [] := by
    unfold tryFrom
    have : (c :: cs).contains o = false := by simpa using ho
    simp only [hchainC, this, Bool.false_eq_true, if_false]
  have htheirs : tryFrom ⟨[c :: cs], [t :: rest], [t]⟩ (some o) t = (((t :: rest).takeWhile (· != o)) ++ [o]).reverse := by
    unfold tryFrom
    have : (t :: rest).contains o = true := by simpa using hoc
    simp only [hchainT, this, if_true]
  have hne : ((((t :: rest).takeWhile (· != o)) ++ [o]).reverse).isEmpty = false := by simp
  unfold unwrapSlice
  simp only [List.length_cons, List.length_nil, ge_iff_le, Nat.reduceLeDiff, if_false, List.isEmpty_nil, if_true,
    List.head?_cons, Option.bind_some, Option.getD_some, Option.getD_none, hmine, Option.isNone_none, Bool.and_self,
    searchThreads, htheirs, hne, Bool.false_eq_true, applyLimit, Option.isSome_some, Bool.true_and]
  split
  · rfl
  · rename_i hlen
    rw [List.take_of_length_le (by omega)]

/-- The code before F26 (the search loop rebound `inner_frame`): the same query keeps the frames nearest the *innermost*
end and drops `outer` itself. -/
theorem C04_F26_old_code_witness :
    unwrapSliceOld ⟨[[9, 8]], [[3, 2, 1]], [3]⟩ (some 1) none (some 1) = .frames [3]
    ∧ unwrapSlice ⟨[[9, 8]], [[3, 2, 1]], [3]⟩ (some 1) none (some 1) = .frames [1]
    ∧ unwrapSlice ⟨[[9, 8]], [[3, 2, 1]], [3]⟩ (some 1) none (some 2) = .frames [1, 2] := by decide
