import SSModel.Format
/-!
C19 — standard-library summaries and flat format faithfully project the Stack.
Property theorems only; model `SSModel/Format.lean` (`sumStack`, `formatFlat`).
-/
open SS.Format

/-- **C19_plain**: without contexts the summary is exactly one entry per non-hidden frame (all frames with
show_hidden_frames), in order, carrying that frame's filename, line number and function name — whatever
contexts, inner stacks and children hang off the frames, and whatever `capture_locals` is. -/
theorem C19_plain (sh cl : Bool) (root : Option String) (frames : Frames) (leaf : Option String) (err : Option (List String)) :
    sumStack false sh cl (.mk root frames leaf err)
      = (frames.toList.filter (fun f => !f.hidden || sh)).map ownSummary := by
  have hf : ∀ fs : Frames, sumFrames false sh cl fs = (fs.toList.filter (fun f => !f.hidden || sh)).map ownSummary := by
    intro fs
    exact plain_frames sh cl fs
  simp only [sumStack, hf]
where
  plain_frames (sh cl : Bool) : ∀ fs : Frames, sumFrames false sh cl fs = (fs.toList.filter (fun f => !f.hidden || sh)).map ownSummary
    | .nil => rfl
    | .cons f rest => by
      have ih := plain_frames sh cl rest
      cases f with
      | mk head file func lineno code hide ctxs =>
        simp only [sumFrames, sumFrame, Frames.toList, List.filter_cons, Frame.hidden, ih]
        cases hide <;> cases sh <;> simp [ownSummary]

/-- **C19_hidden**: a hidden frame contributes nothing (neither its own entry nor those of its contexts)
unless show_hidden_frames; with it, it is treated like any other frame. -/
theorem C19_hidden (sc cl : Bool) (head file func : String) (lineno : Nat) (code : String) (ctxs : Contexts) :
    sumFrame sc false cl (.mk head file func lineno code true ctxs) = []
    ∧ sumFrame sc true cl (.mk head file func lineno code true ctxs) = sumFrame sc true cl (.mk head file func lineno code false ctxs) := by
  simp [sumFrame]

/-- **C19_frame_with_contexts**: with contexts shown, a visible frame's entries are those of its
contexts (each followed by its inner stack and child contexts) and then the frame's own entry, which
is omitted exactly when the last context is exiting. -/
theorem C19_frame_with_contexts (sh cl : Bool) (head file func : String) (lineno : Nat) (code : String) (ctxs : Contexts) :
    sumFrame true sh cl (.mk head file func lineno code false ctxs)
      = sumContexts sh cl file func lineno ctxs ++ (if ctxs.lastExiting then [] else [⟨file, lineno, func, none, none, true⟩]) := by
  simp [sumFrame]

/-- **C19_context_entry**: a visible context's entries start with its own entry, located in the parent
frame's file at the with-line (the frame's line when there is no start_line), named after the frame's
function plus the manager info, with an explicit empty source line when there is no start_line, and
carrying the fictitious `<context manager>` local iff capture_locals; then come its inner stack (with
contexts) and its child contexts. -/
theorem C19_context_entry (sh cl : Bool) (file func : String) (lineno : Nat) (src : String) (desc : Option String) (isAsync : Bool)
    (objType varname : Option String) (startLine : Option Nat) (ex : Bool) (r1 r2 : String) (inner : Option Stack) (ch : Children) :
    ∃ e rest, sumContext sh cl file func lineno none (.mk src desc isAsync objType varname startLine false ex r1 r2 inner ch) = e :: rest
      ∧ e.filename = file
      ∧ e.lineno = (match startLine with | some n => if n = 0 then lineno else n | none => lineno)
      ∧ e.name = func ++ (if (nameAndType objType varname).isEmpty then "" else " (" ++ nameAndType objType varname ++ ")")
      ∧ (e.ctxLocal.isSome = cl)
      ∧ (startLine = none → e.line = some "")
      ∧ rest = sumInner sh cl inner ++ sumChildren sh cl file func lineno ch := by
  refine ⟨ctxEntry cl file func lineno none desc objType varname startLine r2, _, ?_, rfl, rfl, rfl, ?_, ?_, rfl⟩
  · simp [sumContext]
  · cases cl <;> rfl
  · intro h; subst h; rfl

/-- A hidden context (and everything below it) is skipped unless show_hidden_frames. -/
theorem C19_hidden_context (cl : Bool) (file func : String) (lineno : Nat) (ov : Option String) (src : String) (desc : Option String)
    (isAsync : Bool) (objType varname : Option String) (startLine : Option Nat) (ex : Bool) (r1 r2 : String) (inner : Option Stack) (ch : Children) :
    sumContext false cl file func lineno ov (.mk src desc isAsync objType varname startLine true ex r1 r2 inner ch) = [] := by
  simp [sumContext]

/-- **C19_flat**: `format_flat` is the header, then (only if the stack has frames) the standard
rendering of the default summary (no hidden frames, no locals), then the leaf line, then the error
lines — the same header and error block as the tree format. -/
theorem C19_flat (sc : Bool) (root : Option String) (frames : Frames) (leaf : Option String) (err : Option (List String)) :
    let f := formatFlat sc (.mk root frames leaf err)
    f.header = headerText root
    ∧ f.summary = (if frames.isEmpty then none else some (sumStack sc false false (.mk root frames leaf err)))
    ∧ f.leafLine = leaf.map (fun r => "  Target of innermost frame: " ++ r ++ "\n")
    ∧ f.errorBlock = (errorLines err).map (·.text) := by
  simp [formatFlat]

/-- **C19_no_frames**: a summary entry consists of strings, a number and flags only — there is no field
in which a frame (or any other live object) could be kept. -/
theorem C19_no_frames (s : Summary) :
    s = ⟨s.filename, s.lineno, s.name, s.line, s.ctxLocal, s.isFrameEntry⟩ := rfl

/-! non-vacuity -/
def exS : Stack :=
  .mk none (.cons (.mk "h" "x.py" "f" 7 "code" false
      (.cons (.mk "" (some "desc") false (some "CM") (some "a") (some 3) false true "ctxrepr" "objrepr" none
        (.ctx (.mk "" none false none none none false false "childrepr" "None" none .nil) .nil)) .nil)) .nil) none none

example : sumStack true false true exS =
  [⟨"x.py", 3, "f (a: CM)", none, some "desc", false⟩, ⟨"x.py", 7, "f", some "# childrepr", some "None", false⟩] := by decide
