import SSModel.Format
/-! C19 — placeholder; theorems follow. -/
open SS.Format
theorem C19_placeholder : True := trivial
