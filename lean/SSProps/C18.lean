import SSModel.Format
import SSLemmas.Format
import SSLemmas.FormatCtx
import SSLemmas.ErrLines
/-!
C18 — tree formatting is well-formed; reading it back recovers the Stack's structure.
Property theorems only.  Model `SSModel/Format.lean` over the marker table generated from `_types.py`.
-/
open SS.Format

def allMarkers : List Marker :=
  [.startFrame, .continueFrame, .startLeaf, .startContext, .continueContext, .startChildContext, .startCode, .startChild, .continueChild]

/-- Every marker, Unicode and ASCII, is exactly two characters wide and contains no newline. -/
theorem C18_markers_two_wide :
    ∀ m ∈ allMarkers, ∀ a : Bool, (Marker.render a m).length = 2 ∧ (Marker.render a m).toList.all (· != '\n') = true := by
  decide

/-- **decodable**: in the Unicode table, markers that can stand at the same position of a line are
pairwise different (stack level: frame start / frame continuation / leaf; frame level: context start /
context continuation / child-context start / code; context level: child start / child continuation),
and no marker that can begin a line *below* a context equals the child indicator except child start. -/
theorem C18_markers_decodable :
    [SS.Gen.startFrameU, SS.Gen.continueFrameU, SS.Gen.startLeafU].Nodup
    ∧ [SS.Gen.startContextU, SS.Gen.continueContextU, SS.Gen.startChildContextU, SS.Gen.startCodeU].Nodup
    ∧ [SS.Gen.startChildU, SS.Gen.continueChildU, SS.Gen.startFrameU, SS.Gen.continueFrameU, SS.Gen.startLeafU].Nodup := by
  decide

/-- Frame._format recognises a child's first line by `startswith(child_context_indicator)`: the
indicator *is* the child-start marker, in both tables. -/
theorem C18_indicator_is_start_child :
    childIndicator false = Marker.render false .startChild ∧ childIndicator true = Marker.render true .startChild := by
  decide

/-- **C18_ascii**: both outputs are renderings of the same marked lines; and the ASCII marker is a
function of the Unicode marker (equal Unicode markers have equal ASCII counterparts), so the ASCII text
is the Unicode text with each prefix marker replaced by its fixed counterpart. -/
theorem C18_ascii (c h : Bool) (s : Stack) :
    format ⟨true, c, h⟩ s = (fmtStack c h s).map (Line.render true)
    ∧ format ⟨false, c, h⟩ s = (fmtStack c h s).map (Line.render false)
    ∧ (∀ m ∈ allMarkers, ∀ m' ∈ allMarkers, Marker.render false m = Marker.render false m' → Marker.render true m = Marker.render true m') := by
  refine ⟨rfl, rfl, ?_⟩
  decide

/-- **C18_str**: `str(x)` is the concatenation of `format()` with the default options. -/
theorem C18_str (s : Stack) : str s = String.join (format ⟨false, true, false⟩ s) := rfl

/-! #### every line is one newline-terminated line -/

/-- The text of a line is a payload followed by exactly the final newline. -/
def LineOK (l : Line) : Prop := ∃ p : String, l.text = p ++ "\n"

theorem push_ok (m : Marker) (l : Line) (h : LineOK l) : LineOK (push m l) := h

theorem markBlock_ok (a b : Marker) (ls : List Line) (h : ∀ l ∈ ls, LineOK l) : ∀ l ∈ markBlock a b ls, LineOK l := by
  cases ls with
  | nil => intro l hl; cases hl
  | cons x xs =>
    intro l hl
    simp only [markBlock, List.mem_cons, List.mem_map] at hl
    rcases hl with rfl | ⟨y, hy, rfl⟩
    · exact h x (by simp)
    · exact h y (by simp [hy])

theorem markContext_ok (ls : List Line) (h : ∀ l ∈ ls, LineOK l) : ∀ l ∈ markContext ls, LineOK l := by
  cases ls with
  | nil => intro l hl; cases hl
  | cons x xs =>
    intro l hl
    simp only [markContext, List.mem_cons, List.mem_map] at hl
    rcases hl with rfl | ⟨y, hy, rfl⟩
    · exact h x (by simp)
    · have := h y (by simp [hy]); split <;> exact this

theorem errorLines_ok (e : Option (List String)) : ∀ l ∈ errorLines e, LineOK l := by
  cases e with
  | none => intro l hl; cases hl
  | some ls =>
    intro l hl
    simp only [errorLines, List.mem_cons, List.mem_map] at hl
    rcases hl with rfl | ⟨y, _, rfl⟩
    · exact ⟨"  Error while extracting stack:", rfl⟩
    · exact ⟨"  " ++ y, rfl⟩

theorem contextText_ok (a : String) (b : Option String) (c : Bool) (d e : Option String) (f : Option Nat) (g h : Bool) :
    ∃ p, contextText a b c d e f g h = p ++ "\n" := ⟨_, rfl⟩

mutual
  theorem stack_ok (sc sh : Bool) : ∀ s : Stack, ∀ l ∈ fmtStack sc sh s, LineOK l
    | .mk root frames leaf err => by
      intro l hl
      simp only [fmtStack, List.mem_cons, List.mem_append] at hl
      rcases hl with rfl | (hl | hl) | hl
      · cases root <;> exact ⟨_, rfl⟩
      · exact frames_ok sc sh frames l hl
      · cases leaf with
        | none => cases hl
        | some r => simp at hl; subst hl; exact ⟨r, rfl⟩
      · exact errorLines_ok err l hl
  theorem frames_ok (sc sh : Bool) : ∀ fs : Frames, ∀ l ∈ fmtFrames sc sh fs, LineOK l
    | .nil => by intro l hl; cases hl
    | .cons f rest => by
      intro l hl
      simp only [fmtFrames, List.mem_append] at hl
      rcases hl with hl | hl
      · exact frame_ok sc sh f l hl
      · exact frames_ok sc sh rest l hl
  theorem frame_ok (sc sh : Bool) : ∀ f : Frame, ∀ l ∈ fmtFrameIn sc sh f, LineOK l
    | .mk head file func lineno code hide ctxs => by
      intro l hl
      unfold fmtFrameIn at hl
      split at hl
      · cases hl
      · refine markBlock_ok _ _ _ ?_ l hl
        intro x hx
        simp only [List.mem_cons, List.mem_append] at hx
        rcases hx with rfl | hx | hx
        · exact ⟨head, rfl⟩
        · split at hx
          · exact contexts_ok sc sh ctxs x hx
          · cases hx
        · split at hx
          · cases hx
          · simp at hx; subst hx; exact ⟨code, rfl⟩
  theorem contexts_ok (sc sh : Bool) : ∀ cs : Contexts, ∀ l ∈ fmtContexts sc sh cs, LineOK l
    | .nil => by intro l hl; cases hl
    | .cons c rest => by
      intro l hl
      simp only [fmtContexts, List.mem_append] at hl
      rcases hl with hl | hl
      · exact markContext_ok _ (context_ok sc sh true true c) l hl
      · exact contexts_ok sc sh rest l hl
  theorem context_ok (sc sh hp sl : Bool) : ∀ c : Context, ∀ l ∈ fmtContext sc sh hp sl c, LineOK l
    | .mk src desc isAsync objType varname startLine hide ex rp ro inner children => by
      intro l hl
      unfold fmtContext at hl
      split at hl
      · cases hl
      · simp only [List.mem_cons, List.mem_append] at hl
        rcases hl with rfl | hl | hl
        · exact contextText_ok _ _ _ _ _ _ _ _
        · cases inner with
          | none => cases hl
          | some s => exact stack_ok sc sh s l (List.mem_of_mem_drop hl)
        · exact children_ok sc sh false children l hl
  theorem children_ok (sc sh db : Bool) : ∀ ch : Children, ∀ l ∈ fmtChildren sc sh db ch, LineOK l
    | .nil => by intro l hl; cases hl
    | .ctx c rest => by
      intro l hl
      simp only [fmtChildren, List.mem_append] at hl
      rcases hl with hl | hl
      · exact markBlock_ok _ _ _ (context_ok sc sh false false c) l hl
      · exact children_ok sc sh _ rest l hl
    | .stack (.mk root frames leaf err) rest => by
      intro l hl
      simp only [fmtChildren, List.mem_append] at hl
      rcases hl with (hl | hl) | hl
      · split at hl
        · simp at hl; subst hl; exact ⟨"", rfl⟩
        · cases hl
      · refine markBlock_ok _ _ _ ?_ l hl
        intro x hx
        simp only [List.cons_append, List.mem_cons, List.mem_append] at hx
        rcases hx with rfl | hx | hx
        · cases root <;> exact ⟨_, rfl⟩
        · exact stack_ok sc sh (.mk root frames leaf err) x (List.mem_of_mem_drop hx)
        · split at hx
          · simp at hx; subst hx; exact ⟨"", rfl⟩
          · cases hx
      · exact children_ok sc sh _ rest l hl
end

/-- **C18_lines**: for any tree and options, every formatted line is `markers ++ payload ++ "\n"`: one
newline-terminated line (markers contain no newline by `C18_markers_two_wide`; payloads are the
caller's single-line strings). -/
theorem C18_lines (o : Opts) (s : Stack) :
    ∀ l ∈ fmtStack o.showContexts o.showHidden s, ∃ p : String, l.text = p ++ "\n" :=
  stack_ok _ _ s

/-! #### hidden iff show_hidden_frames; show_contexts=False prints exactly the frame series -/

theorem C18_hidden_frames (sc : Bool) (head file func : String) (lineno : Nat) (code : String) (ctxs : Contexts) :
    fmtFrameIn sc false (.mk head file func lineno code true ctxs) = []
    ∧ fmtFrameIn sc true (.mk head file func lineno code true ctxs) = fmtFrameIn sc true (.mk head file func lineno code false ctxs) := by
  simp [fmtFrameIn]

theorem C18_hidden_contexts (sc hp sl : Bool) (a : String) (b : Option String) (c : Bool) (d e : Option String) (f : Option Nat)
    (ex : Bool) (r1 r2 : String) (inner : Option Stack) (ch : Children) :
    fmtContext sc false hp sl (.mk a b c d e f true ex r1 r2 inner ch) = [] := by
  simp [fmtContext]

/-- The lines of one frame when contexts are not shown: its header, and its code line unless its last
context is exiting or there is no source text. -/
def plainFrameLines (sh : Bool) : Frame → List Line
  | .mk head _ _ _ code hide ctxs =>
    if hide && !sh then [] else
      ⟨[.startFrame], head ++ "\n"⟩ :: (if ctxs.lastExiting || code.isEmpty then [] else [⟨[.continueFrame, .startCode], code ++ "\n"⟩])

/-- **C18_no_contexts**: with `show_contexts=False` the output is exactly the header, the frame series,
the leaf line and the error lines — whatever contexts, inner stacks and children the tree has. -/
theorem fmtFrames_plain (sh : Bool) : ∀ fs : Frames, fmtFrames false sh fs = (fs.toList.map (plainFrameLines sh)).flatten
  | .nil => rfl
  | .cons f rest => by
    simp only [fmtFrames, Frames.toList, List.map_cons, List.flatten_cons, fmtFrames_plain sh rest]
    congr 1
    cases f with
    | mk head file func lineno code hide ctxs =>
      simp only [fmtFrameIn, plainFrameLines]
      split
      · rfl
      · simp only [Bool.false_eq_true, if_false, List.nil_append]
        split <;> simp [markBlock, push]

theorem C18_no_contexts (sh : Bool) (root : Option String) (frames : Frames) (leaf : Option String) (err : Option (List String)) :
    fmtStack false sh (.mk root frames leaf err) =
      ⟨[], headerText root⟩ :: ((frames.toList.map (plainFrameLines sh)).flatten ++
        (match leaf with | some r => [⟨[.startLeaf], r ++ "\n"⟩] | none => []) ++ errorLines err) := by
  simp only [fmtStack, fmtFrames_plain]
  cases leaf <;> rfl

/-! #### the frame series can be read back -/

/-- The block of lines of each visible frame. -/
def frameBlocks (sc sh : Bool) (fs : Frames) : List (List Line) :=
  (fs.toList.map (fmtFrameIn sc sh)).filter (fun b => !b.isEmpty)

theorem fmtFrames_flatten (sc sh : Bool) : ∀ fs : Frames, fmtFrames sc sh fs = (frameBlocks sc sh fs).flatten
  | .nil => rfl
  | .cons f rest => by
    have ih := fmtFrames_flatten sc sh rest
    simp only [fmtFrames, frameBlocks, Frames.toList, List.map_cons, List.filter_cons]
    cases hb : fmtFrameIn sc sh f with
    | nil => simp [ih, frameBlocks]
    | cons x xs => simp [ih, frameBlocks]

theorem frameBlock_good (sc sh : Bool) (f : Frame) (hb : fmtFrameIn sc sh f ≠ []) :
    GoodBlock (firstIs .startFrame) (firstIs .continueFrame) (fmtFrameIn sc sh f) := by
  cases f with
  | mk head file func lineno code hide ctxs =>
    unfold fmtFrameIn at hb ⊢
    split
    · rename_i h; simp [h] at hb
    · exact markBlock_good .startFrame .continueFrame (by decide) _ _

/-- **C18_frame_blocks**: from the body of the text (everything after the header) the frame series is
recovered: cutting at start-of-frame markers, each block running over the frame-continuation markers
that follow, yields exactly one block per visible frame, in order, each beginning with that frame's
header line; the leaf line and the error lines are not absorbed. -/
theorem C18_frame_blocks (sc sh : Bool) (root : Option String) (frames : Frames) (leaf : Option String) (err : Option (List String)) :
    splitBlocks (firstIs .startFrame) (firstIs .continueFrame) ((fmtStack sc sh (.mk root frames leaf err)).drop 1)
      = frameBlocks sc sh frames := by
  simp only [fmtStack, List.drop_succ_cons, List.drop_zero, fmtFrames_flatten, List.append_assoc]
  apply splitBlocks_flatten
  · intro x hx
    simp only [firstIs] at hx ⊢
    cases hm : x.markers with
    | nil => rfl
    | cons m ms =>
      simp only [hm, beq_iff_eq] at hx
      subst hx
      rfl
  · intro b hb
    simp only [frameBlocks, List.mem_filter, List.mem_map] at hb
    obtain ⟨⟨f, _, rfl⟩, hne⟩ := hb
    apply frameBlock_good
    intro h; simp [h] at hne
  · intro x hx
    simp only [List.mem_append] at hx
    rcases hx with hx | hx
    · cases leaf with
      | none => cases hx
      | some r => simp at hx; subst hx; rfl
    · cases err with
      | none => cases hx
      | some ls =>
        simp only [errorLines, List.mem_cons, List.mem_map] at hx
        rcases hx with rfl | ⟨y, _, rfl⟩ <;> rfl
  · intro x hx
    cases leaf with
    | some r => simp at hx; subst hx; rfl
    | none =>
      cases err with
      | none => simp [errorLines] at hx
      | some ls => simp [errorLines] at hx; subst hx; rfl

/-! ### one level down: the contexts of a frame -/

/-- The block of lines of each visible context of a frame (frame markers already removed). -/
def ctxBlocks (sh : Bool) (cs : Contexts) : List (List Line) :=
  (cs.toList.map (fun c => markContext (fmtContext true sh true true c))).filter (fun b => !b.isEmpty)

theorem fmtContexts_flatten (sh : Bool) : ∀ cs : Contexts, fmtContexts true sh cs = (ctxBlocks sh cs).flatten
  | .nil => rfl
  | .cons c rest => by
    have ih := fmtContexts_flatten sh rest
    simp only [fmtContexts, ctxBlocks, Contexts.toList, List.map_cons, List.filter_cons]
    cases hb : markContext (fmtContext true sh true true c) with
    | nil => simp [ih, ctxBlocks]
    | cons x xs => simp [ih, ctxBlocks]

/-- **C18_context_blocks**: inside the block of a visible frame, once the frame-level marker is taken off every
line, what follows the frame's header line splits — at start-of-context markers, each block running over the
context-continuation and child-context markers that follow — into exactly one block per visible context, in order;
the frame's own source line is not absorbed. -/
theorem C18_context_blocks (sh : Bool) (head file func : String) (lineno : Nat) (code : String) (hide : Bool) (ctxs : Contexts)
    (hv : (hide && !sh) = false) :
    splitBlocks (firstIs .startContext) contCtx (((fmtFrameIn true sh (.mk head file func lineno code hide ctxs)).map pop).drop 1)
      = ctxBlocks sh ctxs := by
  simp only [fmtFrameIn, hv, Bool.false_eq_true, if_false, map_pop_markBlock, List.drop_succ_cons, List.drop_zero, if_true,
    fmtContexts_flatten]
  apply splitBlocks_flatten
  · intro x hx
    simp only [firstIs, contCtx] at hx ⊢
    cases hm : x.markers with
    | nil => simp [hm] at hx
    | cons m ms =>
      simp only [hm, beq_iff_eq] at hx
      subst hx
      rfl
  · intro b hb
    simp only [ctxBlocks, List.mem_filter, List.mem_map] at hb
    obtain ⟨⟨c, _, rfl⟩, hne⟩ := hb
    cases hl : fmtContext true sh true true c with
    | nil => simp [hl, markContext] at hne
    | cons l ls => exact markContext_good l ls
  · intro x hx
    split at hx
    · cases hx
    · simp at hx; subst hx; rfl
  · intro x hx
    split at hx
    · cases hx
    · simp at hx; subst hx; rfl

/-- **C18_inner_stack_frames**: inside a visible context that has an inner stack, what follows the context's own line
splits at start-of-frame markers into exactly the inner stack's visible frames, in order; the inner stack's leaf and
error lines and every line of the context's children (child contexts, child task stacks, their blank separators) are
not absorbed. -/
theorem C18_inner_stack_frames (sc sh hp sl : Bool) (src : String) (desc : Option String) (isAsync : Bool) (objType varname : Option String)
    (startLine : Option Nat) (hide ex : Bool) (repr robj : String) (root : Option String) (frames : Frames) (leaf : Option String)
    (err : Option (List String)) (children : Children) (hv : (hide && !sh) = false) :
    splitBlocks (firstIs .startFrame) (firstIs .continueFrame)
        ((fmtContext sc sh hp sl (.mk src desc isAsync objType varname startLine hide ex repr robj (some (.mk root frames leaf err)) children)).drop 1)
      = frameBlocks sc sh frames := by
  simp only [fmtContext, hv, Bool.false_eq_true, if_false, List.drop_succ_cons, List.drop_zero, fmtStack, fmtFrames_flatten,
    List.append_assoc]
  apply splitBlocks_flatten
  · intro x hx
    simp only [firstIs] at hx ⊢
    cases hm : x.markers with
    | nil => rfl
    | cons m ms =>
      simp only [hm, beq_iff_eq] at hx
      subst hx
      rfl
  · intro b hb
    simp only [frameBlocks, List.mem_filter, List.mem_map] at hb
    obtain ⟨⟨f, _, rfl⟩, hne⟩ := hb
    apply frameBlock_good
    intro h; simp [h] at hne
  · intro x hx
    simp only [List.mem_append] at hx
    rcases hx with hx | hx | hx
    · cases leaf with
      | none => cases hx
      | some r => simp at hx; subst hx; rfl
    · cases err with
      | none => cases hx
      | some ls =>
        simp only [errorLines, List.mem_cons, List.mem_map] at hx
        rcases hx with rfl | ⟨y, _, rfl⟩ <;> rfl
    · have := fmtChildren_childLines sc sh children false x hx
      simp only [childLine, firstIs] at this ⊢
      cases hm : x.markers with
      | nil => rfl
      | cons m ms => cases m <;> simp [hm] at this ⊢
  · intro x hx
    have hnc : ∀ y, childLine y = true → firstIs .continueFrame y = false := by
      intro y hy
      simp only [childLine, firstIs] at hy ⊢
      cases hm : y.markers with
      | nil => rfl
      | cons m ms => cases m <;> simp [hm] at hy ⊢
    cases leaf with
    | some r => simp at hx; subst hx; rfl
    | none =>
      cases err with
      | some ls => simp [errorLines] at hx; subst hx; rfl
      | none =>
        simp only [errorLines, List.nil_append] at hx
        cases hc : fmtChildren sc sh false children with
        | nil => simp [hc] at hx
        | cons y ys =>
          simp only [hc, List.head?_cons, Option.some.injEq] at hx
          subst hx
          exact hnc _ (fmtChildren_childLines sc sh children false _ (by simp [hc]))

/-! non-vacuity -/
def exStack : Stack :=
  .mk (some "root") (.cons (.mk "f in m at x.py:3" "x.py" "f" 3 "with cm() as a:" false
      (.cons (.mk "with cm() as a:" none false (some "CM") (some "a") (some 3) false false "ctx" "obj" none
        (.stack (.mk (some "task1") (.cons (.mk "g in m at x.py:9" "x.py" "g" 9 "await t" false .nil) .nil) none none) .nil)) .nil)) .nil)
    (some "<leaf>") (some ["ValueError: boom"])

example : format ⟨false, true, false⟩ exStack =
  ["stackscope.Stack of root (most recent call last):\n",
   "╠ f in m at x.py:3\n",
   "║ ├ with cm() as a:  # a: CM (line 3)\n",
   "║ │   \n",
   "║ ├── task1\n",
   "║ │   ╠ g in m at x.py:9\n",
   "║ │   ║ └ await t\n",
   "║ │   \n",
   "║ └ with cm() as a:\n",
   "╚ <leaf>\n",
   "  Error while extracting stack:\n",
   "  ValueError: boom\n"] := by decide

/-! #### the error block: how one traceback element becomes elements of `format()` (F21) -/

/-- **C18_error_lines_single**: whatever characters the exception message contains, every element
`_format_error` yields for a traceback element is `"  " ++ payload ++ "\n"` with a payload free of `"\n"`:
one newline-terminated line. -/
theorem C18_error_lines_single (line : List Char) :
    ∀ s ∈ SS.ErrLines.sublines line, ∃ p : List Char, s = ' ' :: ' ' :: (p ++ ['\n']) ∧ '\n' ∉ p := by
  intro s hs
  simp only [SS.ErrLines.sublines, List.mem_map] at hs
  obtain ⟨p, hp, rfl⟩ := hs
  exact ⟨p, rfl, SS.ErrLines.splitOn_no_sep '\n' _ p hp⟩

/-- **C18_error_lines_count**: as many elements as the text has `"\n"`-separated lines (so the number of
elements of `format()` is the number of lines of `str(stack)`). -/
theorem C18_error_lines_count (line : List Char) :
    (SS.ErrLines.sublines line).length = (SS.ErrLines.dropTrailingNL line).count '\n' + 1 := by
  simp [SS.ErrLines.sublines, SS.ErrLines.splitOn_length]

/-- **C18_error_lines_lossless**: the payloads, joined by newlines, are the traceback element (less its final newline):
nothing of the message is dropped or reordered. -/
theorem C18_error_lines_lossless (line : List Char) :
    ['\n'].intercalate ((SS.ErrLines.sublines line).map (fun s => (s.drop 2).dropLast)) = SS.ErrLines.dropTrailingNL line := by
  have : (SS.ErrLines.sublines line).map (fun s => (s.drop 2).dropLast) = SS.ErrLines.splitOn '\n' (SS.ErrLines.dropTrailingNL line) := by
    simp [SS.ErrLines.sublines, List.map_map, Function.comp_def]
  rw [this, SS.ErrLines.splitOn_join]

/-- The code before F21 (`str.splitlines(True)`): a message with a carriage return gives an element that does not
end in a newline. -/
theorem C18_F21_old_code_witness :
    ∃ s ∈ SS.ErrLines.sublinesOld ['E', ':', ' ', 'a', '\r', 'b', '\n'], s.getLast? ≠ some '\n' := by decide

example : SS.ErrLines.sublines ['E', ':', ' ', 'a', '\r', 'b', '\n'] = [[' ', ' ', 'E', ':', ' ', 'a', '\r', 'b', '\n']] := by decide
