import SSModel.Format
/-! C18 — placeholder; theorems follow. -/
open SS.Format
theorem C18_placeholder : True := trivial
